//! Small deterministic PRNG (SplitMix64 seeding + xoshiro256**), no external crates.

#[derive(Clone, Debug)]
pub struct Rng {
    s: [u64; 4],
}

pub fn splitmix(x: &mut u64) -> u64 {
    *x = x.wrapping_add(0x9E3779B97F4A7C15);
    let mut z = *x;
    z = (z ^ (z >> 30)).wrapping_mul(0xBF58476D1CE4E5B9);
    z = (z ^ (z >> 27)).wrapping_mul(0x94D049BB133111EB);
    z ^ (z >> 31)
}

/// Mixes several integers into one seed.
pub fn mix(parts: &[u64]) -> u64 {
    let mut h = 0x243F6A8885A308D3u64;
    for &p in parts {
        h ^= p;
        let mut t = h;
        h = splitmix(&mut t);
    }
    h
}

impl Rng {
    pub fn new(seed: u64) -> Rng {
        let mut x = seed;
        let s = [splitmix(&mut x), splitmix(&mut x), splitmix(&mut x), splitmix(&mut x)];
        Rng { s }
    }
    pub fn next_u64(&mut self) -> u64 {
        let result = self.s[1].wrapping_mul(5).rotate_left(7).wrapping_mul(9);
        let t = self.s[1] << 17;
        self.s[2] ^= self.s[0];
        self.s[3] ^= self.s[1];
        self.s[1] ^= self.s[2];
        self.s[0] ^= self.s[3];
        self.s[2] ^= t;
        self.s[3] = self.s[3].rotate_left(45);
        result
    }
    pub fn next_u32(&mut self) -> u32 {
        (self.next_u64() >> 32) as u32
    }
    /// uniform in [0, n) ; n > 0
    pub fn below(&mut self, n: u64) -> u64 {
        assert!(n > 0);
        // multiply-shift, bias negligible for our use
        ((self.next_u64() as u128 * n as u128) >> 64) as u64
    }
    pub fn usize_below(&mut self, n: usize) -> usize {
        self.below(n as u64) as usize
    }
    /// uniform in [lo, hi] inclusive
    pub fn range(&mut self, lo: u64, hi: u64) -> u64 {
        assert!(lo <= hi);
        if lo == 0 && hi == u64::MAX {
            return self.next_u64();
        }
        lo + self.below(hi - lo + 1)
    }
    pub fn urange(&mut self, lo: usize, hi: usize) -> usize {
        self.range(lo as u64, hi as u64) as usize
    }
    pub fn irange(&mut self, lo: i64, hi: i64) -> i64 {
        assert!(lo <= hi);
        let span = (hi as i128 - lo as i128) as u64;
        if span == u64::MAX {
            return self.next_u64() as i64;
        }
        (lo as i128 + self.below(span + 1) as i128) as i64
    }
    pub fn bool(&mut self) -> bool {
        self.next_u64() & 1 == 1
    }
    /// true with probability num/den
    pub fn chance(&mut self, num: u64, den: u64) -> bool {
        self.below(den) < num
    }
    pub fn f64(&mut self) -> f64 {
        (self.next_u64() >> 11) as f64 / (1u64 << 53) as f64
    }
    pub fn pick<'a, T>(&mut self, xs: &'a [T]) -> &'a T {
        &xs[self.usize_below(xs.len())]
    }
    pub fn shuffle<T>(&mut self, xs: &mut [T]) {
        for i in (1..xs.len()).rev() {
            let j = self.usize_below(i + 1);
            xs.swap(i, j);
        }
    }
    /// picks index by weights
    pub fn weighted(&mut self, weights: &[u32]) -> usize {
        let total: u64 = weights.iter().map(|&w| w as u64).sum();
        let mut r = self.below(total);
        for (i, &w) in weights.iter().enumerate() {
            if r < w as u64 {
                return i;
            }
            r -= w as u64;
        }
        weights.len() - 1
    }
    pub fn fork(&mut self) -> Rng {
        Rng::new(self.next_u64())
    }
    pub fn bytes(&mut self, n: usize) -> Vec<u8> {
        (0..n).map(|_| self.next_u64() as u8).collect()
    }
}
