//! C11 — an I/O error never corrupts the index nor is silently swallowed (fault enumeration).
//!
//! Parent: for each reference history, a fault-free run enumerates the fault selectors that
//! occur (thread role x op kind x file kind x occurrence); each selected scenario then runs in
//! its own child process (aborts and hangs cannot be caught in-process).
//! Child: runs the history on MonDir with the fault installed and reports what it observed.
use std::collections::{BTreeMap, BTreeSet};
use std::io::Read;
use std::process::{Command, Stdio};
use std::time::{Duration, Instant};

use serde_json::{json, Value};
use tantivy::Index;
use tvmon::crash::*;
use tvmon::hist::*;
use tvmon::mondir::{file_kind, FaultMode, MonCfg, MonDir, OpKind, OpPred};
use tvmon::report::*;
use tvmon::rng::Rng;

fn kind_from(s: &str) -> Option<OpKind> {
    Some(match s {
        "open_write" => OpKind::OpenWrite,
        "write" => OpKind::Write,
        "flush" => OpKind::Flush,
        "terminate" => OpKind::Terminate,
        "atomic_write" => OpKind::AtomicWrite,
        "atomic_read" => OpKind::AtomicRead,
        "delete" => OpKind::Delete,
        "sync_directory" => OpKind::SyncDir,
        "open_read" => OpKind::OpenRead,
        "read_bytes" => OpKind::ReadBytes,
        "lock_acquire" => OpKind::LockAcquire,
        _ => return None,
    })
}

/// `quiet`: no merge policy, no explicit merges, no policy switches - nothing runs in the
/// background, so a writer can be kept after a failed commit without racing a merge
fn gen_history(seed: u64, quiet: bool) -> (ExecCfg, Vec<Op>, u64) {
    let mut rng = Rng::new(seed);
    let mut cfg = ExecCfg::random(&mut rng, false);
    cfg.threads = *rng.pick(&[1usize, 2, 3]);
    let len = rng.urange(8, 30);
    let mut gcfg = GenCfg::standard(len).no_cutters().no_delete_all();
    gcfg.w[8] = 8; // merges
    gcfg.w[5] = 14; // commits
    let mut g = HistGen::new();
    let mut ops = g.history(&mut rng, &gcfg);
    if quiet {
        cfg.merge_policy = false;
        ops.retain(|o| !matches!(o, Op::Merge { .. } | Op::SetPolicy(_)));
    }
    // half of the histories write multi-block doc stores (see `set_docstore_blocksize`): a
    // one-shot fault on a `.store` write then hits a block in the middle of a segment, with
    // later blocks of the same segment written successfully
    let mut r2 = Rng::new(seed ^ 0x5107_e5b1_0c4b);
    set_docstore_blocksize(if r2.bool() { *r2.pick(&[24usize, 64, 160, 400]) } else { 0 });
    // a quarter of the histories compress the doc store on the indexing thread (no compressor
    // thread): `.store` faults then hit the worker itself
    let _ = set_docstore_variant(r2.chance(1, 4), 0);
    (cfg, ops, rng.next_u64())
}

/// state of the index as an independent observer sees it right now (no faults on the copy)
fn observe_snapshot(mon: &MonDir) -> Result<BTreeSet<u64>, String> {
    let img = mon.snapshot();
    let d = MonDir::from_image(&img, MonCfg::default());
    let idx = Index::open(d).map_err(|e| format!("open: {e}"))?;
    let r = idx.reader().map_err(|e| format!("reader: {e}"))?;
    live_ids(&r.searcher())
}

fn same(ids: &BTreeSet<u64>, st: &DocSetState) -> bool {
    ids.len() == st.len() && st.keys().all(|k| ids.contains(k))
}


/// A commit whose meta.json write failed has already moved the in-memory "committed" register:
/// the end of a background merge on the same writer then publishes it (known finding, see
/// known_findings.txt). Detect that exact situation, report it under its own signature and adopt
/// the state so that it does not cascade.
fn check_late_publish(
    mon: &MonDir,
    ex: &mut Exec,
    maybe_later: &mut Option<(DocSetState, Option<String>)>,
    viol: &mut Vec<(String, Value)>,
    when: &str,
) {
    let Some((would, payload)) = maybe_later.clone() else { return };
    let observed = observe_snapshot(mon);
    if let Err(e) = &observed {
        viol.push((
            "after-failed-commit+gc:last-commit-unreadable".into(),
            json!({"when": when, "err": e}),
        ));
    }
    if let Ok(ids) = observed {
        if same(&ids, &ex.model.committed) {
            return;
        }
        let old = ex.model.committed.clone();
        // every observed document belongs to the old or the new state, nothing common to both
        // is missing (see the comment at the first use)
        let between = ids.iter().all(|i| old.contains_key(i) || would.contains_key(i))
            && old.keys().filter(|k| would.contains_key(k)).all(|k| ids.contains(k));
        if !between {
            viol.push((
                "after-failed-commit:state-differs-from-last-commit".into(),
                json!({"when": when, "n_ids": ids.len(), "expected": old.len()}),
            ));
            return;
        }
        let exact = same(&ids, &would);
        viol.push((
            if exact {
                "failed-commit-took-effect-later:published-by-end_merge-after-commit-returned-Err".into()
            } else {
                "failed-commit-took-effect-later:published-by-end_merge-after-commit-returned-Err:partial".into()
            },
            json!({"when": when, "n_ids": ids.len(), "old": old.len(), "new": would.len()}),
        ));
        let mut adopted = DocSetState::new();
        for i in &ids {
            if let Some(d) = would.get(i).or_else(|| old.get(i)) {
                adopted.insert(*i, d.clone());
            }
        }
        ex.model.pending.clear();
        ex.model.committed = adopted.clone();
        if exact {
            ex.model.payload = payload;
        }
        ex.model.commits.push(adopted);
        if exact {
            *maybe_later = None;
        }
    }
}

fn child_main(args: &BTreeMap<String, String>) -> ! {
    install_panic_hook();
    let seed: u64 = args["cseed"].parse().unwrap();
    let sel: Vec<&str> = args["sel"].split(':').collect();
    let (role, kind, fkind, nth, mode) = (sel[0], sel[1], sel[2], sel[3].parse::<u64>().unwrap(), sel[4]);
    let quiet = args.get("shape").map(|s| s == "quiet").unwrap_or(false);
    if args.get("shape").map(|s| s == "bulk").unwrap_or(false) {
        bulk_child(seed, role, kind, fkind, nth, mode);
    }
    let (cfg, ops, _) = gen_history(seed, quiet);
    let mon = MonDir::new(MonCfg { monitors: true, keep_payloads: true, ..Default::default() });
    let mut viol: Vec<(String, Value)> = vec![];
    let mut ex = match Exec::create(Box::new(mon.clone()), cfg.clone(), Some(mon.clone())) {
        Ok(e) => e,
        Err(e) => {
            println!("{}", json!({"result": "create-failed", "err": e}));
            std::process::exit(0);
        }
    };
    ex.errors_are_violations = false;
    let mut pred = OpPred::kind(kind_from(kind).expect("kind"));
    if role != "*" {
        pred = pred.role(role);
    }
    if fkind != "*" {
        pred = pred.fkind(fkind);
    }
    let fmode = match mode {
        "once" => FaultMode::Once,
        "perm" | "short" => FaultMode::Permanent,
        _ => FaultMode::Dead,
    };
    if mode == "short" {
        // short counts on write are legal: nothing may fail and nothing may be lost
        mon.add_short_writes(pred, nth, fmode);
    } else {
        mon.add_fault(pred, nth, fmode, std::io::ErrorKind::Other);
    }
    let mut surfaced: Vec<String> = vec![];
    let mut ok_commit_returns: Vec<(u64, usize)> = vec![];
    let mut api_calls = 0u64;
    let mut rr = Rng::new(seed ^ 0xfeed);
    let mut maybe_later: Option<(DocSetState, Option<String>)> = None;
    // operations of the transaction in progress (what a client would play again after a failed
    // commit)
    let mut cur_txn: Vec<Op> = vec![];
    for op in &ops {
        api_calls += 1;
        let would = ex.model.would_commit();
        let out = guarded(|| ex.step(op));
        let out = match out {
            Ok(o) => o,
            Err(p) => {
                if p.in_harness() {
                    println!("{}", json!({"result": "harness-panic", "err": p.message, "at": p.location}));
                    std::process::exit(0);
                }
                viol.push((format!("panic-under-fault:{}", p.sig()), json!({"op": op.kind(), "msg": p.message})));
                break;
            }
        };
        let is_commit = matches!(op, Op::Commit | Op::PrepCommit { abort: false, .. });
        if std::env::var("C11_DEBUG").is_ok() {
            eprintln!("op {} -> ok={} err={:?} seq={} files={:?}", op.kind(), out.ok, out.err, mon.seq(), mon.list_files().len());
        }
        if out.ok {
            match op {
                Op::Add(_) | Op::DeleteTerm(_) | Op::DeleteQuery(_) | Op::Batch(_) => cur_txn.push(op.clone()),
                Op::Rollback | Op::Reopen { .. } | Op::PrepCommit { abort: true, .. } => cur_txn.clear(),
                _ => {}
            }
            if is_commit {
                ok_commit_returns.push((mon.seq(), ex.model.commits.len() - 1));
                maybe_later = None;
                cur_txn.clear();
            }
            continue;
        }
        let committed_keys_at_failure: BTreeSet<u64> = ex.model.committed.keys().copied().collect();
        surfaced.push(format!("{}", op.kind()));
        if mode == "short" && !matches!(op, Op::Merge { .. }) {
            viol.push(("short-write-made-an-api-call-fail".into(), json!({"op": op.kind(), "err": out.err})));
        }
        if is_commit {
            // a failed commit may have taken effect or not, never partially
            match observe_snapshot(&mon) {
                Err(e) => viol.push(("after-failed-commit:index-unreadable".into(), json!({"err": e, "op": op.kind()}))),
                Ok(ids) => {
                    if same(&ids, &ex.model.committed) {
                        // not applied (yet)
                        let payload = match op {
                            Op::PrepCommit { payload, .. } => payload.clone(),
                            _ => None,
                        };
                        maybe_later = Some((would.clone(), payload));
                    } else if same(&ids, &would) {
                        let payload = match op {
                            Op::PrepCommit { payload, .. } => payload.clone(),
                            _ => None,
                        };
                        ex.model.pending.clear();
                        ex.model.committed = would.clone();
                        ex.model.payload = payload;
                        ex.model.commits.push(would.clone());
                    } else {
                        // Same root cause as the late publication (known finding): a background
                        // merge that ends after the failed commit publishes the in-memory
                        // registers; when the merge had started before the commit, its output
                        // lacks the failed transaction's deletes, so the published state lies
                        // between the old and the new one. Recognised only for a failed
                        // meta.json replace, and only when every observed document belongs to
                        // the old or the new state and nothing common to both is missing.
                        let between = kind == "atomic_write"
                            && fkind == "meta"
                            && ids.iter().all(|i| ex.model.committed.contains_key(i) || would.contains_key(i))
                            && ex
                                .model
                                .committed
                                .keys()
                                .filter(|k| would.contains_key(k))
                                .all(|k| ids.contains(k));
                        if between {
                            viol.push((
                                "failed-commit-took-effect-later:published-by-end_merge-after-commit-returned-Err:partial".into(),
                                json!({"n_ids": ids.len(), "old": ex.model.committed.len(), "new": would.len()}),
                            ));
                            let mut adopted = DocSetState::new();
                            for i in &ids {
                                if let Some(d) = would.get(i).or_else(|| ex.model.committed.get(i)) {
                                    adopted.insert(*i, d.clone());
                                }
                            }
                            ex.model.pending.clear();
                            ex.model.committed = adopted.clone();
                            ex.model.commits.push(adopted);
                        } else {
                            viol.push((
                                "after-failed-commit:state-is-neither-old-nor-new".into(),
                                json!({"n_ids": ids.len(), "old": ex.model.committed.len(), "new": would.len()}),
                            ));
                        }
                    }
                }
            }
        }
        // the writer is usually dead after an error: recover the way a user would
        if matches!(op, Op::Merge { .. } | Op::Gc) {
            continue;
        }
        if is_commit && quiet {
            // ... but a failed commit does not have to kill the writer: a user may keep it and
            // reclaim space or merge before retrying. Whatever runs now must leave the last
            // successful commit readable.
            // (Only GC: a merge on a writer whose commit failed publishes the in-memory
            // "committed" register, i.e. makes the failed commit take effect later - see
            // DESIGN.md §8, observation on failed commits; the statement speaks of dropping or
            // rolling back the failed writer.)
            let _ = guarded(|| ex.step(&Op::Gc));
            if maybe_later.is_some() {
                // one observation only: a background merge may end at any moment
                check_late_publish(&mon, &mut ex, &mut maybe_later, &mut viol, "after gc on the same writer");
            } else {
                match observe_snapshot(&mon) {
                    Err(e) => viol.push((
                        "after-failed-commit+gc:last-commit-unreadable".into(),
                        json!({"err": e, "op": op.kind()}),
                    )),
                    Ok(ids) => {
                        if !same(&ids, &ex.model.committed) {
                            viol.push((
                                "after-failed-commit+gc:state-differs-from-last-commit".into(),
                                json!({"n_ids": ids.len(), "expected": ex.model.committed.len()}),
                            ));
                        }
                    }
                }
            }
        }
        check_late_publish(&mon, &mut ex, &mut maybe_later, &mut viol, "before recovery");
        let recover = if rr.bool() { Op::Rollback } else { Op::Reopen { wait_merges: false } };
        let r = guarded(|| ex.step(&recover));
        match r {
            Ok(o) => {
                if !o.ok {
                    surfaced.push(format!("{}", recover.kind()));
                    // still failing (permanent fault): make sure no half-alive writer is kept
                    ex.abandon_writer();
                }
            }
            Err(p) => {
                if !p.in_harness() {
                    viol.push((format!("panic-under-fault:{}", p.sig()), json!({"op": recover.kind(), "msg": p.message})));
                }
                ex.abandon_writer();
            }
        }
        // the old updater is killed now: one last look, then the limbo is over
        check_late_publish(&mon, &mut ex, &mut maybe_later, &mut viol, "after recovery");
        // The failed commit left no trace in what is published and the fault is over: the client
        // plays the same transaction again on the new writer (same opstamps as the first time;
        // files of the failed attempt may still lie around). It has to go through.
        let untouched = ex.model.committed.len() == committed_keys_at_failure.len()
            && ex.model.committed.keys().all(|k| committed_keys_at_failure.contains(k));
        if is_commit && mode == "once" && maybe_later.is_some() && untouched && ex.writer.is_some() && rr.bool() {
            let mut replay_ok = true;
            for rop in &cur_txn {
                match guarded(|| ex.step(rop)) {
                    Ok(o) if o.ok => {}
                    Ok(o) => {
                        viol.push(("retry-of-the-failed-transaction:operation-failed".into(), json!({"op": rop.kind(), "err": o.err})));
                        replay_ok = false;
                        break;
                    }
                    Err(p) => {
                        if !p.in_harness() {
                            viol.push((format!("panic-under-fault:{}", p.sig()), json!({"op": rop.kind(), "msg": p.message})));
                        }
                        replay_ok = false;
                        break;
                    }
                }
            }
            if replay_ok {
                match guarded(|| ex.step(&Op::Commit)) {
                    Ok(o) if o.ok => {
                        ok_commit_returns.push((mon.seq(), ex.model.commits.len() - 1));
                        surfaced.push("retry-committed".into());
                    }
                    Ok(o) => viol.push((
                        "retry-of-the-failed-transaction:commit-failed-after-the-fault-was-over".into(),
                        json!({"err": o.err, "n_ops": cur_txn.len()}),
                    )),
                    Err(p) => {
                        if !p.in_harness() {
                            viol.push((format!("panic-under-fault:{}", p.sig()), json!({"op": "commit", "msg": p.message})));
                        }
                    }
                }
            }
            if !replay_ok || ex.writer.is_none() {
                ex.abandon_writer();
            }
        }
        cur_txn.clear();
        maybe_later = None;
    }
    let fired = mon.faults_fired();
    mon.clear_faults();
    // (c) after the faults stopped: drop what is left, new writer, add, commit
    ex.drain_merges();
    ex.abandon_writer();
    check_late_publish(&mon, &mut ex, &mut maybe_later, &mut viol, "after the faults stopped");
    // whatever the last failed steps left, storage must hold exactly the last committed state
    match observe_snapshot(&mon) {
        Err(e) => viol.push(("after-faults:last-commit-unreadable".into(), json!(e))),
        Ok(ids) => {
            if !same(&ids, &ex.model.committed) {
                viol.push((
                    "after-faults:storage-state-differs-from-last-successful-commit".into(),
                    json!({"n_ids": ids.len(), "expected": ex.model.committed.len()}),
                ));
            }
        }
    }
    ex.errors_are_violations = true;
    ex.problems.clear();
    match ex.open_writer() {
        Err(e) => viol.push(("after-faults:cannot-create-writer".into(), json!(e))),
        Ok(()) => {
            let mut g = HistGen { next_id: 5_000_000 };
            let d = g.doc(&mut rr, 3);
            ex.step(&Op::Add(d));
            let o = ex.step(&Op::Commit);
            if !o.ok {
                viol.push(("after-faults:commit-failed".into(), json!(o.err)));
            } else {
                for (sig, d) in ex.check_committed(true) {
                    viol.push((format!("after-faults:{sig}"), d));
                }
            }
        }
    }
    for (sig, d) in ex.problems.drain(..) {
        if !is_known("C02", &sig) {
            viol.push((format!("after-faults:{sig}"), d));
        }
    }
    if let Some(w) = ex.writer.take() {
        let _ = w.wait_merging_threads();
    }
    // (d) nothing is leaked for good: once the faults are over, a garbage collection (on a new
    // writer) leaves exactly the files of the commit on storage - a file whose deletion failed
    // earlier is still known and is collected now
    if viol.is_empty() {
        match ex.open_writer() {
            Err(e) => viol.push(("after-faults:cannot-create-writer-for-gc".into(), json!(e))),
            Ok(()) => {
                let gc = ex.writer.as_ref().unwrap().garbage_collect_files().wait();
                if let Err(e) = gc {
                    viol.push(("after-faults:gc-failed".into(), json!(e.to_string())));
                } else if let Some(Ok(refs)) = mon.raw_bytes("meta.json").map(|b| tvmon::mondir::meta_referenced_files(&b)) {
                    let expected: BTreeSet<String> = refs.into_iter().map(|(f, _)| f).collect();
                    let list_orphans = |mon: &MonDir| -> Vec<String> {
                        mon.list_files()
                            .into_iter()
                            .filter(|f| !f.starts_with('.') && f != "meta.json" && !expected.contains(f))
                            .collect()
                    };
                    let mut orphans = list_orphans(&mon);
                    // a thread of an abandoned writer that is about to exit (merge thread, worker)
                    // may still hold its segments in the index inventory for a moment: GC rightly
                    // keeps their files. Bounded re-check; a permanent leak survives it.
                    for wait_ms in [5u64, 20, 100, 500, 2000] {
                        if orphans.is_empty() {
                            break;
                        }
                        let _ = mon.wait_no_merge_in_flight(Duration::from_secs(5));
                        std::thread::sleep(Duration::from_millis(wait_ms));
                        let _ = ex.writer.as_ref().unwrap().garbage_collect_files().wait();
                        orphans = list_orphans(&mon);
                    }
                    if !orphans.is_empty() {
                        let kinds: BTreeSet<&str> = orphans.iter().map(|f| file_kind(f)).collect();
                        let listed: BTreeSet<String> = mon
                            .raw_bytes(".managed.json")
                            .and_then(|b| serde_json::from_slice::<Vec<String>>(&b).ok())
                            .unwrap_or_default()
                            .into_iter()
                            .collect();
                        let unmanaged = orphans.iter().filter(|f| !listed.contains(*f)).count();
                        viol.push((
                            format!("after-faults:files-leaked-for-good:{}", kinds.into_iter().collect::<Vec<_>>().join("+")),
                            json!({"orphans": orphans.iter().take(10).collect::<Vec<_>>(), "not_in_managed.json": unmanaged}),
                        ));
                    }
                }
                if let Some(w) = ex.writer.take() {
                    let _ = w.wait_merging_threads();
                }
            }
        }
    }
    // (a) every commit that returned Ok was complete and durable at its return
    let log = mon.log();
    let commits = ex.model.commits.clone();
    let mut st = CrashState::new();
    let mut it = ok_commit_returns.iter().peekable();
    let mut prng = Rng::new(1);
    for ev in &log {
        st.apply(ev);
        while let Some(&&(seq, ci)) = it.peek() {
            if ev.seq < seq {
                break;
            }
            it.next();
            let img = st.image(&Outcome { entries: Entries::DurableOnly, content: Content::Synced }, &mut prng);
            let d = MonDir::from_image(&img, MonCfg::default());
            match Index::open(d).and_then(|i| i.reader()) {
                Err(e) => viol.push(("ok-commit:not-recoverable-at-its-return".into(), json!({"commit": ci, "err": e.to_string()}))),
                Ok(r) => match live_ids(&r.searcher()) {
                    Err(e) => viol.push(("ok-commit:unreadable-at-its-return".into(), json!({"commit": ci, "err": e}))),
                    Ok(ids) => {
                        if ci >= commits.len() || !same(&ids, &commits[ci]) {
                            viol.push((
                                "ok-commit:durable-state-differs-at-its-return".into(),
                                json!({"commit": ci, "n_ids": ids.len()}),
                            ));
                        }
                    }
                },
            }
        }
    }
    for v in mon.take_violations() {
        // the durable-meta variant of T3 is a crash-safety monitor (C01): after an injected
        // failure of a directory sync the durable state is unknowable, and C11 does not combine
        // faults with crashes
        if v.sig.starts_with("T3:delete-of-file-referenced-by-durable-meta") {
            continue;
        }
        viol.push((format!("monitor:{}", v.sig), v.detail));
    }
    if let Ok(path) = std::env::var("C11_DUMP") {
        if !viol.is_empty() {
            let lines: Vec<String> = log.iter().map(|e| e.brief().to_string()).collect();
            let _ = std::fs::write(format!("{path}.{}.{}", std::process::id(), args["sel"].replace(":", "_")), format!("{}\n{}", viol.iter().map(|v| v.0.clone()).collect::<Vec<_>>().join(" ; "), lines.join("\n")));
        }
    }
    println!(
        "{}",
        json!({"result": "done", "fired": fired, "surfaced": surfaced, "api_calls": api_calls,
               "ok_commits": ok_commit_returns.len(),
               "violations": viol.iter().map(|(s, d)| json!([s, d])).collect::<Vec<_>>()})
    );
    std::process::exit(0);
}

/// "bulk" scenario: an indexing worker dies of an I/O error in the middle of a transaction (its
/// segment is cut by the memory budget, the flush fails) and the client keeps adding more
/// documents than the bounded pipeline holds, without committing. Every call has to return
/// (with an error at the latest at commit); nothing may block for ever.
fn bulk_child(seed: u64, role: &str, kind: &str, fkind: &str, nth: u64, mode: &str) -> ! {
    let mut rr = Rng::new(seed);
    let threads = 1 + rr.below(2) as usize;
    let cfg = ExecCfg { threads, merge_policy: false, sort: None, budget_per_thread: 15_000_000 };
    let mon = MonDir::new(MonCfg { monitors: true, keep_payloads: false, ..Default::default() });
    let mut viol: Vec<(String, Value)> = vec![];
    let mut ex = match Exec::create(Box::new(mon.clone()), cfg, Some(mon.clone())) {
        Ok(e) => e,
        Err(e) => {
            println!("{}", json!({"result": "create-failed", "err": e}));
            std::process::exit(0);
        }
    };
    ex.errors_are_violations = false;
    let mut g = HistGen::new();
    for _ in 0..rr.urange(1, 5) {
        ex.step(&Op::Add(g.doc(&mut rr, 3)));
    }
    ex.step(&Op::Commit);
    let mut pred = OpPred::kind(kind_from(kind).expect("kind")).role(role);
    if fkind != "*" {
        pred = pred.fkind(fkind);
    }
    let fmode = if mode == "once" { FaultMode::Once } else { FaultMode::Permanent };
    mon.add_fault(pred, nth, fmode, std::io::ErrorKind::Other);
    let mut surfaced: Vec<String> = vec![];
    let mut api_calls = 0u64;
    for _ in 0..rr.urange(1, 4) {
        api_calls += 1;
        if !ex.step(&Op::Add(g.doc(&mut rr, 3))).ok {
            surfaced.push("add".into());
        }
    }
    // oversized documents: every worker that gets one flushes its segment right away
    for _ in 0..threads * 2 {
        let mut d = g.doc(&mut rr, 3);
        d.pad = CUTTER_PAD;
        api_calls += 1;
        if !ex.step(&Op::Add(d)).ok {
            surfaced.push("add-cutter".into());
        }
    }
    let hs = ex.hs.clone();
    let mut first_err: Option<(usize, String)> = None;
    if let Some(w) = ex.writer.as_ref() {
        for i in 0..12_000usize {
            let d = g.doc(&mut rr, 3);
            api_calls += 1;
            if let Err(e) = w.add_document(d.to_doc(&hs)) {
                first_err = Some((i, e.to_string()));
                surfaced.push("bulk-add".into());
                break;
            }
        }
    }
    let fired = mon.faults_fired();
    api_calls += 1;
    let commit_ok = match ex.writer.as_mut().map(|w| w.commit()) {
        Some(Ok(_)) => true,
        Some(Err(_)) => {
            surfaced.push("commit".into());
            false
        }
        None => false,
    };
    if fired > 0 && surfaced.is_empty() && commit_ok {
        viol.push((
            "worker-fault-swallowed:adds-and-commit-returned-Ok".into(),
            json!({"threads": threads, "fired": fired}),
        ));
    }
    mon.clear_faults();
    if fired > 0 || !commit_ok {
        // recover the way a user would and make sure the last successful commit is what is there
        ex.abandon_writer();
        match observe_snapshot(&mon) {
            Err(e) => viol.push(("after-faults:last-commit-unreadable".into(), json!(e))),
            Ok(ids) => {
                // the failed transaction is either completely absent or (commit returned Ok
                // although a fault fired - reported above) present; partial states are violations
                if !commit_ok && !same(&ids, &ex.model.committed) {
                    viol.push((
                        "after-faults:storage-state-differs-from-last-successful-commit".into(),
                        json!({"n_ids": ids.len(), "expected": ex.model.committed.len()}),
                    ));
                }
            }
        }
        if !commit_ok {
            ex.errors_are_violations = true;
            ex.problems.clear();
            match ex.open_writer() {
                Err(e) => viol.push(("after-faults:cannot-create-writer".into(), json!(e))),
                Ok(()) => {
                    let mut g2 = HistGen { next_id: 5_000_000 };
                    ex.step(&Op::Add(g2.doc(&mut rr, 3)));
                    let o = ex.step(&Op::Commit);
                    if !o.ok {
                        viol.push(("after-faults:commit-failed".into(), json!(o.err)));
                    } else {
                        for (sig, d) in ex.check_committed(true) {
                            viol.push((format!("after-faults:{sig}"), d));
                        }
                    }
                }
            }
            for (sig, d) in ex.problems.drain(..) {
                if !is_known("C02", &sig) {
                    viol.push((format!("after-faults:{sig}"), d));
                }
            }
        }
    }
    println!(
        "{}",
        json!({"result": "done", "fired": fired, "surfaced": surfaced, "api_calls": api_calls, "ok_commits": 1,
               "bulk_first_error_at": first_err.as_ref().map(|e| e.0), "threads": threads,
               "violations": viol.iter().map(|(s, d)| json!([s, d])).collect::<Vec<_>>()})
    );
    std::process::exit(0);
}

fn bulk_case(case: u64, rng: &mut Rng, rep: &mut Report) {
    let cseed = rng.next_u64();
    // the thread the fault hits: an indexing worker, or the doc store compressor thread of a
    // worker (every 16 KB block of stored documents is one message to it: a one-shot fault in the
    // middle of a segment is followed by successful writes of the same segment)
    let role = *rng.pick(&["worker", "worker", "compressor"]);
    let kind = if role == "compressor" { *rng.pick(&["write", "write", "write", "terminate"]) } else { *rng.pick(&["open_write", "write", "write", "terminate", "flush"]) };
    let nth = match (role, kind) {
        ("compressor", "write") => rng.below(80),
        (_, "write") => rng.below(30),
        ("compressor", _) => rng.below(3),
        _ => rng.below(7),
    };
    let mut mode = *rng.pick(&["once", "perm"]);
    let (mut role, mut kind, mut nth) = (role, kind, nth);
    if case % 4 == 3 {
        // always among the scenarios: a transient failure of a doc store block in the middle of
        // the bulk segment (writes 0..7 belong to the small segments in front of it)
        role = "compressor";
        kind = "write";
        nth = 8 + rng.below(40);
        mode = "once";
    }
    let sel = format!("{role}:{kind}:*:{nth}:{mode}");
    rep.eval();
    match run_child(cseed, &sel, "bulk", Duration::from_secs(45)) {
        ChildEnd::Inconclusive(e) => rep.note(format!("scenario bulk {sel} inconclusive: {e}")),
        ChildEnd::Signal(sig) => rep.violation(
            format!("child-aborted:signal-{sig}:bulk:{role}:{kind}"),
            json!({"case": case, "cseed": cseed, "selector": sel}),
        ),
        ChildEnd::Hang(stacks) => rep.violation(
            format!("child-hung:bulk-adds-after-worker-fault:{role}:{kind}"),
            json!({"case": case, "cseed": cseed, "selector": sel, "stacks": stacks,
                   "replay_child": format!("harness/target/verif/c11 --child 1 --cseed {cseed} --sel {sel} --shape bulk")}),
        ),
        ChildEnd::Output(out) => {
            let line = out.lines().last().unwrap_or("");
            let v: Value = match serde_json::from_str(line) {
                Ok(v) => v,
                Err(_) => {
                    rep.harness_error(format!("child output unparsable for bulk {sel}: {line:.200}"));
                    return;
                }
            };
            match v["result"].as_str() {
                Some("done") => {}
                Some("harness-panic") => {
                    rep.harness_error(format!("child harness panic bulk {sel}: {}", v));
                    return;
                }
                _ => return,
            }
            let fired = v["fired"].as_u64().unwrap_or(0);
            rep.count("bulk_scenarios_run", 1);
            if fired > 0 {
                rep.count("bulk_scenarios_where_worker_fault_fired", 1);
                let first = v["surfaced"][0].as_str().unwrap_or("absorbed").to_string();
                rep.observe("surfaced_at", format!("bulk:{role}:{kind} -> {first}"));
                rep.nontrivial(format!("bulk:{role}:{kind}:{mode}:threads={}:{first}", v["threads"]));
            }
            if let Some(vs) = v["violations"].as_array() {
                for x in vs {
                    let sig = x[0].as_str().unwrap_or("?").to_string();
                    rep.violation(
                        format!("bulk:{sig}|fault@{role}:{kind}"),
                        json!({"case": case, "cseed": cseed, "selector": sel, "detail": x[1], "surfaced": v["surfaced"],
                               "replay_child": format!("harness/target/verif/c11 --child 1 --cseed {cseed} --sel {sel} --shape bulk")}),
                    );
                }
            }
        }
    }
}

enum ChildEnd {
    Output(String),
    Signal(i32),
    Hang(String),
    Inconclusive(String),
}

fn cpu_ticks(pid: u32) -> Option<u64> {
    let s = std::fs::read_to_string(format!("/proc/{pid}/stat")).ok()?;
    let rest = s.rsplit(") ").next()?;
    let f: Vec<&str> = rest.split_whitespace().collect();
    Some(f.get(11)?.parse::<u64>().ok()? + f.get(12)?.parse::<u64>().ok()?)
}

fn run_child(cseed: u64, sel: &str, shape: &str, watchdog: Duration) -> ChildEnd {
    use std::os::unix::process::ExitStatusExt;
    let exe = std::env::current_exe().expect("exe");
    let mut child = match Command::new(exe)
        .args(["--child", "1", "--cseed", &cseed.to_string(), "--sel", sel, "--shape", shape])
        .stdout(Stdio::piped())
        .stderr(Stdio::null())
        .spawn()
    {
        Ok(c) => c,
        Err(e) => return ChildEnd::Inconclusive(format!("spawn: {e}")),
    };
    let start = Instant::now();
    loop {
        match child.try_wait() {
            Ok(Some(status)) => {
                let mut out = String::new();
                if let Some(mut so) = child.stdout.take() {
                    let _ = so.read_to_string(&mut out);
                }
                if let Some(sig) = status.signal() {
                    return ChildEnd::Signal(sig);
                }
                return ChildEnd::Output(out);
            }
            Ok(None) => {}
            Err(e) => return ChildEnd::Inconclusive(format!("wait: {e}")),
        }
        if start.elapsed() > watchdog {
            // hang (no CPU progress) or just slow?
            let pid = child.id();
            let t0 = cpu_ticks(pid);
            std::thread::sleep(Duration::from_millis(1500));
            let t1 = cpu_ticks(pid);
            let stalled = matches!((t0, t1), (Some(a), Some(b)) if a == b);
            let stacks = Command::new("gdb")
                .args(["-p", &pid.to_string(), "-batch", "-ex", "thread apply all bt 12"])
                .stderr(Stdio::null())
                .output()
                .map(|o| String::from_utf8_lossy(&o.stdout).chars().take(6000).collect::<String>())
                .unwrap_or_default();
            let _ = child.kill();
            let _ = child.wait();
            return if stalled {
                ChildEnd::Hang(stacks)
            } else {
                ChildEnd::Inconclusive("watchdog fired while the child was still consuming CPU".into())
            };
        }
        std::thread::sleep(Duration::from_millis(3));
    }
}

fn parent_case(case: u64, rng: &mut Rng, rep: &mut Report, per_history: usize, quiet: bool) {
    let cseed = rng.next_u64();
    let (cfg, ops, _) = gen_history(cseed, quiet);
    // fault-free reference run: which (role, kind, file kind) occur, and how often
    let mon = MonDir::new(MonCfg { monitors: true, log_reads: false, ..Default::default() });
    let mut ex = match Exec::create(Box::new(mon.clone()), cfg.clone(), Some(mon.clone())) {
        Ok(e) => e,
        Err(e) => {
            rep.violation("api-error:create", json!(e));
            return;
        }
    };
    for op in &ops {
        ex.step(op);
    }
    ex.drain_merges();
    if let Some(w) = ex.writer.take() {
        let _ = w.wait_merging_threads();
    }
    let mut occ: BTreeMap<(String, String, String), u64> = BTreeMap::new();
    for ev in mon.log() {
        if matches!(ev.kind, OpKind::Client | OpKind::LockRelease | OpKind::Exists) {
            continue;
        }
        *occ.entry((ev.role.to_string(), ev.kind.name().to_string(), file_kind(&ev.path).to_string()))
            .or_insert(0) += 1;
    }
    let keys: Vec<_> = occ.keys().cloned().collect();
    if keys.is_empty() {
        return;
    }
    let t_ref = Instant::now();
    let _ = t_ref;
    // the commit point itself is always among the scenarios: a transient failure of the
    // meta.json replace and of the directory syncs around it
    let commit_point: Vec<(String, String, String)> = keys
        .iter()
        .filter(|k| k.0 == "updater" && ((k.1 == "atomic_write" && k.2 == "meta") || k.1 == "sync_directory"))
        .cloned()
        .collect();
    for si in 0..per_history {
        let forced = (quiet || si < 4) && !commit_point.is_empty();
        let k = if forced { rng.pick(&commit_point).clone() } else { rng.pick(&keys).clone() };
        let n = occ[&k];
        let nth = match rng.below(3) {
            0 if !forced => 0,
            1 => n - 1,
            _ => rng.below(n),
        };
        let mode = if forced {
            "once"
        } else if k.1 == "write" && rng.chance(1, 4) {
            "short"
        } else {
            *rng.pick(&["once", "once", "perm", "dead"])
        };
        let sel = format!("{}:{}:{}:{}:{}", k.0, k.1, k.2, nth, mode);
        rep.eval();
        match run_child(cseed, &sel, if quiet { "quiet" } else { "any" }, Duration::from_secs(60)) {
            ChildEnd::Inconclusive(e) => rep.note(format!("scenario {sel} inconclusive: {e}")),
            ChildEnd::Signal(sig) => rep.violation(
                format!("child-aborted:signal-{sig}:{}:{}:{}", k.0, k.1, k.2),
                json!({"case": case, "cseed": cseed, "selector": sel, "history": ops.iter().map(|o| o.kind()).collect::<Vec<_>>()}),
            ),
            ChildEnd::Hang(stacks) => rep.violation(
                format!("child-hung:{}:{}:{}", k.0, k.1, k.2),
                json!({"case": case, "cseed": cseed, "selector": sel, "stacks": stacks}),
            ),
            ChildEnd::Output(out) => {
                let line = out.lines().last().unwrap_or("");
                let v: Value = match serde_json::from_str(line) {
                    Ok(v) => v,
                    Err(_) => {
                        rep.harness_error(format!("child output unparsable for {sel}: {line:.200}"));
                        continue;
                    }
                };
                match v["result"].as_str() {
                    Some("done") => {}
                    Some("harness-panic") => {
                        rep.harness_error(format!("child harness panic {sel}: {}", v));
                        continue;
                    }
                    _ => continue,
                }
                let fired = v["fired"].as_u64().unwrap_or(0);
                let surfaced: Vec<String> = v["surfaced"]
                    .as_array()
                    .map(|a| a.iter().filter_map(|x| x.as_str().map(|s| s.to_string())).collect())
                    .unwrap_or_default();
                rep.count("scenarios_run", 1);
                if fired > 0 {
                    rep.count("scenarios_where_fault_fired", 1);
                    let first = surfaced.first().cloned().unwrap_or_else(|| "absorbed".into());
                    rep.observe("fault_point", format!("{}:{}:{}", k.0, k.1, k.2));
                    rep.observe("surfaced_at", format!("{}:{} -> {}", k.0, k.1, first));
                    rep.nontrivial(format!("{}:{}:{}:{}:{}", k.0, k.1, k.2, mode, first));
                }
                if let Some(vs) = v["violations"].as_array() {
                    for x in vs {
                        let sig = x[0].as_str().unwrap_or("?").to_string();
                        rep.violation(
                            format!("{sig}|fault@{}:{}:{}", k.0, k.1, k.2),
                            json!({"case": case, "cseed": cseed, "selector": sel, "detail": x[1], "surfaced": surfaced,
                                   "history": ops.iter().map(|o| o.kind()).collect::<Vec<_>>(),
                                   "replay_child": format!("harness/target/verif/c11 --child 1 --cseed {cseed} --sel {sel} --shape {}", if quiet { "quiet" } else { "any" })}),
                        );
                    }
                }
                if rep.samples.len() < 4 && fired > 0 {
                    rep.sample(json!({"selector": sel, "fired": fired, "surfaced": surfaced, "ok_commits": v["ok_commits"],
                        "history": ops.iter().map(|o| o.kind()).collect::<Vec<_>>()}));
                }
            }
        }
    }
}


/// Forced schedule + fault (in-process): the merge thread is parked near the end of a merge, a
/// delete is committed meanwhile, and the reconciliation of the merged segment with that delete
/// (end_merge -> advance_deletes) hits an I/O error. The merge has to be discarded without
/// effect: the index must still show exactly the committed state.
fn forced_merge_fault_case(case: u64, rng: &mut Rng, rep: &mut Report) {
    let cfg = ExecCfg { threads: 1, merge_policy: false, sort: None, budget_per_thread: 15_000_000 };
    let mon = MonDir::new(MonCfg { monitors: true, ..Default::default() });
    let mut ex = match Exec::create(Box::new(mon.clone()), cfg, Some(mon.clone())) {
        Ok(e) => e,
        Err(e) => {
            rep.violation("api-error:create", json!(e));
            return;
        }
    };
    rep.eval();
    let mut g = HistGen::new();
    for _ in 0..rng.urange(2, 3) {
        for _ in 0..rng.urange(3, 12) {
            ex.step(&Op::Add(g.doc(rng, 3)));
        }
        ex.step(&Op::Commit);
    }
    let ids = ex.index.searchable_segment_ids().unwrap_or_default();
    if ids.len() < 2 {
        return;
    }
    let gate_kind = *rng.pick(&[OpKind::Terminate, OpKind::Terminate, OpKind::OpenWrite, OpKind::Write]);
    let nth = rng.below(6);
    let gate = mon.add_gate(OpPred::kind(gate_kind).role("merge"), nth);
    let fut = ex.writer.as_mut().unwrap().merge(&ids);
    let parked = mon.wait_parked(gate, Duration::from_secs(5));
    let fault_kind = *rng.pick(&[OpKind::OpenWrite, OpKind::Write, OpKind::Terminate]);
    if parked {
        // a delete that hits documents of the segments being merged, committed while it runs
        ex.step(&Op::DeleteTerm(Pred::Grp(rng.below(3))));
        ex.step(&Op::Commit);
        mon.add_fault(OpPred::kind(fault_kind).role("updater").fkind("del"), 0, FaultMode::Once, std::io::ErrorKind::Other);
    }
    mon.release_gate(gate);
    let merge_res = fut.wait();
    let fired = mon.faults_fired();
    mon.clear_faults();
    mon.release_all_gates();
    rep.count(if parked { "forced_merge_fault:parked" } else { "forced_merge_fault:gate_not_reached" }, 1);
    rep.count(if fired > 0 { "forced_merge_fault:fault_fired_in_end_merge" } else { "forced_merge_fault:fault_not_reached" }, 1);
    rep.count(if merge_res.is_ok() { "forced_merge_fault:merge_ok" } else { "forced_merge_fault:merge_err" }, 1);
    let mut errs = ex.check_committed(true);
    ex.step(&Op::Add(g.doc(rng, 3)));
    ex.step(&Op::Commit);
    errs.extend(ex.check_committed(true));
    for (sig, d) in ex.problems.drain(..) {
        if !is_known("C02", &sig) {
            errs.push((format!("live:{sig}"), d));
        }
    }
    for (sig, d) in errs {
        rep.violation(
            format!("forced-merge-fault:{sig}"),
            json!({"case": case, "gate": format!("{}#{}", gate_kind.name(), nth), "fault": fault_kind.name(),
                   "fault_fired": fired, "merge_returned_ok": merge_res.is_ok(), "detail": d}),
        );
    }
    if parked && fired > 0 {
        rep.nontrivial(format!("forced-merge-fault:{}#{}:{}", gate_kind.name(), nth, fault_kind.name()));
    }
}

/// A read of a source segment file fails while a merge runs (in-process): the merge has to fail
/// or to absorb the fault; in both cases the index must show exactly the committed state - a
/// merged segment built from a short read must never be published.
fn merge_read_fault_case(case: u64, rng: &mut Rng, rep: &mut Report) {
    let cfg = ExecCfg { threads: 1, merge_policy: false, sort: None, budget_per_thread: 15_000_000 };
    let mon = MonDir::new(MonCfg { monitors: true, ..Default::default() });
    let mut ex = match Exec::create(Box::new(mon.clone()), cfg, Some(mon.clone())) {
        Ok(e) => e,
        Err(e) => {
            rep.violation("api-error:create", json!(e));
            return;
        }
    };
    rep.eval();
    let mut g = HistGen::new();
    for _ in 0..rng.urange(2, 4) {
        for _ in 0..rng.urange(3, 40) {
            ex.step(&Op::Add(g.doc(rng, 3)));
        }
        ex.step(&Op::Commit);
    }
    if rng.bool() {
        // deletes in the sources select the document-by-document store merge
        ex.step(&Op::DeleteTerm(Pred::Grp(rng.below(3))));
        ex.step(&Op::Commit);
    }
    let ids = ex.index.searchable_segment_ids().unwrap_or_default();
    if ids.len() < 2 {
        return;
    }
    let fkind = *rng.pick(&["store", "store", "store", "idx", "pos", "term", "fast", "fieldnorm", "del"]);
    let kind = if rng.chance(1, 5) { OpKind::OpenRead } else { OpKind::ReadBytes };
    let nth = rng.below(if kind == OpKind::OpenRead { 3 } else { 12 });
    mon.add_fault(OpPred::kind(kind).role("merge").fkind(fkind), nth, FaultMode::Once, std::io::ErrorKind::Other);
    let merge_res = ex.writer.as_mut().unwrap().merge(&ids).wait();
    let fired = mon.faults_fired();
    mon.clear_faults();
    rep.count(if fired > 0 { "merge_read_fault:fired" } else { "merge_read_fault:not_reached" }, 1);
    rep.count(if merge_res.is_ok() { "merge_read_fault:merge_ok" } else { "merge_read_fault:merge_err" }, 1);
    let mut errs = ex.check_committed(true);
    ex.step(&Op::Add(g.doc(rng, 3)));
    ex.step(&Op::Commit);
    errs.extend(ex.check_committed(true));
    for (sig, d) in ex.problems.drain(..) {
        if !is_known("C02", &sig) {
            errs.push((format!("live:{sig}"), d));
        }
    }
    for (sig, d) in errs {
        rep.violation(
            format!("merge-read-fault:{sig}"),
            json!({"case": case, "fault": format!("merge:{}:{fkind}#{nth}", kind.name()), "fault_fired": fired,
                   "merge_returned_ok": merge_res.is_ok(), "detail": d}),
        );
    }
    if fired > 0 {
        rep.nontrivial(format!("merge-read-fault:{}:{fkind}:{}", kind.name(), if merge_res.is_ok() { "absorbed" } else { "merge-failed" }));
    }
}

fn main() {
    // child mode first
    let argv: Vec<String> = std::env::args().collect();
    if argv.iter().any(|a| a == "--child") {
        let mut args = BTreeMap::new();
        let mut i = 1;
        while i + 1 < argv.len() {
            if let Some(k) = argv[i].strip_prefix("--") {
                args.insert(k.to_string(), argv[i + 1].clone());
                i += 2;
            } else {
                i += 1;
            }
        }
        child_main(&args);
    }
    let ctx = Ctx::from_env("C11", "fault_enumeration");
    let histories = ctx.scale(48, 600) as u64;
    let per_history = ctx.scale(14, 40);
    let mut rep = run_cases(&ctx, "faults", histories, |c, rng, rep| parent_case(c, rng, rep, per_history, false));
    // commit-point faults on "quiet" histories (no background merges): here the writer is kept
    // after the failed commit and garbage collection runs on it before recovery
    rep.merge(run_cases(&ctx, "commit-point", ctx.scale(24, 300) as u64, |c, rng, rep| {
        parent_case(c, rng, rep, 6, true)
    }));
    rep.merge(run_cases(&ctx, "forced-merge-fault", ctx.scale(60, 3000) as u64, forced_merge_fault_case));
    rep.merge(run_cases(&ctx, "bulk", ctx.scale(40, 800) as u64, bulk_case));
    rep.merge(run_cases(&ctx, "merge-read-fault", ctx.scale(80, 3000) as u64, merge_read_fault_case));
    simple_finish(
        &ctx,
        rep,
        "case = one fault scenario run in its own child process: a generated history (adds, deletes, commits, merges, GC, rollback, reopen; 1-3 indexing threads) with one injected storage fault selected from the fault-free reference run of the same history (thread role x operation kind x file kind x occurrence; once / permanent from there / storage dead). Checked: a failed commit took effect completely or not at all; every commit that returned Ok is recoverable from the durable image taken at its return; after faults stop storage holds exactly the last successful commit, a new writer can be created, add and commit; no abort, no hang (watchdog + CPU-progress test + gdb stacks). Stream `merge-read-fault`: one read of a source file fails inside a merge; the merge fails or absorbs it, the published content stays the committed state. Stream `bulk`: a worker dies of a fault while its segment is cut mid-transaction and the client keeps adding more documents than the bounded pipeline holds: every call returns, the error surfaces at the latest at commit. Non-trivial = the fault actually fired; distinct = (role, op, file kind, mode, API call that surfaced it).",
        ctx.scale(40, 200),
        &[
            "hang = watchdog (60 s, >100x the fault-free runtime) and no CPU progress over 1.5 s; anything else after the watchdog is inconclusive",
            "error kinds other than io::ErrorKind::Other are not varied",
        ],
    );
}
