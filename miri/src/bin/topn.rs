use tantivy::collector::sort_key::{NaturalComparator, ReverseComparator};
use tantivy::collector::TopNComputer;
use tvmiri::*;
fn main() {
    let mut r = Rng(seed());
    for &n in &[0usize, 1, 2, 3, 10] {
        let m = 1 + r.below(120) as usize;
        let ties = r.below(2) == 0;
        // natural comparator: best = largest key; reverse comparator: best = smallest key;
        // ties always by ascending doc
        let mut tn: TopNComputer<u64, u32, _> = TopNComputer::new_with_comparator(n, NaturalComparator);
        let mut tr: TopNComputer<u64, u32, _> = TopNComputer::new_with_comparator(n, ReverseComparator);
        let mut all = vec![];
        for doc in 0..m as u32 {
            let score = if ties { r.below(3) } else { r.below(1000) };
            tn.push(score, doc);
            tr.push(score, doc);
            all.push((score, doc));
        }
        let mut desc = all.clone();
        desc.sort_by(|a, b| b.0.cmp(&a.0).then(a.1.cmp(&b.1)));
        desc.truncate(n);
        let mut asc = all.clone();
        asc.sort_by(|a, b| a.0.cmp(&b.0).then(a.1.cmp(&b.1)));
        asc.truncate(n);
        let got: Vec<(u64, u32)> = tn.into_sorted_vec().into_iter().map(|c| (c.sort_key, c.doc)).collect();
        if got != desc { mismatch("topn natural"); }
        let got: Vec<(u64, u32)> = tr.into_sorted_vec().into_iter().map(|c| (c.sort_key, c.doc)).collect();
        if got != asc { mismatch("topn reverse"); }
    }
    println!("topn ok");
}
