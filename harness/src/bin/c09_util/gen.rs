//! C09 generators: values of every type, unicode, nested JSON, documents aimed at a byte size.
use std::collections::BTreeSet;

use tvmon::rng::Rng;

use super::{Kind, MDoc, Sch, MV};

pub fn gen_char(rng: &mut Rng) -> char {
    let (lo, hi) = match rng.weighted(&[40, 5, 8, 8, 8, 8, 4, 4, 3, 3]) {
        0 => (0x20u64, 0x7eu64),
        1 => (0x00, 0x1f),
        2 => (0xa0, 0xff),
        3 => (0x370, 0x4ff),
        4 => (0x4e00, 0x4fff),
        5 => (0x1f300, 0x1f64f),
        6 => (0x300, 0x36f),
        7 => (0x5d0, 0x6ff),
        8 => (0xd7f0, 0xd7ff),
        _ => (0x10fff0, 0x10ffff),
    };
    char::from_u32(rng.range(lo, hi) as u32).unwrap_or('x')
}

const VOCAB: &[&str] = &[
    "alpha", "beta", "gamma", "delta", "store", "block", "skip", "layer", "doc", "tantivy", "über",
    "naïve", "日本語", "данные", "🦀", "zero", "lorem", "ipsum", "a", "I",
];

pub fn gen_string(rng: &mut Rng, max_chars: usize) -> String {
    match rng.weighted(&[1, 5, 5]) {
        0 => String::new(),
        1 => {
            let n = rng.urange(1, 6.min(max_chars.max(1)));
            let mut s = String::new();
            for i in 0..n {
                if i > 0 {
                    s.push(' ');
                }
                s.push_str(*rng.pick(VOCAB));
            }
            s
        }
        _ => {
            let n = rng.urange(1, max_chars.max(1));
            (0..n).map(|_| gen_char(rng)).collect()
        }
    }
}

/// text of exactly `bytes` bytes
pub fn gen_pad_text(rng: &mut Rng, bytes: usize) -> String {
    let mut s = String::with_capacity(bytes);
    match rng.below(3) {
        0 => {
            // compressible: a short phrase repeated
            let phrase = format!("{} {} ", rng.pick(VOCAB), rng.pick(VOCAB));
            while s.len() + phrase.len() <= bytes {
                s.push_str(&phrase);
            }
        }
        1 => {
            // poorly compressible ascii
            while s.len() < bytes {
                let c = b"abcdefghijklmnopqrstuvwxyz0123456789 "[rng.usize_below(37)] as char;
                s.push(c);
            }
        }
        _ => {
            loop {
                let c = gen_char(rng);
                if s.len() + c.len_utf8() > bytes {
                    break;
                }
                s.push(c);
            }
        }
    }
    while s.len() < bytes {
        s.push('a');
    }
    s
}

pub fn gen_u64(rng: &mut Rng) -> u64 {
    if rng.chance(1, 2) {
        *rng.pick(&[
            0,
            1,
            127,
            128,
            255,
            256,
            16383,
            16384,
            u32::MAX as u64,
            u32::MAX as u64 + 1,
            i64::MAX as u64,
            i64::MAX as u64 + 1,
            u64::MAX - 1,
            u64::MAX,
        ])
    } else {
        rng.next_u64() >> rng.below(64)
    }
}

pub fn gen_i64(rng: &mut Rng) -> i64 {
    if rng.chance(1, 2) {
        *rng.pick(&[0, 1, -1, 127, -128, i32::MIN as i64, i32::MAX as i64, i64::MIN, i64::MIN + 1, i64::MAX])
    } else {
        (rng.next_u64() as i64) >> rng.below(64)
    }
}

/// bit pattern; `any` allows NaN payloads and infinities
pub fn gen_f64_bits(rng: &mut Rng, any: bool) -> u64 {
    if rng.chance(1, 2) {
        let v = *rng.pick(&[
            0.0f64,
            -0.0,
            1.0,
            -1.5,
            0.1,
            f64::MIN,
            f64::MAX,
            f64::EPSILON,
            f64::MIN_POSITIVE,
            5e-324,
            1e15,
            -123456.789,
        ]);
        return v.to_bits();
    }
    if any && rng.chance(1, 4) {
        return *rng.pick(&[
            f64::NAN.to_bits(),
            f64::INFINITY.to_bits(),
            f64::NEG_INFINITY.to_bits(),
            0x7ff8_0000_0000_0001,
            0xfff0_0000_0000_0001,
            0x7ff0_dead_beef_0001,
        ]);
    }
    loop {
        let b = rng.next_u64();
        if f64::from_bits(b).is_finite() {
            return b;
        }
    }
}

pub fn gen_date(rng: &mut Rng, any: bool) -> i64 {
    if rng.chance(1, 2) {
        let mut v = vec![
            0i64,
            1,
            -1,
            999,
            1_000,
            999_999,
            1_000_000,
            999_999_999,
            1_000_000_000,
            -999_999_999,
            -1_000_000_001,
            1_700_000_000_123_456_789,
        ];
        if any {
            v.extend([i64::MIN, i64::MAX, i64::MIN + 1]);
        }
        *rng.pick(&v)
    } else if any {
        rng.next_u64() as i64
    } else {
        rng.irange(-(1i64 << 61), 1i64 << 61)
    }
}

pub fn gen_ip(rng: &mut Rng) -> u128 {
    match rng.below(5) {
        0 => 0,
        1 => u128::MAX,
        2 => 0xffff_0000_0000u128 | rng.next_u32() as u128, // v4-mapped
        3 => 1,
        _ => ((rng.next_u64() as u128) << 64) | rng.next_u64() as u128,
    }
}

const SAFE_KEYS: &[&str] = &["a", "b", "c", "k1", "k2", "name", "val", "x_y", "ключ", "键"];

fn gen_key(rng: &mut Rng, safe: bool) -> String {
    if safe {
        rng.pick(SAFE_KEYS).to_string()
    } else {
        match rng.below(6) {
            0 => String::new(),
            1 => "a.b".to_string(),
            2 => "with space".to_string(),
            3 => rng.pick(SAFE_KEYS).to_string(),
            _ => gen_string(rng, 8),
        }
    }
}

/// JSON-like value. `safe`: restricted to what an indexed + fast JSON field is meant to take.
pub fn gen_json(rng: &mut Rng, depth: usize, safe: bool, budget: &mut i64, object: bool) -> MV {
    *budget -= 1;
    let leaf = depth == 0 || *budget <= 0;
    let choice = if object {
        8
    } else if leaf {
        rng.below(7)
    } else {
        rng.below(10)
    };
    match choice {
        0 => MV::Null,
        1 => MV::Bool(rng.bool()),
        2 => MV::U64(gen_u64(rng)),
        3 => MV::I64(gen_i64(rng)),
        4 => MV::F64(gen_f64_bits(rng, !safe)),
        5 => MV::Str(gen_string(rng, 12)),
        6 => {
            if safe {
                MV::Str(gen_string(rng, 5))
            } else {
                MV::Date(gen_date(rng, true))
            }
        }
        7 => {
            let n = if leaf { 0 } else { rng.urange(0, 5) };
            MV::Arr((0..n).map(|_| gen_json(rng, depth - 1, safe, budget, false)).collect())
        }
        _ => {
            let n = if leaf { 0 } else { rng.urange(0, 5) };
            let mut keys = BTreeSet::new();
            let mut ents = vec![];
            for _ in 0..n {
                let k = gen_key(rng, safe);
                if keys.insert(k.clone()) {
                    let v = gen_json(rng, depth - 1, safe, budget, false);
                    ents.push((k, v));
                }
            }
            MV::Obj(ents)
        }
    }
}

/// a chain `{"k": [ {"k": [ ... ]}]}` of the given depth
pub fn gen_deep_json(rng: &mut Rng, depth: usize) -> MV {
    let mut v = MV::Str(gen_string(rng, 6));
    for i in 0..depth {
        v = if i % 2 == 0 {
            MV::Arr(vec![MV::U64(i as u64), v, MV::Null])
        } else {
            MV::Obj(vec![("d".to_string(), MV::I64(-(i as i64))), ("k".to_string(), v)])
        };
    }
    match v {
        MV::Obj(_) => v,
        other => MV::Obj(vec![("root".to_string(), other)]),
    }
}

pub fn gen_value(rng: &mut Rng, kind: Kind, safe: bool) -> MV {
    match kind {
        Kind::Text => {
            if rng.chance(1, 8) {
                MV::PreTok(gen_string(rng, 30))
            } else {
                MV::Str(gen_string(rng, 40))
            }
        }
        Kind::U64 => MV::U64(gen_u64(rng)),
        Kind::I64 => MV::I64(gen_i64(rng)),
        Kind::F64 => MV::F64(gen_f64_bits(rng, !safe)),
        Kind::Bool => MV::Bool(rng.bool()),
        Kind::Date => MV::Date(gen_date(rng, !safe)),
        Kind::Bytes => {
            let n = *rng.pick(&[0usize, 1, 2, 7, 16, 40]);
            MV::Bytes(rng.bytes(n))
        }
        Kind::Ip => MV::Ip(gen_ip(rng)),
        Kind::Facet => {
            let n = rng.urange(1, 4);
            MV::Facet(
                (0..n)
                    .map(|_| {
                        let mut s: String = gen_string(rng, 6).chars().filter(|c| *c != '\0').collect();
                        if s.is_empty() {
                            s.push('f');
                        }
                        s
                    })
                    .collect(),
            )
        }
        Kind::Json => {
            let mut budget = if safe { 14 } else { 40 };
            let depth = if safe { rng.urange(1, 3) } else { rng.urange(1, 7) };
            gen_json(rng, depth, safe, &mut budget, true)
        }
    }
}

#[derive(Clone, Copy, Debug)]
pub enum Profile {
    /// no field at all
    Empty,
    /// only non-stored fields
    OnlyNonStored,
    /// 1-3 values
    Tiny,
    /// up to a dozen values of all kinds
    Mixed,
    /// several values in the same field(s), interleaved with others
    Multi,
    /// deep JSON chain in the stored-only JSON field
    DeepJson(usize),
    /// padded to about this many serialised bytes
    Size(usize),
}

impl Profile {
    pub fn name(&self) -> &'static str {
        match self {
            Profile::Empty => "empty",
            Profile::OnlyNonStored => "only-nonstored",
            Profile::Tiny => "tiny",
            Profile::Mixed => "mixed",
            Profile::Multi => "multi",
            Profile::DeepJson(_) => "deep-json",
            Profile::Size(_) => "sized",
        }
    }
}

fn push_random(rng: &mut Rng, sch: &Sch, vals: &mut Vec<(usize, MV)>, stored_only: Option<bool>) {
    let slot = loop {
        let s = rng.usize_below(sch.fields.len());
        match stored_only {
            Some(st) if sch.fields[s].stored != st => continue,
            _ => break s,
        }
    };
    let fs = &sch.fields[slot];
    vals.push((slot, gen_value(rng, fs.kind, fs.safe)));
}

pub fn gen_doc(rng: &mut Rng, sch: &Sch, id: u64, profile: Profile) -> MDoc {
    let mut vals: Vec<(usize, MV)> = vec![];
    match profile {
        Profile::Empty => {}
        Profile::OnlyNonStored => {
            for _ in 0..rng.urange(1, 4) {
                push_random(rng, sch, &mut vals, Some(false));
            }
        }
        Profile::Tiny => {
            for _ in 0..rng.urange(1, 3) {
                push_random(rng, sch, &mut vals, None);
            }
        }
        Profile::Mixed => {
            for _ in 0..rng.urange(1, 14) {
                if !vals.is_empty() && rng.chance(1, 4) {
                    // another value for a field already present
                    let slot = vals[rng.usize_below(vals.len())].0;
                    let fs = &sch.fields[slot];
                    vals.push((slot, gen_value(rng, fs.kind, fs.safe)));
                } else {
                    push_random(rng, sch, &mut vals, None);
                }
            }
        }
        Profile::Multi => {
            let nf = rng.urange(1, 3);
            let slots: Vec<usize> = (0..nf)
                .map(|_| loop {
                    let s = rng.usize_below(sch.fields.len());
                    if sch.fields[s].stored {
                        break s;
                    }
                })
                .collect();
            let total = rng.urange(2, 30);
            for _ in 0..total {
                if rng.chance(1, 5) {
                    push_random(rng, sch, &mut vals, None);
                } else {
                    let slot = *rng.pick(&slots);
                    let fs = &sch.fields[slot];
                    vals.push((slot, gen_value(rng, fs.kind, fs.safe)));
                }
            }
        }
        Profile::DeepJson(depth) => {
            if rng.bool() {
                push_random(rng, sch, &mut vals, None);
            }
            vals.push((sch.slot("j_so"), gen_deep_json(rng, depth)));
            if rng.bool() {
                push_random(rng, sch, &mut vals, None);
            }
        }
        Profile::Size(target) => {
            for _ in 0..rng.urange(0, 3) {
                push_random(rng, sch, &mut vals, None);
            }
            let tmp = MDoc { id, sk: 0, vals: vals.clone(), profile: "sized" };
            let est = tmp.est_len(sch);
            // header of the padding value: 4 (field) + 1 (type) + vint(len)
            if est + 8 < target {
                let mut pay = target - est - 5;
                pay -= if pay >= 16384 + 3 { 3 } else if pay >= 128 + 2 { 2 } else { 1 };
                let use_bytes = rng.chance(1, 3) && !sch.pad_bytes.is_empty();
                let v = if use_bytes {
                    (*rng.pick(&sch.pad_bytes), MV::Bytes(rng.bytes(pay)))
                } else {
                    (*rng.pick(&sch.pad_text), MV::Str(gen_pad_text(rng, pay)))
                };
                let at = rng.usize_below(vals.len() + 1);
                vals.insert(at, v);
            }
        }
    }
    MDoc { id, sk: rng.below(6), vals, profile: profile.name() }
}
