//! C16 helpers: schema, model documents, abstract query AST with a naive evaluator, the noisy
//! printer, and the hostile-string generators of the totality stream.
//!
//! Nothing in the evaluator uses tantivy: documents are plain Rust values, text is a list of
//! lower-case tokens, dates are seconds, IPs are u128.
#![allow(dead_code)]

use std::collections::{BTreeMap, BTreeSet};
use std::net::{Ipv4Addr, Ipv6Addr};

use tantivy::schema::{
    BytesOptions, DateOptions, FacetOptions, Field, IndexRecordOption, IpAddrOptions, JsonObjectOptions,
    NumericOptions, OwnedValue, Schema, TextFieldIndexing, TextOptions, FAST, INDEXED, STORED, STRING, TEXT,
};
use tantivy::tokenizer::{LowerCaser, RemoveLongFilter, SimpleTokenizer, StopWordFilter, TextAnalyzer};
use tantivy::{Index, TantivyDocument};
use tvmon::rng::Rng;

// ---------------------------------------------------------------------------------------------
// schema

pub const WEIRD_FIELD: &str = "k:v x";

// Analyzers that REMOVE tokens. A removed token still counts as a position, at indexing time and
// in a query literal alike: `sw:"quick the fox"` is `quick`, one position left out, then `fox`.
/// tokenizer of `sw` and `jt`: split on non-alphanumerics, lower-case, drop `STOP_WORDS`
pub const STOP_TOKENIZER: &str = "c16_stop";
/// tokenizer of `lg`: split on non-alphanumerics, drop tokens of `SHORT_LIMIT` bytes or more, lower-case
pub const SHORT_TOKENIZER: &str = "c16_short";
pub const STOP_WORDS: &[&str] = &["the", "and", "of", "to", "in", "not"];
pub const SHORT_LIMIT: usize = 6;
/// the `default` tokenizer (title, body, js) drops tokens of 40 bytes or more
pub const DEFAULT_LIMIT: usize = 40;
/// removed by the `default` tokenizer: 40 letters, 45 letters, 20 letters of two bytes each
const LONG_WORDS: &[&str] = &[
    "abcdefghijklmnopqrstuvwxyzabcdefghijklmn",
    "pneumonoultramicroscopicsilicovolcanoconiosis",
    "üüüüüüüüüüüüüüüüüüüü",
];
/// removed by the `lg` tokenizer (6 bytes or more; the last one has two characters)
const LONGISH_WORDS: &[&str] = &["banana", "cherry", "juliet", "orange", "kilogram", "東京"];

/// the system under test is configured with the two extra analyzers (the oracle models them by
/// `keeps` below, without any tantivy code)
pub fn register_tokenizers(index: &Index) {
    index.tokenizers().register(
        STOP_TOKENIZER,
        TextAnalyzer::builder(SimpleTokenizer::default())
            .filter(LowerCaser)
            .filter(StopWordFilter::remove(STOP_WORDS.iter().map(|w| w.to_string())))
            .build(),
    );
    index.tokenizers().register(
        SHORT_TOKENIZER,
        TextAnalyzer::builder(SimpleTokenizer::default())
            .filter(RemoveLongFilter::limit(SHORT_LIMIT))
            .filter(LowerCaser)
            .build(),
    );
}

pub struct Fields {
    pub schema: Schema,
    pub title: Field,
    pub body: Field,
    pub tag: Field,
    pub weird: Field,
    pub u: Field,
    pub i: Field,
    pub f: Field,
    pub d: Field,
    pub ip: Field,
    pub by: Field,
    pub b: Field,
    pub fa: Field,
    pub js: Field,
    pub sw: Field,
    pub lg: Field,
    pub jt: Field,
    pub id: Field,
}

/// every field type; `fast` adds FAST to the typed fields (range queries then use the columns)
pub fn build_schema(fast: bool) -> Fields {
    let mut sb = Schema::builder();
    let title = sb.add_text_field("title", TEXT);
    let body = sb.add_text_field("body", TEXT | STORED);
    let tag = if fast { sb.add_text_field("tag", STRING | FAST) } else { sb.add_text_field("tag", STRING) };
    let weird = sb.add_text_field(WEIRD_FIELD, STRING);
    let num: NumericOptions = if fast { (INDEXED | FAST).into() } else { INDEXED.into() };
    let u = sb.add_u64_field("u", num.clone());
    let i = sb.add_i64_field("i", num.clone());
    let f = sb.add_f64_field("f", num.clone());
    let dopt: DateOptions = if fast { (INDEXED | FAST).into() } else { INDEXED.into() };
    let d = sb.add_date_field("d", dopt);
    let ipopt: IpAddrOptions = if fast { (INDEXED | FAST).into() } else { INDEXED.into() };
    let ip = sb.add_ip_addr_field("ip", ipopt);
    let byopt: BytesOptions = if fast { (INDEXED | FAST).into() } else { INDEXED.into() };
    let by = sb.add_bytes_field("by", byopt);
    let b = sb.add_bool_field("b", num);
    let fa = sb.add_facet_field("fa", FacetOptions::default());
    let js = sb.add_json_field("js", TEXT);
    // text whose analyzer removes tokens (stop words / long tokens), indexed with positions
    let with_positions = |tokenizer: &str| {
        TextFieldIndexing::default().set_tokenizer(tokenizer).set_index_option(IndexRecordOption::WithFreqsAndPositions)
    };
    let sw = sb.add_text_field("sw", TextOptions::default().set_indexing_options(with_positions(STOP_TOKENIZER)));
    let lg = sb.add_text_field("lg", TextOptions::default().set_indexing_options(with_positions(SHORT_TOKENIZER)));
    let jt = sb.add_json_field("jt", JsonObjectOptions::default().set_indexing_options(with_positions(STOP_TOKENIZER)));
    let id = sb.add_u64_field("id", FAST | INDEXED);
    // fields that exist but cannot be searched the usual way (error paths of the parser)
    sb.add_text_field("st", STORED);
    sb.add_u64_field("u_ff", FAST);
    sb.add_json_field("js_st", STORED);
    let schema = sb.build();
    Fields { schema, title, body, tag, weird, u, i, f, d, ip, by, b, fa, js, sw, lg, jt, id }
}

// ---------------------------------------------------------------------------------------------
// vocabulary

const WORDS: &[&str] = &[
    "apple", "banana", "cherry", "delta", "echo", "fox", "golf", "hotel", "india", "juliet", "kilo",
    "lima", "to", "in", "and", "or", "not", "x1", "b2b", "über", "東京", "wo", "wolf", "work", "world",
    "big", "bad",
    // 39 bytes: the longest token the `default` tokenizer keeps
    "abcdefghijklmnopqrstuvwxyzabcdefghijklm",
];

const TAGS: &[&str] = &[
    "red", "Red", "blue-green", "a:b", "x y", "it's", "say \"hi\"", "back\\slash", "(p)", "[b]", "{c}",
    "c^2", "t~1", "s*", "AND", "OR", "NOT", "IN", "TO", "+plus", "-minus", "/slash", "<lt", ">gt", "*",
    "q`t", "5", "-5", "-5x", "ünï", "a\tb", "!bang", "a=b", "x\u{a0}y", "\\", "-",
];

const US: &[u64] = &[0, 1, 2, 5, 9, 10, 42, 100, 1000, u64::MAX, 1 << 63, (1 << 63) - 1, 4294967296];
const IS: &[i64] = &[0, 1, -1, 5, -5, 42, -42, 1000, i64::MIN, i64::MAX, -1000];
const FS: &[f64] = &[0.0, 1.5, -2.25, 1000.0, 3.14159, -0.001, 1e300, 0.001, -1000.0, 42.0, 2.5];
/// seconds since the epoch
const DS: &[i64] = &[0, 86_400, 1_033_570_800, 1_033_581_600, 1_700_000_000, -86_400, 7_258_118_400, 951_782_400, -2_208_988_800];
const BYS: &[&[u8]] = &[b"hello", b"\x00", b"\xff\xfe", b"a", b"ab", b"abc", b"\xfb\xff", b"\xff\xff\xff", b"tantivy!"];
const FACETS: &[&[&str]] = &[&["a"], &["a", "b"], &["a", "b", "c"], &["x"], &["x", "y z"], &["a", "bb"], &["top", "mid", "leaf"]];

fn ips() -> Vec<u128> {
    let v4 = |a: u8, b: u8, c: u8, d: u8| u128::from(Ipv4Addr::new(a, b, c, d).to_ipv6_mapped());
    vec![
        v4(127, 0, 0, 1),
        v4(10, 0, 0, 1),
        v4(10, 0, 0, 255),
        v4(192, 168, 1, 1),
        v4(255, 255, 255, 255),
        v4(0, 0, 0, 0),
        1,
        0,
        u128::from("2001:db8::1".parse::<Ipv6Addr>().unwrap_or(Ipv6Addr::LOCALHOST)),
        u128::from("fe80::1".parse::<Ipv6Addr>().unwrap_or(Ipv6Addr::LOCALHOST)),
        u128::MAX,
    ]
}

fn subset<T: Clone>(rng: &mut Rng, all: &[T], lo: usize, hi: usize) -> Vec<T> {
    let mut v: Vec<T> = all.to_vec();
    rng.shuffle(&mut v);
    let n = rng.urange(lo.min(v.len()), hi.min(v.len()));
    v.truncate(n.max(1));
    v
}

pub struct World {
    /// three words; every corpus holds one document per subset of them (title only)
    focus: Vec<String>,
    words: Vec<String>,
    tags: Vec<String>,
    us: Vec<u64>,
    is: Vec<i64>,
    fs: Vec<f64>,
    ds: Vec<i64>,
    ips: Vec<u128>,
    bys: Vec<Vec<u8>>,
    facets: Vec<Vec<String>>,
    /// per analyzer class (`sentence_class`): a few token sequences that documents embed and that
    /// phrase literals are cut from, so that phrases over a removed token do occur in the corpus
    sentences: Vec<Vec<Vec<String>>>,
}

// ---------------------------------------------------------------------------------------------
// model documents

#[derive(Clone, Debug, Default)]
pub struct MDoc {
    pub id: u64,
    pub title: Option<Vec<String>>,
    pub body: Option<Vec<String>>,
    pub tag: Vec<String>,
    pub weird: Vec<String>,
    pub u: Vec<u64>,
    pub i: Option<i64>,
    pub f: Option<f64>,
    pub d: Option<i64>,
    pub ip: Option<u128>,
    pub by: Option<Vec<u8>>,
    pub b: Option<bool>,
    pub fa: Vec<Vec<String>>,
    pub js_s: Option<Vec<String>>,
    pub js_n: Option<i64>,
    pub js_b: Option<bool>,
    pub js_kw: Option<Vec<String>>,
    /// raw tokens (before the analyzer removes some of them) of `sw`, `lg`, `jt.s`
    pub sw: Option<Vec<String>>,
    pub lg: Option<Vec<String>>,
    pub jt_s: Option<Vec<String>>,
}

fn ascii_words_only(ws: &[String]) -> Vec<String> {
    ws.iter().filter(|w| w.chars().all(|c| c.is_ascii_alphabetic())).cloned().collect()
}

impl World {
    pub fn new(rng: &mut Rng) -> World {
        let words: Vec<String> = subset(rng, WORDS, 5, 12).into_iter().map(String::from).collect();
        let mut world = World {
            sentences: vec![],
            focus: words.iter().take(3).cloned().collect(),
            words,
            tags: subset(rng, TAGS, 3, 8).into_iter().map(String::from).collect(),
            us: subset(rng, US, 3, 7),
            is: subset(rng, IS, 3, 7),
            fs: subset(rng, FS, 3, 7),
            ds: subset(rng, DS, 3, 6),
            ips: subset(rng, &ips(), 3, 6),
            bys: subset(rng, BYS, 3, 6).into_iter().map(|b| b.to_vec()).collect(),
            facets: subset(rng, FACETS, 3, 6)
                .into_iter()
                .map(|p| p.iter().map(|s| s.to_string()).collect())
                .collect(),
        };
        for class in SENTENCE_CLASSES {
            // the first sentence of every pool has a removed token right before a kept one that
            // follows two or more kept ones (the shape prefix phrases over a gap are cut from)
            let mut pool: Vec<Vec<String>> = vec![world.gen_gap_sentence(*class, rng)];
            pool.extend((0..3).map(|_| world.gen_sentence(*class, rng)));
            world.sentences.push(pool);
        }
        world
    }

    /// a token as it may stand in a document or inside a phrase literal of `field`: the field's
    /// vocabulary, including tokens its analyzer removes
    fn raw_word(&self, field: FieldSel, rng: &mut Rng) -> String {
        match field {
            FieldSel::Sw if rng.chance(1, 3) => rng.pick(STOP_WORDS).to_string(),
            FieldSel::Sw if rng.chance(1, 12) => rng.pick(LONG_WORDS).to_string(),
            FieldSel::JtS if rng.chance(1, 3) => rng.pick(STOP_WORDS).to_string(),
            FieldSel::Lg if rng.chance(1, 6) => rng.pick(LONGISH_WORDS).to_string(),
            FieldSel::JsS | FieldSel::JsKW if rng.chance(1, 10) => LONG_WORDS[rng.usize_below(2)].to_string(),
            FieldSel::JsS | FieldSel::JsKW | FieldSel::JtS => self.json_words(rng, 1, 1).remove(0),
            FieldSel::Default | FieldSel::Title | FieldSel::Body if rng.chance(1, 10) => rng.pick(LONG_WORDS).to_string(),
            _ => self.word(rng),
        }
    }

    fn removed_word(&self, field: FieldSel, rng: &mut Rng) -> String {
        match field {
            FieldSel::Sw | FieldSel::JtS => rng.pick(STOP_WORDS).to_string(),
            FieldSel::Lg => rng.pick(LONGISH_WORDS).to_string(),
            FieldSel::JsS | FieldSel::JsKW => LONG_WORDS[rng.usize_below(2)].to_string(),
            _ => rng.pick(LONG_WORDS).to_string(),
        }
    }

    /// a token of `field` that its analyzer keeps (what a single-term literal is made of)
    fn kept_word(&self, field: FieldSel, rng: &mut Rng) -> String {
        for _ in 0..40 {
            let w = self.raw_word(field, rng);
            if keeps(field, &w) {
                return w;
            }
        }
        "fox".to_string()
    }

    /// 3-7 raw tokens, most of the time with one or two removed tokens between kept ones
    fn gen_sentence(&self, field: FieldSel, rng: &mut Rng) -> Vec<String> {
        let n = rng.urange(3, 7);
        let mut s: Vec<String> = (0..n).map(|_| self.raw_word(field, rng)).collect();
        if rng.chance(3, 4) {
            for _ in 0..rng.urange(1, 2) {
                let k = rng.urange(1, n - 2);
                s[k] = self.removed_word(field, rng);
            }
        }
        s
    }

    /// 2-3 kept tokens, one removed token (now and then two), a kept token of two or more
    /// characters, 0-2 more tokens
    fn gen_gap_sentence(&self, field: FieldSel, rng: &mut Rng) -> Vec<String> {
        let mut s: Vec<String> = (0..rng.urange(2, 3)).map(|_| self.kept_word(field, rng)).collect();
        s.push(self.removed_word(field, rng));
        if rng.chance(1, 4) {
            s.push(self.removed_word(field, rng));
        }
        let mut last = self.kept_word(field, rng);
        for _ in 0..20 {
            if last.chars().count() >= 2 {
                break;
            }
            last = self.kept_word(field, rng);
        }
        s.push(last);
        s.extend((0..rng.urange(0, 2)).map(|_| self.raw_word(field, rng)));
        s
    }

    /// A prefix phrase cut from a pooled sentence so that the analyzer removes the token right
    /// before the prefix and keeps two or more tokens before that: `"aa bb the cc"*` on a
    /// stop-word field is aa, bb, one position left out, then a token starting with cc.
    fn gen_prefix_over_gap(&self, field: FieldSel, rng: &mut Rng) -> Option<Leaf> {
        let pool = &self.sentences[sentence_class(field)];
        let mut spots: Vec<(usize, usize)> = vec![];
        for (si, s) in pool.iter().enumerate() {
            for i in 1..s.len() {
                let kept_before = s[..i].iter().filter(|w| keeps(field, w)).count();
                if keeps(field, &s[i]) && !keeps(field, &s[i - 1]) && kept_before >= 2 {
                    spots.push((si, i));
                }
            }
        }
        if spots.is_empty() {
            return None;
        }
        let (si, i) = *rng.pick(&spots);
        let s = &pool[si];
        // the literal starts at a kept token with two or more kept tokens up to the gap
        let starts: Vec<usize> = (0..i)
            .filter(|k| keeps(field, &s[*k]) && s[*k..i].iter().filter(|w| keeps(field, w)).count() >= 2)
            .collect();
        let start = *rng.pick(&starts);
        let mut words: Vec<String> = s[start..=i].to_vec();
        let cs: Vec<char> = s[i].chars().collect();
        // the prefix is itself a token the analyzer keeps (`to` of `tokyo` is a stop word)
        let lens: Vec<usize> = (1..=cs.len()).filter(|n| keeps(field, &cs[..*n].iter().collect::<String>())).collect();
        let n = *rng.pick(&lens);
        let last = words.len() - 1;
        words[last] = cs[..n].iter().collect();
        Some(Leaf::Phrase { field, words, slop: 0, prefix: true })
    }

    fn sentence(&self, field: FieldSel, rng: &mut Rng) -> &Vec<String> {
        rng.pick(&self.sentences[sentence_class(field)])
    }

    /// the raw tokens of a text value of a document
    fn doc_text(&self, field: FieldSel, rng: &mut Rng, lo: usize, hi: usize, sentence_in: u64) -> Vec<String> {
        if rng.chance(sentence_in, 4) {
            let mut t: Vec<String> = (0..rng.urange(0, 2)).map(|_| self.raw_word(field, rng)).collect();
            t.extend(self.sentence(field, rng).iter().cloned());
            t.extend((0..rng.urange(0, 2)).map(|_| self.raw_word(field, rng)));
            t
        } else {
            (0..rng.urange(lo, hi)).map(|_| self.raw_word(field, rng)).collect()
        }
    }

    /// the words of a phrase literal (or multi-token term) of `field`, `lo..=hi` of them, at least
    /// one of which the analyzer keeps: a window of a sentence (one word changed now and then) or
    /// random tokens
    fn phrase_words(&self, field: FieldSel, rng: &mut Rng, lo: usize, hi: usize) -> Vec<String> {
        let n = rng.urange(lo, hi);
        let mut words: Vec<String> = if rng.chance(3, 5) {
            let s = self.sentence(field, rng);
            let n = n.min(s.len());
            let start = rng.urange(0, s.len() - n);
            let mut w = s[start..start + n].to_vec();
            if rng.chance(1, 4) {
                let k = rng.usize_below(w.len());
                w[k] = self.raw_word(field, rng);
            }
            w
        } else {
            (0..n).map(|_| self.raw_word(field, rng)).collect()
        };
        if !words.iter().any(|w| keeps(field, w)) {
            let k = rng.usize_below(words.len());
            words[k] = self.kept_word(field, rng);
        }
        words
    }

    fn word(&self, rng: &mut Rng) -> String {
        rng.pick(&self.words).clone()
    }

    fn words(&self, rng: &mut Rng, lo: usize, hi: usize) -> Vec<String> {
        (0..rng.urange(lo, hi)).map(|_| self.word(rng)).collect()
    }

    /// words usable inside a JSON string value: must not read as number / bool / date
    fn json_words(&self, rng: &mut Rng, lo: usize, hi: usize) -> Vec<String> {
        let pool = ascii_words_only(&self.words);
        if pool.is_empty() {
            return vec!["apple".to_string()];
        }
        (0..rng.urange(lo, hi)).map(|_| rng.pick(&pool).clone()).collect()
    }

    /// one document per subset of the focus words: whatever boolean combination of them a query
    /// makes, the documents that tell two readings apart exist
    pub fn subset_docs(&self, first_id: u64) -> Vec<MDoc> {
        let n = self.focus.len();
        (0..(1u64 << n))
            .map(|mask| {
                let t: Vec<String> = (0..n).filter(|k| mask >> k & 1 == 1).map(|k| self.focus[k].clone()).collect();
                MDoc { id: first_id + mask, title: if t.is_empty() { None } else { Some(t) }, ..Default::default() }
            })
            .collect()
    }

    pub fn gen_doc(&self, id: u64, rng: &mut Rng) -> MDoc {
        let opt = |rng: &mut Rng| rng.chance(3, 4);
        MDoc {
            id,
            title: if opt(rng) { Some(self.doc_text(FieldSel::Title, rng, 1, 5, 1)) } else { None },
            body: if opt(rng) { Some(self.doc_text(FieldSel::Body, rng, 1, 8, 1)) } else { None },
            tag: (0..rng.urange(0, 2)).map(|_| rng.pick(&self.tags).clone()).collect(),
            weird: (0..rng.urange(0, 1)).map(|_| rng.pick(&self.tags).clone()).collect(),
            u: (0..rng.urange(0, 2)).map(|_| *rng.pick(&self.us)).collect(),
            i: if opt(rng) { Some(*rng.pick(&self.is)) } else { None },
            f: if opt(rng) { Some(*rng.pick(&self.fs)) } else { None },
            d: if opt(rng) { Some(*rng.pick(&self.ds)) } else { None },
            ip: if opt(rng) { Some(*rng.pick(&self.ips)) } else { None },
            by: if opt(rng) { Some(rng.pick(&self.bys).clone()) } else { None },
            b: if opt(rng) { Some(rng.bool()) } else { None },
            fa: (0..rng.urange(0, 2)).map(|_| rng.pick(&self.facets).clone()).collect(),
            js_s: if opt(rng) { Some(self.doc_text(FieldSel::JsS, rng, 1, 4, 1)) } else { None },
            js_n: if opt(rng) { Some(*rng.pick(&[0i64, 1, 5, -3, 42, 1000])) } else { None },
            js_b: if rng.bool() { Some(rng.bool()) } else { None },
            js_kw: if rng.bool() { Some(self.json_words(rng, 1, 3)) } else { None },
            sw: if opt(rng) { Some(self.doc_text(FieldSel::Sw, rng, 1, 8, 2)) } else { None },
            lg: if opt(rng) { Some(self.doc_text(FieldSel::Lg, rng, 1, 8, 2)) } else { None },
            jt_s: if rng.bool() { Some(self.doc_text(FieldSel::JtS, rng, 1, 6, 2)) } else { None },
        }
    }
}

/// text as it is handed to the indexer: tokens separated by non-alphanumerics, random capitals
fn surface_text(tokens: &[String], seed: u64) -> String {
    let mut r = Rng::new(seed);
    let mut s = String::new();
    for (k, t) in tokens.iter().enumerate() {
        if k > 0 {
            s.push_str(*r.pick(&[" ", " ", " ", ", ", " - ", ". ", "  "]));
        }
        if r.chance(1, 5) {
            s.push_str(&ascii_upper_first(t));
        } else {
            s.push_str(t);
        }
    }
    s
}

fn ascii_upper_first(t: &str) -> String {
    let mut cs: Vec<char> = t.chars().collect();
    if let Some(c) = cs.first_mut() {
        *c = c.to_ascii_uppercase();
    }
    cs.into_iter().collect()
}

impl MDoc {
    pub fn to_tantivy(&self, f: &Fields) -> TantivyDocument {
        let mut d = TantivyDocument::default();
        d.add_u64(f.id, self.id);
        if let Some(t) = &self.title {
            d.add_text(f.title, surface_text(t, self.id * 2 + 1));
        }
        if let Some(t) = &self.body {
            d.add_text(f.body, surface_text(t, self.id * 2 + 2));
        }
        for t in &self.tag {
            d.add_text(f.tag, t);
        }
        for t in &self.weird {
            d.add_text(f.weird, t);
        }
        for v in &self.u {
            d.add_u64(f.u, *v);
        }
        if let Some(v) = self.i {
            d.add_i64(f.i, v);
        }
        if let Some(v) = self.f {
            d.add_f64(f.f, v);
        }
        if let Some(v) = self.d {
            d.add_date(f.d, tantivy::DateTime::from_timestamp_secs(v));
        }
        if let Some(v) = self.ip {
            d.add_ip_addr(f.ip, Ipv6Addr::from(v));
        }
        if let Some(v) = &self.by {
            d.add_bytes(f.by, v);
        }
        if let Some(v) = self.b {
            d.add_bool(f.b, v);
        }
        for p in &self.fa {
            d.add_facet(f.fa, tantivy::schema::Facet::from_path(p.iter()));
        }
        let mut obj: BTreeMap<String, OwnedValue> = BTreeMap::new();
        if let Some(s) = &self.js_s {
            obj.insert("s".into(), OwnedValue::Str(surface_text(s, self.id * 2 + 3)));
        }
        if let Some(n) = self.js_n {
            obj.insert("n".into(), OwnedValue::I64(n));
        }
        if let Some(b) = self.js_b {
            obj.insert("b".into(), OwnedValue::Bool(b));
        }
        if let Some(w) = &self.js_kw {
            obj.insert(
                "k".into(),
                OwnedValue::Object(vec![("w".to_string(), OwnedValue::Str(w.join(" ")))]),
            );
        }
        if !obj.is_empty() {
            d.add_object(f.js, obj);
        }
        if let Some(t) = &self.sw {
            d.add_text(f.sw, surface_text(t, self.id * 2 + 5));
        }
        if let Some(t) = &self.lg {
            d.add_text(f.lg, surface_text(t, self.id * 2 + 6));
        }
        if let Some(t) = &self.jt_s {
            let obj: BTreeMap<String, OwnedValue> =
                [("s".to_string(), OwnedValue::Str(surface_text(t, self.id * 2 + 7)))].into_iter().collect();
            d.add_object(f.jt, obj);
        }
        d
    }

    pub fn brief(&self) -> String {
        format!("{self:?}")
    }
}

// ---------------------------------------------------------------------------------------------
// abstract queries

#[derive(Clone, Copy, Debug, PartialEq, Eq, PartialOrd, Ord)]
pub enum FieldSel {
    Default,
    Title,
    Body,
    Tag,
    Weird,
    U,
    I,
    F,
    D,
    Ip,
    By,
    B,
    Fa,
    JsS,
    JsN,
    JsB,
    JsKW,
    /// text, stop words removed
    Sw,
    /// text, tokens of 6 bytes or more removed
    Lg,
    /// JSON text, stop words removed
    JtS,
}

/// the analyzer classes that have their own sentence pool, by a representative field
const SENTENCE_CLASSES: &[FieldSel] = &[FieldSel::Title, FieldSel::JsS, FieldSel::Sw, FieldSel::Lg, FieldSel::JtS];

fn sentence_class(field: FieldSel) -> usize {
    match field {
        FieldSel::JsS | FieldSel::JsKW => 1,
        FieldSel::Sw => 2,
        FieldSel::Lg => 3,
        FieldSel::JtS => 4,
        _ => 0,
    }
}

/// Naive model of the analyzers: does the analyzer of `field` index this (lower-case) token? A
/// token it removes still occupies its position.
pub fn keeps(field: FieldSel, token: &str) -> bool {
    match field {
        FieldSel::Sw | FieldSel::JtS => !STOP_WORDS.contains(&token),
        FieldSel::Lg => token.len() < SHORT_LIMIT,
        _ => token.len() < DEFAULT_LIMIT,
    }
}

impl FieldSel {
    pub fn name(self) -> Option<&'static str> {
        Some(match self {
            FieldSel::Default => return None,
            FieldSel::Title => "title",
            FieldSel::Body => "body",
            FieldSel::Tag => "tag",
            FieldSel::Weird => WEIRD_FIELD,
            FieldSel::U => "u",
            FieldSel::I => "i",
            FieldSel::F => "f",
            FieldSel::D => "d",
            FieldSel::Ip => "ip",
            FieldSel::By => "by",
            FieldSel::B => "b",
            FieldSel::Fa => "fa",
            FieldSel::JsS => "js.s",
            FieldSel::JsN => "js.n",
            FieldSel::JsB => "js.b",
            FieldSel::JsKW => "js.k.w",
            FieldSel::Sw => "sw",
            FieldSel::Lg => "lg",
            FieldSel::JtS => "jt.s",
        })
    }
    fn label(self) -> &'static str {
        match self {
            FieldSel::Default => "default-fields",
            FieldSel::Title | FieldSel::Body => "text",
            FieldSel::Tag => "string",
            FieldSel::Weird => "string-escaped-fieldname",
            FieldSel::U => "u64",
            FieldSel::I => "i64",
            FieldSel::F => "f64",
            FieldSel::D => "date",
            FieldSel::Ip => "ip",
            FieldSel::By => "bytes",
            FieldSel::B => "bool",
            FieldSel::Fa => "facet",
            FieldSel::JsS | FieldSel::JsKW => "json-text",
            FieldSel::JsN => "json-number",
            FieldSel::JsB => "json-bool",
            FieldSel::Sw => "text-stopwords",
            FieldSel::Lg => "text-maxlen",
            FieldSel::JtS => "json-text-stopwords",
        }
    }
    fn is_text(self) -> bool {
        matches!(
            self,
            FieldSel::Default | FieldSel::Title | FieldSel::Body | FieldSel::JsS | FieldSel::JsKW | FieldSel::Sw | FieldSel::Lg | FieldSel::JtS
        )
    }
}

#[derive(Clone, Debug, PartialEq)]
pub enum Val {
    /// lower-case tokens of a tokenized text field (>=1)
    Text(Vec<String>),
    /// exact value of a raw-tokenized field
    Raw(String),
    U(u64),
    I(i64),
    F(f64),
    /// seconds
    D(i64),
    Ip(u128),
    By(Vec<u8>),
    B(bool),
    Fa(Vec<String>),
}

#[derive(Clone, Debug, PartialEq)]
pub enum Bnd {
    Open,
    Incl(Val),
    Excl(Val),
}

#[derive(Clone, Debug, PartialEq)]
pub enum Leaf {
    Term { field: FieldSel, val: Val },
    Phrase { field: FieldSel, words: Vec<String>, slop: u32, prefix: bool },
    Range { field: FieldSel, lo: Bnd, hi: Bnd, elastic: bool },
    Set { field: FieldSel, elems: Vec<Val> },
    All,
}

#[derive(Clone, Copy, Debug, PartialEq, Eq)]
pub enum Occ {
    Bare,
    Must,
    MustNot,
    /// `NOT x` inside an occur list: same as `-x`
    NotKw,
}

#[derive(Clone, Debug, PartialEq)]
pub enum Node {
    Leaf(Leaf),
    /// `+a -b c`
    Occur(Vec<(Occ, Node)>),
    /// `a AND -b OR c AND d`: disjunction of conjunctions; an operand may carry `-` (excluded from
    /// its conjunction) or `+` (no effect inside a conjunction of two or more)
    OrOfAnds(Vec<Vec<(Occ, Node)>>),
    /// `field:( expr )`: the leaves of `expr` that belong to `field` are written without a field
    Group { field: FieldSel, inner: Box<Node> },
}

// ---------------------------------------------------------------------------------------------
// naive evaluation

/// a text value as its analyzer leaves it: position -> token, `None` where a token was removed
fn analyzed(field: FieldSel, raw: &[String]) -> Vec<Option<&str>> {
    raw.iter().map(|t| if keeps(field, t) { Some(t.as_str()) } else { None }).collect()
}

/// the tokens of a phrase literal that the analyzer keeps, with their positions in the literal
fn phrase_terms(field: FieldSel, words: &[String]) -> Vec<(usize, &str)> {
    words.iter().enumerate().filter(|(_, w)| keeps(field, w)).map(|(k, w)| (k, w.as_str())).collect()
}

/// every kept token of the phrase stands in the value, at the same distances as in the literal
fn contains_phrase(tokens: &[Option<&str>], phrase: &[(usize, &str)]) -> bool {
    let Some((base, _)) = phrase.first() else { return false };
    (0..tokens.len()).any(|s| phrase.iter().all(|(o, w)| tokens.get(s + o - base) == Some(&Some(*w))))
}

/// as `contains_phrase`, the last token of the literal being a prefix of the token in the value
fn contains_phrase_prefix(tokens: &[Option<&str>], phrase: &[(usize, &str)]) -> bool {
    let n = phrase.len();
    if n < 2 {
        return false;
    }
    let base = phrase[0].0;
    let (last_o, last_w) = phrase[n - 1];
    (0..tokens.len()).any(|s| {
        phrase[..n - 1].iter().all(|(o, w)| tokens.get(s + o - base) == Some(&Some(*w)))
            && matches!(tokens.get(s + last_o - base), Some(Some(t)) if t.starts_with(last_w))
    })
}

/// two-term sloppy phrase: a at position pa, b at pb, b expected `gap` positions after a:
/// |pa + gap - pb| <= slop (gap = 1 for adjacent words)
fn contains_sloppy_pair(tokens: &[Option<&str>], a: &str, b: &str, gap: usize, slop: u32) -> bool {
    for (pa, ta) in tokens.iter().enumerate() {
        if *ta != Some(a) {
            continue;
        }
        for (pb, tb) in tokens.iter().enumerate() {
            if *tb == Some(b) && ((pa + gap) as i64 - pb as i64).unsigned_abs() <= slop as u64 {
                return true;
            }
        }
    }
    false
}

fn text_fields<'a>(d: &'a MDoc, f: FieldSel) -> Vec<&'a Vec<String>> {
    let mut v = vec![];
    let mut push = |o: &'a Option<Vec<String>>| {
        if let Some(t) = o {
            v.push(t)
        }
    };
    match f {
        FieldSel::Default => {
            push(&d.title);
            push(&d.body);
        }
        FieldSel::Title => push(&d.title),
        FieldSel::Body => push(&d.body),
        FieldSel::JsS => push(&d.js_s),
        FieldSel::JsKW => push(&d.js_kw),
        FieldSel::Sw => push(&d.sw),
        FieldSel::Lg => push(&d.lg),
        FieldSel::JtS => push(&d.jt_s),
        _ => {}
    }
    v
}

/// all values of `field` in `d`, as `Val`s comparable with query literals
fn field_values(d: &MDoc, field: FieldSel) -> Vec<Val> {
    match field {
        f if f.is_text() => text_fields(d, field)
            .into_iter()
            .flat_map(|t| t.iter().filter(|w| keeps(field, w)).map(|w| Val::Text(vec![w.clone()])))
            .collect(),
        FieldSel::Tag => d.tag.iter().map(|t| Val::Raw(t.clone())).collect(),
        FieldSel::Weird => d.weird.iter().map(|t| Val::Raw(t.clone())).collect(),
        FieldSel::U => d.u.iter().map(|v| Val::U(*v)).collect(),
        FieldSel::I => d.i.iter().map(|v| Val::I(*v)).collect(),
        FieldSel::F => d.f.iter().map(|v| Val::F(*v)).collect(),
        FieldSel::D => d.d.iter().map(|v| Val::D(*v)).collect(),
        FieldSel::Ip => d.ip.iter().map(|v| Val::Ip(*v)).collect(),
        FieldSel::By => d.by.iter().map(|v| Val::By(v.clone())).collect(),
        FieldSel::B => d.b.iter().map(|v| Val::B(*v)).collect(),
        FieldSel::Fa => d.fa.iter().map(|v| Val::Fa(v.clone())).collect(),
        FieldSel::JsN => d.js_n.iter().map(|v| Val::I(*v)).collect(),
        FieldSel::JsB => d.js_b.iter().map(|v| Val::B(*v)).collect(),
        // text fields: first arm
        FieldSel::Default | FieldSel::Title | FieldSel::Body | FieldSel::JsS | FieldSel::JsKW | FieldSel::Sw | FieldSel::Lg
        | FieldSel::JtS => vec![],
    }
}

fn cmp_val(a: &Val, b: &Val) -> Option<std::cmp::Ordering> {
    match (a, b) {
        (Val::Text(x), Val::Text(y)) => Some(x.concat().as_bytes().cmp(y.concat().as_bytes())),
        (Val::Raw(x), Val::Raw(y)) => Some(x.as_bytes().cmp(y.as_bytes())),
        (Val::U(x), Val::U(y)) => Some(x.cmp(y)),
        (Val::I(x), Val::I(y)) => Some(x.cmp(y)),
        (Val::F(x), Val::F(y)) => x.partial_cmp(y),
        (Val::D(x), Val::D(y)) => Some(x.cmp(y)),
        (Val::Ip(x), Val::Ip(y)) => Some(x.cmp(y)),
        (Val::By(x), Val::By(y)) => Some(x.cmp(y)),
        _ => None,
    }
}

fn term_matches(d: &MDoc, field: FieldSel, val: &Val) -> bool {
    match val {
        Val::Text(tokens) => {
            let phrase = phrase_terms(field, tokens);
            text_fields(d, field).into_iter().any(|t| contains_phrase(&analyzed(field, t), &phrase))
        }
        Val::Fa(q) => d.fa.iter().any(|p| p.len() >= q.len() && p[..q.len()] == q[..]),
        other => field_values(d, field).iter().any(|v| v == other),
    }
}

pub fn eval_leaf(l: &Leaf, d: &MDoc) -> bool {
    match l {
        Leaf::All => true,
        Leaf::Term { field, val } => term_matches(d, *field, val),
        Leaf::Phrase { field, words, slop, prefix } => {
            let phrase = phrase_terms(*field, words);
            text_fields(d, *field).into_iter().any(|t| {
                let t = analyzed(*field, t);
                if *prefix {
                    contains_phrase_prefix(&t, &phrase)
                } else if *slop > 0 && phrase.len() == 2 {
                    contains_sloppy_pair(&t, phrase[0].1, phrase[1].1, phrase[1].0 - phrase[0].0, *slop)
                } else {
                    contains_phrase(&t, &phrase)
                }
            })
        }
        Leaf::Range { field, lo, hi, .. } => field_values(d, *field).iter().any(|v| {
            use std::cmp::Ordering::*;
            let lo_ok = match lo {
                Bnd::Open => true,
                Bnd::Incl(b) => matches!(cmp_val(v, b), Some(Greater | Equal)),
                Bnd::Excl(b) => matches!(cmp_val(v, b), Some(Greater)),
            };
            let hi_ok = match hi {
                Bnd::Open => true,
                Bnd::Incl(b) => matches!(cmp_val(v, b), Some(Less | Equal)),
                Bnd::Excl(b) => matches!(cmp_val(v, b), Some(Less)),
            };
            lo_ok && hi_ok
        }),
        Leaf::Set { field, elems } => elems.iter().any(|e| term_matches(d, *field, e)),
    }
}

/// the documented boolean semantics; `conj` = `set_conjunction_by_default`
pub fn eval_node(n: &Node, d: &MDoc, conj: bool) -> bool {
    match n {
        Node::Leaf(l) => eval_leaf(l, d),
        // a conjunction matches when it has a required operand, all of them match and no excluded
        // operand matches; one made only of excluded operands is a clause of exclusions: nothing
        Node::OrOfAnds(groups) => groups.iter().any(|g| {
            g.iter().any(|(o, _)| !matches!(o, Occ::MustNot | Occ::NotKw))
                && g.iter().all(|(o, x)| eval_node(x, d, conj) != matches!(o, Occ::MustNot | Occ::NotKw))
        }),
        Node::Group { inner, .. } => eval_node(inner, d, conj),
        Node::Occur(items) => {
            let mut n_must = 0;
            let mut n_should = 0;
            let mut all_must = true;
            let mut any_should = false;
            for (occ, x) in items {
                let v = eval_node(x, d, conj);
                let occ = match occ {
                    Occ::Bare => {
                        if conj {
                            Occ::Must
                        } else {
                            Occ::Bare
                        }
                    }
                    Occ::NotKw => Occ::MustNot,
                    o => *o,
                };
                match occ {
                    Occ::Must => {
                        n_must += 1;
                        all_must &= v;
                    }
                    Occ::Bare => {
                        n_should += 1;
                        any_should |= v;
                    }
                    _ => {
                        if v {
                            return false;
                        }
                    }
                }
            }
            if n_must > 0 {
                all_must
            } else {
                n_should > 0 && any_should
            }
        }
    }
}

// ---------------------------------------------------------------------------------------------
// generation

impl World {
    fn gen_val(&self, field: FieldSel, rng: &mut Rng) -> Val {
        match field {
            FieldSel::Default | FieldSel::Title | FieldSel::Body => Val::Text(vec![self.word(rng)]),
            FieldSel::JsS | FieldSel::JsKW => Val::Text(self.json_words(rng, 1, 1)),
            // a single-term literal is a token the analyzer of the field keeps
            FieldSel::Sw | FieldSel::Lg | FieldSel::JtS => Val::Text(vec![self.kept_word(field, rng)]),
            FieldSel::Tag | FieldSel::Weird => Val::Raw(rng.pick(&self.tags).clone()),
            FieldSel::U => Val::U(if rng.chance(1, 6) { rng.range(0, 12) } else { *rng.pick(&self.us) }),
            FieldSel::I => Val::I(if rng.chance(1, 6) { rng.irange(-6, 6) } else { *rng.pick(&self.is) }),
            FieldSel::F => Val::F(if rng.chance(1, 6) { *rng.pick(FS) } else { *rng.pick(&self.fs) }),
            FieldSel::D => Val::D(if rng.chance(1, 6) { *rng.pick(DS) + rng.irange(-1, 1) } else { *rng.pick(&self.ds) }),
            FieldSel::Ip => Val::Ip(if rng.chance(1, 6) { *rng.pick(&ips()) } else { *rng.pick(&self.ips) }),
            FieldSel::By => Val::By(rng.pick(&self.bys).clone()),
            FieldSel::B | FieldSel::JsB => Val::B(rng.bool()),
            FieldSel::Fa => {
                let p = rng.pick(&self.facets).clone();
                let n = rng.urange(1, p.len());
                Val::Fa(p[..n].to_vec())
            }
            FieldSel::JsN => Val::I(*rng.pick(&[0i64, 1, 5, -3, 42, 1000, 7])),
        }
    }

    pub fn gen_leaf(&self, rng: &mut Rng) -> Leaf {
        const TERM_FIELDS: &[FieldSel] = &[
            FieldSel::Default, FieldSel::Default, FieldSel::Title, FieldSel::Body, FieldSel::Tag, FieldSel::Weird,
            FieldSel::U, FieldSel::I, FieldSel::F, FieldSel::D, FieldSel::Ip, FieldSel::By, FieldSel::B, FieldSel::Fa,
            FieldSel::JsS, FieldSel::JsN, FieldSel::JsB, FieldSel::JsKW, FieldSel::Sw, FieldSel::Lg, FieldSel::JtS,
        ];
        const RANGE_FIELDS: &[FieldSel] = &[
            FieldSel::Title, FieldSel::Body, FieldSel::Tag, FieldSel::U, FieldSel::I, FieldSel::F, FieldSel::D, FieldSel::Ip,
            FieldSel::Sw, FieldSel::Lg,
        ];
        const SET_FIELDS: &[FieldSel] = &[
            FieldSel::Title, FieldSel::Body, FieldSel::Tag, FieldSel::Weird, FieldSel::U, FieldSel::I, FieldSel::F,
            FieldSel::D, FieldSel::Ip, FieldSel::By, FieldSel::B, FieldSel::Sw, FieldSel::Lg,
        ];
        match rng.weighted(&[40, 10, 18, 14, 10, 2, 5]) {
            6 => {
                let field = *rng.pick(&[
                    FieldSel::Default, FieldSel::Title, FieldSel::Body, FieldSel::Sw, FieldSel::Sw, FieldSel::Lg, FieldSel::Lg,
                ]);
                self.gen_prefix_over_gap(field, rng).unwrap_or(Leaf::All)
            }
            0 => {
                let field = *rng.pick(TERM_FIELDS);
                Leaf::Term { field, val: self.gen_val(field, rng) }
            }
            1 => {
                // multi-token term on a tokenized field: documented to behave as a phrase
                // (through the analyzer of the field: the tokens it removes leave their positions empty)
                let field = *rng.pick(&[
                    FieldSel::Default, FieldSel::Title, FieldSel::Body, FieldSel::JsS, FieldSel::JsS, FieldSel::Sw, FieldSel::Lg,
                    FieldSel::JtS, FieldSel::JtS,
                ]);
                Leaf::Term { field, val: Val::Text(self.phrase_words(field, rng, 2, 4)) }
            }
            2 => {
                let field = *rng.pick(&[
                    FieldSel::Default, FieldSel::Title, FieldSel::Body, FieldSel::Sw, FieldSel::Sw, FieldSel::Lg, FieldSel::Lg,
                ]);
                let mut words = self.phrase_words(field, rng, 2, 5);
                let kept: Vec<usize> = (0..words.len()).filter(|k| keeps(field, &words[*k])).collect();
                let (slop, prefix) = match rng.weighted(&[3, 4, 3]) {
                    0 => (0, false),
                    1 => {
                        // slop only for two distinct terms (the only case the docs pin down): the
                        // literal ends at its second kept token, removed tokens between the two stay
                        if kept.len() >= 2 && words[kept[0]] != words[kept[1]] {
                            words.truncate(kept[1] + 1);
                            (rng.range(1, 4) as u32, false)
                        } else {
                            (0, false)
                        }
                    }
                    _ => {
                        // phrase prefix: shorten the last word; it needs two kept tokens, the
                        // prefix being one of them
                        let mut w = words.clone();
                        let last = w.pop().unwrap_or_default();
                        let cs: Vec<char> = last.chars().collect();
                        let keep = rng.urange(1, cs.len().max(1));
                        let short: String = cs[..keep.min(cs.len())].iter().collect();
                        let kept_before = w.iter().filter(|x| keeps(field, x)).count();
                        if !short.is_empty() && keeps(field, &short) && kept_before >= 1 {
                            w.push(short);
                            words = w;
                            (0, true)
                        } else {
                            (0, false)
                        }
                    }
                };
                Leaf::Phrase { field, words, slop, prefix }
            }
            3 => {
                let field = *rng.pick(RANGE_FIELDS);
                for _ in 0..20 {
                    let a = self.gen_val(field, rng);
                    let b = self.gen_val(field, rng);
                    if !bound_printable(&a) || !bound_printable(&b) {
                        continue;
                    }
                    let mk = |v: Val, rng: &mut Rng| if rng.bool() { Bnd::Incl(v) } else { Bnd::Excl(v) };
                    let (lo, hi) = match rng.weighted(&[5, 2, 2]) {
                        0 => {
                            let (x, y) = if cmp_val(&a, &b) == Some(std::cmp::Ordering::Greater) && rng.chance(9, 10) { (b, a) } else { (a, b) };
                            (mk(x, rng), mk(y, rng))
                        }
                        1 => (mk(a, rng), Bnd::Open),
                        _ => (Bnd::Open, mk(b, rng)),
                    };
                    let one_sided = matches!(lo, Bnd::Open) != matches!(hi, Bnd::Open);
                    return Leaf::Range { field, lo, hi, elastic: one_sided && rng.bool() };
                }
                Leaf::All
            }
            4 => {
                let field = *rng.pick(SET_FIELDS);
                let n = *rng.pick(&[0usize, 1, 2, 3, 5]);
                Leaf::Set { field, elems: (0..n).map(|_| self.gen_val(field, rng)).collect() }
            }
            _ => Leaf::All,
        }
    }

    /// `a AND -b OR c`: operands from `item`; markers only where their meaning is defined
    fn gen_chain(&self, rng: &mut Rng, item: &mut dyn FnMut(&mut Rng) -> Node) -> Node {
        let mut groups: Vec<Vec<(Occ, Node)>> = vec![];
        let ng = rng.urange(1, 3);
        for _ in 0..ng {
            let k = rng.urange(1, 3);
            groups.push(
                (0..k)
                    .map(|_| {
                        let occ = match rng.weighted(&[68, 24, 8]) {
                            0 => Occ::Bare,
                            1 => Occ::MustNot,
                            _ => Occ::Must,
                        };
                        (occ, item(rng))
                    })
                    .collect(),
            );
        }
        if groups.iter().map(|g| g.len()).sum::<usize>() < 2 {
            groups[0].push((Occ::Bare, item(rng)));
        }
        for g in groups.iter_mut() {
            // `x OR +y` lifts y into the enclosing clause: only write `+` inside a conjunction
            if g.len() < 2 {
                for (o, _) in g.iter_mut() {
                    if *o == Occ::Must {
                        *o = Occ::Bare;
                    }
                }
            }
        }
        // a chain made only of exclusions is rejected as a whole
        if !groups.iter().any(|g| g.iter().any(|(o, _)| *o != Occ::MustNot)) {
            groups[0][0].0 = Occ::Bare;
        }
        Node::OrOfAnds(groups)
    }

    fn gen_group_expr(&self, field: FieldSel, rng: &mut Rng, depth: usize) -> Node {
        let w: [u32; 3] = if depth >= 2 { [1, 0, 0] } else if depth == 0 { [20, 40, 40] } else { [60, 20, 20] };
        match rng.weighted(&w) {
            0 => {
                let val = if matches!(field, FieldSel::JsS | FieldSel::Sw | FieldSel::Lg | FieldSel::JtS) && rng.chance(1, 3) {
                    Val::Text(self.phrase_words(field, rng, 2, 3))
                } else {
                    self.gen_val(field, rng)
                };
                Node::Leaf(Leaf::Term { field, val })
            }
            1 => {
                let n = rng.urange(2, 3);
                let mut items: Vec<(Occ, Node)> = (0..n)
                    .map(|_| {
                        let occ = match rng.weighted(&[55, 20, 25]) {
                            0 => Occ::Bare,
                            1 => Occ::Must,
                            _ => Occ::MustNot,
                        };
                        (occ, self.gen_group_expr(field, rng, depth + 1))
                    })
                    .collect();
                if items.iter().all(|(o, _)| *o == Occ::MustNot) {
                    items[0].0 = Occ::Bare;
                }
                Node::Occur(items)
            }
            _ => self.gen_chain(rng, &mut |rng| self.gen_group_expr(field, rng, depth + 1)),
        }
    }

    pub fn gen_node(&self, rng: &mut Rng, depth: usize) -> Node {
        let w: [u32; 4] = if depth >= 3 {
            [1, 0, 0, 0]
        } else if depth == 0 {
            [22, 35, 33, 10]
        } else {
            [56, 18, 18, 8]
        };
        match rng.weighted(&w) {
            0 => Node::Leaf(self.gen_leaf(rng)),
            1 => {
                let n = rng.urange(2, 4);
                let mut items: Vec<(Occ, Node)> = (0..n)
                    .map(|_| {
                        let occ = match rng.weighted(&[50, 22, 22, 6]) {
                            0 => Occ::Bare,
                            1 => Occ::Must,
                            2 => Occ::MustNot,
                            _ => Occ::NotKw,
                        };
                        (occ, self.gen_node(rng, depth + 1))
                    })
                    .collect();
                // a clause made only of exclusions has no documented meaning
                if items.iter().all(|(o, _)| matches!(o, Occ::MustNot | Occ::NotKw)) {
                    items[0].0 = if rng.bool() { Occ::Bare } else { Occ::Must };
                }
                Node::Occur(items)
            }
            2 => {
                if rng.chance(1, 3) {
                    // plain terms over the focus words: every subset of them is a document
                    self.gen_chain(rng, &mut |rng| {
                        let field = if rng.bool() { FieldSel::Title } else { FieldSel::Default };
                        Node::Leaf(Leaf::Term { field, val: Val::Text(vec![rng.pick(&self.focus).clone()]) })
                    })
                } else {
                    self.gen_chain(rng, &mut |rng| self.gen_node(rng, depth + 1))
                }
            }
            _ => {
                // field group on a field that is not a default field
                const GROUP_FIELDS: &[FieldSel] = &[
                    FieldSel::Tag, FieldSel::Tag, FieldSel::Weird, FieldSel::JsS, FieldSel::JsS, FieldSel::JsKW,
                    FieldSel::U, FieldSel::I, FieldSel::JsN, FieldSel::Sw, FieldSel::Lg, FieldSel::JtS,
                ];
                let field = *rng.pick(GROUP_FIELDS);
                Node::Group { field, inner: Box::new(self.gen_group_expr(field, rng, 0)) }
            }
        }
    }
}

/// where the analyzer of `field` removes tokens of a multi-token literal (part of the feature name)
fn removed_tokens(field: FieldSel, words: &[String]) -> &'static str {
    let kept: Vec<usize> = (0..words.len()).filter(|k| keeps(field, &words[*k])).collect();
    match (kept.first(), kept.last()) {
        (Some(a), Some(b)) if kept.len() < b - a + 1 => ":analyzer-removes-inner-token",
        _ if kept.len() < words.len() => ":analyzer-removes-edge-token",
        _ => "",
    }
}

pub fn features(n: &Node) -> BTreeSet<String> {
    fn leaf(l: &Leaf, out: &mut BTreeSet<String>) {
        match l {
            Leaf::All => {
                out.insert("all".into());
            }
            Leaf::Term { field, val } => {
                match val {
                    Val::Text(t) if t.len() > 1 => out.insert(format!("multitoken-term:{}{}", field.label(), removed_tokens(*field, t))),
                    _ => out.insert(format!("term:{}", field.label())),
                };
            }
            Leaf::Phrase { field, slop, prefix, words } => {
                let k = if *prefix { "phrase-prefix" } else if *slop > 0 { "phrase-slop" } else { "phrase" };
                out.insert(format!("{k}:{}{}", field.label(), removed_tokens(*field, words)));
            }
            Leaf::Range { field, lo, hi, elastic } => {
                let b = |b: &Bnd| match b {
                    Bnd::Open => "open",
                    Bnd::Incl(_) => "incl",
                    Bnd::Excl(_) => "excl",
                };
                out.insert(format!(
                    "range{}:{}:{}-{}",
                    if *elastic { "-cmp" } else { "" },
                    field.label(),
                    b(lo),
                    b(hi)
                ));
            }
            Leaf::Set { field, elems } => {
                out.insert(format!("set{}:{}", if elems.is_empty() { "-empty" } else { "" }, field.label()));
            }
        }
    }
    fn walk(n: &Node, out: &mut BTreeSet<String>, depth: usize) {
        match n {
            Node::Leaf(l) => leaf(l, out),
            Node::Occur(items) => {
                if depth > 0 {
                    out.insert("nested-clause".into());
                }
                for (o, x) in items {
                    out.insert(
                        match o {
                            Occ::Bare => "occur:bare",
                            Occ::Must => "occur:+",
                            Occ::MustNot => "occur:-",
                            Occ::NotKw => "occur:NOT",
                        }
                        .into(),
                    );
                    walk(x, out, depth + 1);
                }
            }
            Node::OrOfAnds(groups) => {
                if depth > 0 {
                    out.insert("nested-clause".into());
                }
                for g in groups {
                    for (o, _) in g {
                        match o {
                            Occ::MustNot | Occ::NotKw => {
                                out.insert("chain-operand:-".into());
                            }
                            Occ::Must => {
                                out.insert("chain-operand:+".into());
                            }
                            Occ::Bare => {}
                        }
                    }
                    if g.len() == 1 && matches!(g[0].0, Occ::MustNot | Occ::NotKw) && groups.len() > 1 {
                        out.insert("OR-alternative-only-excluded".into());
                    }
                }
                let has_and = groups.iter().any(|g| g.len() > 1);
                let has_or = groups.len() > 1;
                out.insert(
                    match (has_and, has_or) {
                        (true, true) => "AND-inside-OR",
                        (true, false) => "AND",
                        _ => "OR",
                    }
                    .into(),
                );
                for g in groups {
                    for (_, x) in g {
                        walk(x, out, depth + 1);
                    }
                }
            }
            Node::Group { field, inner } => {
                out.insert(format!("field-group:{}", field.label()));
                walk(inner, out, depth + 1);
            }
        }
    }
    let mut out = BTreeSet::new();
    walk(n, &mut out, 0);
    out
}


fn leaf_rank(l: &Leaf) -> u32 {
    match l {
        Leaf::All => 0,
        Leaf::Term { field: FieldSel::Default, val: Val::Text(t) } if t.len() == 1 && t[0] == "apple" => 1,
        Leaf::Term { field: FieldSel::Title, val: Val::Text(t) } if t.len() == 1 && t[0] == "apple" => 2,
        _ => 3,
    }
}

fn simplify_leaf(l: &Leaf, out: &mut Vec<Node>) {
    // a multi-token literal with one word less (at least two words, one of them kept)
    let shorter = |field: FieldSel, words: &[String]| -> Vec<Vec<String>> {
        if words.len() <= 2 {
            return vec![];
        }
        (0..words.len())
            .map(|k| {
                let mut w = words.to_vec();
                w.remove(k);
                w
            })
            .filter(|w| w.iter().any(|x| keeps(field, x)))
            .collect()
    };
    match l {
            Leaf::Phrase { field, words, slop: 0, prefix: false } => {
                for w in shorter(*field, words) {
                    out.push(Node::Leaf(Leaf::Phrase { field: *field, words: w, slop: 0, prefix: false }));
                }
            }
            Leaf::Term { field, val: Val::Text(words) } => {
                for w in shorter(*field, words) {
                    out.push(Node::Leaf(Leaf::Term { field: *field, val: Val::Text(w) }));
                }
            }
            Leaf::Set { field, elems } if elems.len() > 1 => {
                for k in 0..elems.len() {
                    let mut e = elems.clone();
                    e.remove(k);
                    out.push(Node::Leaf(Leaf::Set { field: *field, elems: e }));
                }
            }
            Leaf::Range { field, lo, hi, elastic } => {
                if *lo != Bnd::Open && *hi != Bnd::Open {
                    out.push(Node::Leaf(Leaf::Range { field: *field, lo: Bnd::Open, hi: hi.clone(), elastic: false }));
                    out.push(Node::Leaf(Leaf::Range { field: *field, lo: lo.clone(), hi: Bnd::Open, elastic: false }));
                }
                if *elastic {
                    out.push(Node::Leaf(Leaf::Range { field: *field, lo: lo.clone(), hi: hi.clone(), elastic: false }));
                }
            }
            _ => {}
    }
}

/// Shape of one defect of the unchanged tree (PhrasePrefixScorer assumes that the prefix directly
/// follows the last phrase term): `n` is a single prefix phrase with two or more kept tokens
/// before the prefix and a removed token directly before the prefix. Returns the positions the
/// kept tokens have in the literal (what the parsed query must carry).
pub fn prefix_after_removed_token(n: &Node) -> Option<Vec<usize>> {
    let Node::Leaf(Leaf::Phrase { field, words, prefix: true, .. }) = n else { return None };
    let kept: Vec<usize> = (0..words.len()).filter(|k| keeps(*field, &words[*k])).collect();
    let k = kept.len();
    if k >= 3 && kept[k - 1] == words.len() - 1 && kept[k - 2] + 1 < kept[k - 1] {
        Some(kept)
    } else {
        None
    }
}

/// the prefix phrases of the shape `prefix_after_removed_token` anywhere in `n`
pub fn prefix_over_gap_leaves(n: &Node) -> Vec<Leaf> {
    fn walk(n: &Node, out: &mut Vec<Leaf>) {
        match n {
            Node::Leaf(l) => {
                if prefix_after_removed_token(n).is_some() {
                    out.push(l.clone());
                }
            }
            Node::Occur(items) => items.iter().for_each(|(_, x)| walk(x, out)),
            Node::OrOfAnds(groups) => groups.iter().flatten().for_each(|(_, x)| walk(x, out)),
            Node::Group { inner, .. } => walk(inner, out),
        }
    }
    let mut out = vec![];
    walk(n, &mut out);
    out
}

/// does some clause of `n` hold the same operand (marker and expression) twice?
pub fn has_duplicate_siblings(n: &Node) -> bool {
    fn dup(items: &[&(Occ, Node)]) -> bool {
        (0..items.len()).any(|i| (0..i).any(|j| items[i] == items[j]))
    }
    match n {
        Node::Leaf(_) => false,
        Node::Occur(items) => {
            dup(&items.iter().collect::<Vec<_>>()) || items.iter().any(|(_, x)| has_duplicate_siblings(x))
        }
        Node::OrOfAnds(groups) => {
            (0..groups.len()).any(|i| (0..i).any(|j| groups[i] == groups[j]))
                || groups
                    .iter()
                    .any(|g| dup(&g.iter().collect::<Vec<_>>()) || g.iter().any(|(_, x)| has_duplicate_siblings(x)))
        }
        Node::Group { inner, .. } => has_duplicate_siblings(inner),
    }
}

/// may `n` stand inside `field:( ... )` with the same meaning? (its unfielded leaves take the
/// group's field, `*` turns into an exists query)
fn group_safe(n: &Node, field: FieldSel) -> bool {
    match n {
        Node::Leaf(Leaf::Term { field: f, .. }) => *f == field,
        Node::Leaf(_) => false,
        Node::Occur(items) => items.iter().all(|(o, x)| *o != Occ::NotKw && group_safe(x, field)),
        Node::OrOfAnds(groups) => groups.iter().all(|g| g.iter().all(|(_, x)| group_safe(x, field))),
        Node::Group { .. } => false,
    }
}

/// smaller variants of a query (for shrinking a failing case)
pub fn simplifications(n: &Node) -> Vec<Node> {
    let mut out = vec![];
    match n {
        Node::Leaf(l) => {
            simplify_leaf(l, &mut out);
            // canonical stand-ins: a structural defect survives them, a literal defect does not
            let word = || Val::Text(vec!["apple".to_string()]);
            for cand in [
                Leaf::All,
                Leaf::Term { field: FieldSel::Default, val: word() },
                Leaf::Term { field: FieldSel::Title, val: word() },
            ] {
                if *l != cand && leaf_rank(l) > leaf_rank(&cand) {
                    out.push(Node::Leaf(cand));
                }
            }
        }

        Node::Occur(items) => {
            for (_, x) in items {
                out.push(x.clone());
            }
            // weaker occur markers: only the ones that matter survive
            for k in 0..items.len() {
                let weaker = match items[k].0 {
                    Occ::NotKw => Some(Occ::MustNot),
                    Occ::MustNot | Occ::Must => Some(Occ::Bare),
                    Occ::Bare => None,
                };
                if let Some(w) = weaker {
                    let mut it = items.clone();
                    it[k].0 = w;
                    if it.iter().any(|(o, _)| matches!(o, Occ::Bare | Occ::Must)) {
                        out.push(Node::Occur(it));
                    }
                }
            }
            if items.len() > 1 {
                for k in 0..items.len() {
                    let mut it = items.clone();
                    it.remove(k);
                    if it.iter().any(|(o, _)| matches!(o, Occ::Bare | Occ::Must)) {
                        out.push(Node::Occur(it));
                    }
                }
            }
            for k in 0..items.len() {
                for s in simplifications(&items[k].1) {
                    let mut it = items.clone();
                    it[k].1 = s;
                    out.push(Node::Occur(it));
                }
            }
        }
        Node::OrOfAnds(groups) => {
            let valid = |gs: &Vec<Vec<(Occ, Node)>>| {
                gs.iter().map(|g| g.len()).sum::<usize>() >= 2
                    && gs.iter().any(|g| g.iter().any(|(o, _)| *o != Occ::MustNot))
                    && gs.iter().all(|g| g.len() >= 2 || g.iter().all(|(o, _)| *o != Occ::Must))
            };
            for g in groups {
                for (_, x) in g {
                    out.push(x.clone());
                }
            }
            for gi in 0..groups.len() {
                for k in 0..groups[gi].len() {
                    if groups[gi][k].0 != Occ::Bare {
                        let mut gs = groups.clone();
                        gs[gi][k].0 = Occ::Bare;
                        if valid(&gs) {
                            out.push(Node::OrOfAnds(gs));
                        }
                    }
                }
            }
            for gi in 0..groups.len() {
                for k in 0..groups[gi].len() {
                    let mut gs = groups.clone();
                    gs[gi].remove(k);
                    if gs[gi].is_empty() {
                        gs.remove(gi);
                    }
                    if valid(&gs) {
                        out.push(Node::OrOfAnds(gs));
                    }
                }
            }
            for gi in 0..groups.len() {
                for k in 0..groups[gi].len() {
                    for s in simplifications(&groups[gi][k].1) {
                        let mut gs = groups.clone();
                        gs[gi][k].1 = s;
                        out.push(Node::OrOfAnds(gs));
                    }
                }
            }
        }
        Node::Group { field, inner } => {
            // the same expression with the field written on every leaf
            out.push((**inner).clone());
            for s in simplifications(inner) {
                if group_safe(&s, *field) {
                    out.push(Node::Group { field: *field, inner: Box::new(s) });
                }
            }
        }
    }
    out
}

// ---------------------------------------------------------------------------------------------
// printing

#[derive(Clone, Copy, Debug, PartialEq, Eq)]
pub enum PrintMode {
    /// canonical: single blanks, no redundant parentheses, no boosts, bare words where possible
    Plain,
    /// random but meaning-preserving whitespace, quoting, escaping, parentheses, boosts, case
    Noisy,
    /// Plain + a boost on every operand that can take one
    Boosted,
    /// Plain + redundant parentheses around every operand
    Parens,
    /// Plain + every value quoted
    Quoted,
    /// Plain + tabs / newlines / doubled blanks wherever whitespace is optional or required
    Spaced,
    /// Plain + a boost on exactly one parenthesised clause: the k-th in printing order, the whole
    /// query counting as one (a boost on every clause at once can cancel a defect out)
    BoostOne(u8),
}

thread_local! {
    /// clauses printed so far by the current `print_query` call (`PrintMode::BoostOne`)
    static CLAUSES_PRINTED: std::cell::Cell<u8> = const { std::cell::Cell::new(0) };
}

/// how many clauses `PrintMode::BoostOne` tries
pub const BOOST_ONE_MAX: u8 = 12;

impl PrintMode {
    pub fn label(self) -> &'static str {
        match self {
            PrintMode::Plain => "plain",
            PrintMode::Noisy => "noisy",
            PrintMode::Boosted => "with-boosts",
            PrintMode::Parens => "with-redundant-parentheses",
            PrintMode::Quoted => "with-quoted-values",
            PrintMode::Spaced => "with-extra-whitespace",
            PrintMode::BoostOne(_) => "with-a-boost-on-one-clause",
        }
    }
}

const WORD_ESCAPED: &[char] = &['^', '`', ':', '{', '}', '"', '\'', '[', ']', '(', ')', '\\'];
const FIELD_SPECIAL: &[char] = &['+', '^', '`', ':', '{', '}', '"', '\'', '[', ']', '(', ')', '!', '\\', '*', ' '];

fn ws(rng: &mut Rng, mode: PrintMode, min1: bool) -> String {
    match mode {
        PrintMode::Noisy => {
            let n = if min1 { *rng.pick(&[1usize, 1, 1, 2, 3]) } else { *rng.pick(&[0usize, 0, 0, 1, 2]) };
            (0..n).map(|_| *rng.pick(&[' ', ' ', ' ', '\t', '\n', '\r'])).collect()
        }
        // no blank at all: a blank hides the defects that tabs and newlines trigger
        PrintMode::Spaced => if min1 { "\n".into() } else { "\t".into() },
        _ => if min1 { " ".into() } else { String::new() },
    }
}

fn rfc3339(secs: i64, offset_minutes: i64, style: usize) -> String {
    // civil-from-days (proleptic Gregorian), local time = utc + offset
    let local = secs + offset_minutes * 60;
    let days = local.div_euclid(86_400);
    let rem = local.rem_euclid(86_400);
    let (h, mi, s) = (rem / 3600, (rem % 3600) / 60, rem % 60);
    let z = days + 719_468;
    let era = z.div_euclid(146_097);
    let doe = z.rem_euclid(146_097);
    let yoe = (doe - doe / 1460 + doe / 36_524 - doe / 146_096) / 365;
    let y = yoe + era * 400;
    let doy = doe - (365 * yoe + yoe / 4 - yoe / 100);
    let mp = (5 * doy + 2) / 153;
    let dd = doy - (153 * mp + 2) / 5 + 1;
    let mm = if mp < 10 { mp + 3 } else { mp - 9 };
    let y = if mm <= 2 { y + 1 } else { y };
    let frac = match style {
        1 => ".0",
        2 => ".000",
        _ => "",
    };
    let off = if offset_minutes == 0 {
        if style == 3 { "+00:00".to_string() } else { "Z".to_string() }
    } else {
        let a = offset_minutes.abs();
        format!("{}{:02}:{:02}", if offset_minutes < 0 { '-' } else { '+' }, a / 60, a % 60)
    };
    format!("{y:04}-{mm:02}-{dd:02}T{h:02}:{mi:02}:{s:02}{frac}{off}")
}

fn base64(bytes: &[u8]) -> String {
    const T: &[u8; 64] = b"ABCDEFGHIJKLMNOPQRSTUVWXYZabcdefghijklmnopqrstuvwxyz0123456789+/";
    let mut out = String::new();
    for chunk in bytes.chunks(3) {
        let b = [chunk[0], *chunk.get(1).unwrap_or(&0), *chunk.get(2).unwrap_or(&0)];
        let n = ((b[0] as u32) << 16) | ((b[1] as u32) << 8) | b[2] as u32;
        out.push(T[(n >> 18) as usize & 63] as char);
        out.push(T[(n >> 12) as usize & 63] as char);
        out.push(if chunk.len() > 1 { T[(n >> 6) as usize & 63] as char } else { '=' });
        out.push(if chunk.len() > 2 { T[n as usize & 63] as char } else { '=' });
    }
    out
}

fn random_case(w: &str, rng: &mut Rng, mode: PrintMode) -> String {
    if mode != PrintMode::Noisy {
        return w.to_string();
    }
    match rng.weighted(&[6, 2, 2]) {
        0 => w.to_string(),
        1 => w.chars().map(|c| c.to_ascii_uppercase()).collect(),
        _ => ascii_upper_first(w),
    }
}

/// the literal text of a value, before quoting / escaping
fn val_literal(v: &Val, rng: &mut Rng, mode: PrintMode, in_bound: bool) -> String {
    let noisy = mode == PrintMode::Noisy;
    match v {
        Val::Text(toks) => {
            let sep = if toks.len() < 2 || !noisy || in_bound { " " } else { *rng.pick(&[" ", " ", "-", ".", "_", ", ", "  "]) };
            toks.iter().map(|t| random_case(t, rng, mode)).collect::<Vec<_>>().join(sep)
        }
        Val::Raw(s) => s.clone(),
        Val::U(x) => x.to_string(),
        Val::I(x) => x.to_string(),
        Val::F(x) => {
            if *x < 0.0 || !noisy {
                // plain decimal: the grammar's negative numbers are -digits[.digits]
                if *x == x.trunc() && x.abs() < 1e15 { format!("{x:.1}") } else { format!("{x}") }
            } else {
                match rng.weighted(&[3, 1, 1]) {
                    0 => format!("{x:?}"),
                    1 => format!("{x:e}"),
                    _ => {
                        if x.abs() < 1e15 { format!("{x}") } else { format!("{x:?}") }
                    }
                }
            }
        }
        Val::D(s) => {
            if noisy {
                let off = *rng.pick(&[0i64, 0, 0, 120, -330, 60, -480, 345]);
                rfc3339(*s, off, rng.usize_below(4))
            } else {
                rfc3339(*s, 0, 0)
            }
        }
        Val::Ip(x) => {
            let v6 = Ipv6Addr::from(*x);
            match v6.to_ipv4_mapped() {
                Some(v4) if !noisy || rng.chance(3, 4) => v4.to_string(),
                _ => v6.to_string(),
            }
        }
        Val::By(b) => base64(b),
        Val::B(b) => b.to_string(),
        Val::Fa(p) => format!("/{}", p.join("/")),
    }
}

fn is_negative_number(s: &str) -> bool {
    let Some(rest) = s.strip_prefix('-') else { return false };
    let mut parts = rest.splitn(2, '.');
    let a = parts.next().unwrap_or("");
    let ok = |p: &str| !p.is_empty() && p.chars().all(|c| c.is_ascii_digit());
    match parts.next() {
        None => ok(a),
        Some(b) => ok(a) && ok(b),
    }
}

/// can `lit` be written without quotes (with backslash escapes) as a term / set element?
fn bare_possible(lit: &str, unfielded: bool) -> bool {
    let Some(first) = lit.chars().next() else { return false };
    if matches!(lit, "AND" | "OR" | "NOT" | "IN" | "TO" | "*") {
        return false;
    }
    if "+/<>*".contains(first) {
        return false;
    }
    if first == '-' && unfielded {
        return false;
    }
    // `-12` and `-1.5` are read by the number rule, `-12abc` would be cut after the digits
    if first == '-' && !is_negative_number(lit) {
        let digits_then_more = lit[1..].chars().next().map(|c| c.is_ascii_digit()).unwrap_or(false);
        if digits_then_more {
            return false;
        }
    }
    true
}

fn bare_word(lit: &str, rng: &mut Rng, mode: PrintMode) -> String {
    let mut out = String::new();
    let neg_num = is_negative_number(lit);
    for (k, c) in lit.chars().enumerate() {
        let must = c.is_whitespace() || WORD_ESCAPED.contains(&c) || (k == 0 && c == '-' && !neg_num);
        let may = c == '-' && k > 0 && !neg_num && mode == PrintMode::Noisy && rng.chance(1, 4);
        if must || may {
            out.push('\\');
        }
        out.push(c);
    }
    out
}

fn quoted(lit: &str, q: char, rng: &mut Rng, mode: PrintMode) -> String {
    let mut out = String::new();
    out.push(q);
    for c in lit.chars() {
        if c == q || c == '\\' || (mode == PrintMode::Noisy && rng.chance(1, 25)) {
            out.push('\\');
        }
        out.push(c);
    }
    out.push(q);
    out
}

fn print_value(lit: &str, rng: &mut Rng, mode: PrintMode, unfielded: bool, force_quotes: bool) -> String {
    let can_bare = !force_quotes && bare_possible(lit, unfielded);
    if can_bare && mode != PrintMode::Quoted && (mode != PrintMode::Noisy || rng.chance(3, 5)) {
        bare_word(lit, rng, mode)
    } else {
        let q = if mode == PrintMode::Noisy && rng.chance(1, 3) { '\'' } else { '"' };
        quoted(lit, q, rng, mode)
    }
}

/// range bounds are bare words of a restricted alphabet (no quotes, no escapes)
fn bound_literal_ok(lit: &str) -> bool {
    if lit.is_empty() || matches!(lit, "*" | "TO" | "AND" | "OR" | "NOT" | "IN") {
        return false;
    }
    if lit.starts_with('`') {
        return false;
    }
    if lit.starts_with('-') && !is_negative_number(lit) {
        return false;
    }
    !lit.chars().any(|c| c.is_whitespace() || "{}\"[]()\\".contains(c))
}

fn bound_printable(v: &Val) -> bool {
    match v {
        Val::Raw(s) => bound_literal_ok(s),
        Val::Text(t) => t.len() == 1 && !matches!(t[0].as_str(), "to" | "and" | "or" | "not" | "in"),
        Val::F(x) => x.abs() < 1e15,
        _ => true,
    }
}

fn print_field(field: FieldSel, rng: &mut Rng, mode: PrintMode) -> String {
    match field.name() {
        None => String::new(),
        Some(name) => {
            let mut s = String::new();
            for c in name.chars() {
                if FIELD_SPECIAL.contains(&c) {
                    s.push('\\');
                }
                s.push(c);
            }
            // before the colon only blanks: the grammar ends a field name at ' ' but takes a
            // tab or newline as part of the name
            let before = match mode {
                PrintMode::Noisy => *rng.pick(&["", "", "", " ", "  "]),
                PrintMode::Spaced => " ",
                _ => "",
            };
            format!("{s}{before}:{}", ws(rng, mode, false))
        }
    }
}

fn print_bound_val(v: &Val, rng: &mut Rng, mode: PrintMode) -> String {
    for _ in 0..8 {
        let lit = val_literal(v, rng, mode, true);
        if bound_literal_ok(&lit) {
            return lit;
        }
    }
    val_literal(v, rng, PrintMode::Plain, true)
}

/// returns (text, may a `^boost` follow directly?)
fn print_leaf_inner(l: &Leaf, rng: &mut Rng, mode: PrintMode, group: Option<FieldSel>) -> (String, bool) {
    match l {
        Leaf::All => ("*".to_string(), true),
        Leaf::Term { field, val } => {
            let lit = val_literal(val, rng, mode, false);
            // facets start with '/', which the lenient grammar reads as a regex: always quote
            let force = matches!(val, Val::Fa(_));
            // inside `field:( ... )` the leaves of that field are written without it
            let bare_field = *field == FieldSel::Default || group == Some(*field);
            let v = print_value(&lit, rng, mode, bare_field, force);
            let prefix = if group == Some(*field) { String::new() } else { print_field(*field, rng, mode) };
            (format!("{prefix}{v}"), true)
        }
        Leaf::Phrase { field, words, slop, prefix } => {
            let sep_pool: &[&str] = if mode == PrintMode::Noisy { &[" ", " ", " ", "  ", ", ", "-", " . "] } else { &[" "] };
            let mut lit = String::new();
            for (k, w) in words.iter().enumerate() {
                if k > 0 {
                    lit.push_str(*rng.pick(sep_pool));
                }
                lit.push_str(&random_case(w, rng, mode));
            }
            let q = if mode == PrintMode::Noisy && rng.chance(1, 3) { '\'' } else { '"' };
            let mut s = format!("{}{}", print_field(*field, rng, mode), quoted(&lit, q, rng, mode));
            if *prefix {
                s.push('*');
            } else if *slop > 0 {
                s.push_str(&format!("~{slop}"));
            }
            (s, true)
        }
        Leaf::Range { field, lo, hi, elastic } => {
            let f = print_field(*field, rng, mode);
            if *elastic {
                let (op, v) = match (lo, hi) {
                    (Bnd::Incl(v), Bnd::Open) => (">=", v),
                    (Bnd::Excl(v), Bnd::Open) => (">", v),
                    (Bnd::Open, Bnd::Incl(v)) => ("<=", v),
                    (Bnd::Open, Bnd::Excl(v)) => ("<", v),
                    _ => ("", &Val::B(true)),
                };
                if !op.is_empty() {
                    // the bound word swallows everything up to the next blank or ')'
                    return (format!("{f}{op}{}{}", ws(rng, mode, false), print_bound_val(v, rng, mode)), false);
                }
            }
            let open_ch = |rng: &mut Rng| if mode == PrintMode::Noisy && rng.bool() { ('{', '}') } else { ('[', ']') };
            let (lc, lv) = match lo {
                Bnd::Open => (open_ch(rng).0, "*".to_string()),
                Bnd::Incl(v) => ('[', print_bound_val(v, rng, mode)),
                Bnd::Excl(v) => ('{', print_bound_val(v, rng, mode)),
            };
            let (hc, hv) = match hi {
                Bnd::Open => (open_ch(rng).1, "*".to_string()),
                Bnd::Incl(v) => (']', print_bound_val(v, rng, mode)),
                Bnd::Excl(v) => ('}', print_bound_val(v, rng, mode)),
            };
            (
                format!(
                    "{f}{lc}{}{lv}{}TO{}{hv}{hc}",
                    ws(rng, mode, false),
                    ws(rng, mode, true),
                    ws(rng, mode, true)
                ),
                true,
            )
        }
        Leaf::Set { field, elems } => {
            let mut s = format!("{}IN{}[{}", print_field(*field, rng, mode), ws(rng, mode, true), ws(rng, mode, false));
            for (k, e) in elems.iter().enumerate() {
                if k > 0 {
                    s.push_str(&ws(rng, mode, true));
                }
                let lit = val_literal(e, rng, mode, false);
                s.push_str(&print_value(&lit, rng, mode, false, matches!(e, Val::Fa(_))));
            }
            s.push(']');
            (s, true)
        }
    }
}

fn boost_suffix(rng: &mut Rng) -> String {
    format!("^{}", rng.pick(&["2", "0.5", "3.25", "10", "1", "1.0", "2.0", "007"]))
}

pub fn print_leaf(l: &Leaf, rng: &mut Rng, mode: PrintMode) -> String {
    print_leaf_inner(l, rng, mode, None).0
}

fn wrap(s: String, rng: &mut Rng, mode: PrintMode) -> String {
    format!("({}{s}{})", ws(rng, mode, false), ws(rng, mode, false))
}

/// `atomic`: the result must read as ONE operand (leaf or parenthesised group)
/// `allow_boost`: a boost may be attached to the operand itself
fn print_node(
    n: &Node,
    rng: &mut Rng,
    mode: PrintMode,
    atomic: bool,
    allow_boost: bool,
    group: Option<FieldSel>,
) -> String {
    let noisy = mode == PrintMode::Noisy;
    let (mut s, mut boostable, is_group) = match n {
        Node::Leaf(l) => {
            let (s, b) = print_leaf_inner(l, rng, mode, group);
            (s, b, false)
        }
        Node::Group { field, inner } => {
            let body = print_node(inner, rng, mode, false, true, Some(*field));
            (format!("{}{}", print_field(*field, rng, mode), wrap(body, rng, mode)), true, false)
        }
        Node::Occur(items) => {
            let mut parts = vec![];
            for (occ, x) in items {
                let p = match occ {
                    Occ::Bare => print_node(x, rng, mode, true, true, group),
                    Occ::Must => format!("+{}", print_node(x, rng, mode, true, true, group)),
                    Occ::MustNot => format!("-{}", print_node(x, rng, mode, true, true, group)),
                    // a boost directly behind `NOT x` would apply to the negation as a whole
                    Occ::NotKw => {
                        format!("NOT {}{}", ws(rng, mode, false), print_node(x, rng, mode, true, false, group))
                    }
                };
                parts.push(p);
            }
            let mut s = String::new();
            for (k, p) in parts.iter().enumerate() {
                if k > 0 {
                    s.push_str(&ws(rng, mode, true));
                }
                s.push_str(p);
            }
            (s, false, true)
        }
        Node::OrOfAnds(groups) => {
            let mut s = String::new();
            for (gi, g) in groups.iter().enumerate() {
                if gi > 0 {
                    s.push_str(&format!("{}OR {}", ws(rng, mode, true), ws(rng, mode, false)));
                }
                for (k, (occ, x)) in g.iter().enumerate() {
                    if k > 0 {
                        s.push_str(&format!("{}AND {}", ws(rng, mode, true), ws(rng, mode, false)));
                    }
                    s.push_str(match occ {
                        Occ::Must => "+",
                        Occ::MustNot | Occ::NotKw => "-",
                        Occ::Bare => "",
                    });
                    s.push_str(&print_node(x, rng, mode, true, true, group));
                }
            }
            (s, false, true)
        }
    };
    if is_group && atomic {
        s = wrap(s, rng, mode);
        boostable = true;
        if let PrintMode::BoostOne(k) = mode {
            let idx = CLAUSES_PRINTED.with(|c| c.replace(c.get().saturating_add(1)));
            if idx == k && allow_boost {
                s.push_str("^2");
            }
        }
    }
    if noisy {
        // redundant parentheses
        let mut k = 0;
        while k < 2 && rng.chance(1, 7) {
            s = wrap(s, rng, mode);
            boostable = true;
            k += 1;
        }
        // boosts are frequent inside a field group: the group's field has to reach below them
        if boostable && allow_boost && rng.chance(1, if group.is_some() { 2 } else { 6 }) {
            s.push_str(&boost_suffix(rng));
            if rng.chance(1, 8) {
                s = wrap(s, rng, mode);
            }
        }
    }
    if mode == PrintMode::Parens {
        s = wrap(s, rng, mode);
    }
    if mode == PrintMode::Boosted && boostable && allow_boost {
        s.push_str("^2");
    }
    s
}

pub fn print_query(n: &Node, rng: &mut Rng, mode: PrintMode) -> String {
    CLAUSES_PRINTED.with(|c| c.set(0));
    let whole_is_operand = matches!(mode, PrintMode::Boosted | PrintMode::BoostOne(_)) && !matches!(n, Node::Leaf(_));
    let body = print_node(n, rng, mode, whole_is_operand, true, None);
    format!("{}{body}{}", ws(rng, mode, false), ws(rng, mode, false))
}

// ---------------------------------------------------------------------------------------------
// hostile strings

const SEEDS: &[&str] = &[
    "title:hello", "a AND b OR c", "+a -b c", "title:\"big wolf\"~1", "\"big bad wo\"*", "title:[a TO c}",
    "u:{1 TO 5]", "u:>=5", "i:<-3", "title: IN [a b cd]", "title:*", "*", "a^2.0 OR b^0.4", "(a b) AND (c OR d)",
    "NOT a", "a AND NOT b", "title:(a b)", "title:(+a -\"b c\")", "body:/ab.*c/", "/joh?n(ath[oa]n)/",
    "d:\"2002-10-02T15:00:00.05Z\"", "d:[2002-10-02T15:00:00Z TO 2002-10-02T18:00:00Z}", "ip:[::1 TO ::ffff]",
    "ip:127.0.0.1", "by:aGVsbG8=", "b:true", "fa:/a/b", "fa:\"/a/b\"", "js.k.w:delta", "js.n:>5", "k\\:v\\ x:red",
    "'single quoted'", "\"esc \\\" quote\"", "a\\:b", "a\\ b", "-1.5", "i:-5", "happy tax payer", "title:a-b", "st:x",
    "u_ff:[1 TO 3]", "nofield:x", "a OR -b", "+(a b) -(c d)", "((a))", "\"\"", "''", "title:\"\"", "a~2", "\"a\"~",
    "\"a b\"~99999999999", "a^", "a^99999999999999999999999999999999999999999", "a^1e5", "u:18446744073709551616",
    "f:1e999", "IN [a]", "title:IN[a]", "[a TO b]", "{* TO *}", "title:[* TO *]", "<5", "title:>", "a AND", "AND a", "OR",
    "a OR OR b", "+", "-", "+-a", "--a", "a:b:c", ":", "a:", ":a", "\\", "a\\", "\\\\", "\"\\", "^2", "~2", "()", "( )",
    "(a", "a)", ")(", "title:(", "title:()", "* *", "*a", "a*", "title:*a", "title:* a", "title:*)", "NOTa", "NOT",
    "NOT NOT a", "a NOT b", "a\u{3000}b", "a\u{a0}AND\u{a0}b", "\u{feff}a", "a\0b", "title:\u{1F600}",
    "日本語 AND 東京", "field\\.with\\.dots:x", "js.a\\.b:x", "js:x", "js.:x", ".js:x", "js..a:x", "title:[a TO b ]",
    "title:[ a TO b]", "title:[a\\:b TO c]", "a AND\tb", "a\tAND b", "NOT\ta", "tag:[a TO]", "tag:[TO TO TO]",
    "title:{a TO b] OR u:<=7", "body:/a\\/b/", "body:/a/^2", "body:/a/)", "(body:/a/)", "//", "/", "a/b", "a /b/ c",
    "js.n:[1 TO 5]", "by:[aa TO bb]", "b:[false TO true]", "fa:[/a TO /b]", "d:2002-10-02T15:00:00Z", "ip:::1",
    "title:\"a b\"*~2", "title:\"a b\"~2*", "title:'a b'~2^3", "*^2", "(*)", "-*", "+*", "* -a", "title:a^2^3",
    "title : a", "title :a", "title: a", "title\t:\ta", "ti\\ tle:a", "-title:a", "+title:a", "\\-title:a",
    "1 TO 2", "TO", "IN", "IN []", "title: IN []", "title: IN [", "title: IN [a", "title: IN [a b ]", "title: IN [ a]",
    "title: IN ['a b' \"c d\" e\\ f]", "title: IN[a]", "title:IN [a]", "u: IN [1 2 x]", "u:-1", "u:1.5", "i:9223372036854775808",
    "d:9999-12-31T23:59:59Z", "d:0001-01-01T00:00:00Z", "d:[0001-01-01T00:00:00Z TO 9999-12-31T23:59:59Z]", "js.t:9999-12-31T23:59:59Z",
    "b:maybe", "ip:999.1.1.1", "by:!!!", "d:yesterday", "fa:notafacet", "f:nan", "f:inf", "f:-inf", "f:NaN", "js.n:nan",
];

const META: &[&str] = &[
    "+", "-", "(", ")", "[", "]", "{", "}", "\"", "'", ":", "^", "~", "*", "\\", "/", "<", ">", "=", "!", "`", " AND ", " OR ",
    "NOT ", " IN ", " TO ", "AND", "OR", "NOT", "IN", "TO", " ", "  ", "\t", "\n", "a", "b", "title", "u", "js.k", "1", "2.5",
    "-3", "^2", "~1", ">=", "<=", "IN [", "[* TO ", "\\\"", "\\ ", "\\:", "é", "東", "\u{1F600}", "\u{a0}", "\u{3000}", "\0",
];

fn random_char(rng: &mut Rng) -> char {
    match rng.weighted(&[30, 20, 6, 8, 8, 6, 6, 4, 6, 6]) {
        0 => (b'a' + rng.below(26) as u8) as char,
        1 => *rng.pick(&['+', '-', '(', ')', '[', ']', '{', '}', '"', '\'', ':', '^', '~', '*', '\\', '/', '<', '>', '=', '!', '`']),
        2 => (rng.below(0x20) as u8) as char,
        3 => (0x20 + rng.below(0x5f) as u8) as char,
        4 => char::from_u32(0xa0 + rng.below(0x160) as u32).unwrap_or('é'),
        5 => char::from_u32(0x4e00 + rng.below(0x5000) as u32).unwrap_or('東'),
        6 => char::from_u32(0x1f300 + rng.below(0x400) as u32).unwrap_or('x'),
        7 => *rng.pick(&['\u{a0}', '\u{3000}', '\u{2028}', '\u{2029}', '\u{85}', '\u{200b}', '\u{feff}', '\u{202e}', '\u{301}', '\u{7f}', '\u{1680}', '\u{2003}']),
        8 => *rng.pick(&[' ', ' ', '\t', '\n', '\r']),
        _ => loop {
            if let Some(c) = char::from_u32(rng.below(0x110000) as u32) {
                break c;
            }
        },
    }
}

fn random_valid(rng: &mut Rng) -> String {
    if rng.chance(1, 3) {
        rng.pick(SEEDS).to_string()
    } else {
        let w = World::new(rng);
        let d0 = if rng.bool() { 0 } else { 1 };
        let n = w.gen_node(rng, d0);
        print_query(&n, rng, PrintMode::Noisy)
    }
}

fn mutate(s: &str, rng: &mut Rng, n: usize) -> String {
    let mut cs: Vec<char> = s.chars().collect();
    for _ in 0..n {
        let len = cs.len();
        match rng.weighted(&[20, 20, 10, 10, 8, 8, 10, 8, 6]) {
            0 => {
                let p = rng.usize_below(len + 1);
                cs.insert(p, random_char(rng));
            }
            1 if len > 0 => {
                cs.remove(rng.usize_below(len));
            }
            2 if len > 0 => {
                let p = rng.usize_below(len);
                cs.insert(p, cs[p]);
            }
            3 if len > 1 => {
                let p = rng.usize_below(len - 1);
                cs.swap(p, p + 1);
            }
            4 if len > 1 => {
                // duplicate a span
                let a = rng.usize_below(len);
                let b = (a + rng.urange(1, 8)).min(len);
                let span: Vec<char> = cs[a..b].to_vec();
                let p = rng.usize_below(len + 1);
                for (k, c) in span.into_iter().enumerate() {
                    cs.insert(p + k, c);
                }
            }
            5 if len > 1 => {
                let a = rng.usize_below(len);
                let b = (a + rng.urange(1, 8)).min(len);
                cs.drain(a..b);
            }
            6 => {
                let p = rng.usize_below(len + 1);
                for (k, c) in rng.pick(META).chars().enumerate() {
                    cs.insert(p + k, c);
                }
            }
            7 if len > 0 => {
                let p = rng.usize_below(len);
                cs[p] = *rng.pick(&['(', ')', '"', '\'', '[', ']', '{', '}', '\\', ':', '*', '/', ' ', '-', '+']);
            }
            8 if len > 0 => {
                let p = rng.usize_below(len);
                cs.truncate(p);
            }
            _ => {}
        }
    }
    cs.into_iter().collect()
}

fn long_input(rng: &mut Rng, len: usize) -> String {
    let (unit, benign): (String, bool) = match rng.usize_below(12) {
        0 => ("a OR ".into(), true),
        1 => ("a AND b ".into(), true),
        2 => ("+a -b ".into(), true),
        3 => ("x".into(), true),
        4 => ("\"phrase words ".into(), true),
        5 => ("title:[a TO b] ".into(), true),
        6 => ("(a) ".into(), true),
        7 => ("a^2 ".into(), true),
        8 => ("title: IN [a b c] ".into(), true),
        9 => ("東京 ".into(), true),
        10 => ("\\".into(), true),
        _ => ((0..rng.urange(1, 6)).map(|_| random_char(rng)).collect(), false),
    };
    // random units can hit the quadratic field-name scan (operands separated by tabs or newlines
    // only): keep those short enough to finish in seconds
    let len = if benign { len } else { len.min(20_000) };
    let mut s = String::with_capacity(len + unit.len());
    while s.len() < len {
        s.push_str(&unit);
    }
    if rng.bool() {
        s.push_str(*rng.pick(&["a", "\"", ")", "]", " ", "*"]));
    }
    s
}

fn nested_input(rng: &mut Rng) -> String {
    let depth = *rng.pick(&[1usize, 2, 3, 8, 30, 100, 200]);
    let opens: &[(&str, &str)] = &[
        ("(", ")"), ("+(", ")"), ("-(", ")"), ("NOT ", ""), ("title:(", ")"), ("(", ")^2"), ("(a OR ", ")"),
        ("(a AND ", " b)"), ("(", ""), ("", ")"), ("\"", ""), ("[", "]"), ("((", ")"), ("NOT (", ")"), ("(-", ")"),
    ];
    let mixed = rng.bool();
    let fixed = *rng.pick(opens);
    let mut pre = String::new();
    let mut post = String::new();
    for _ in 0..depth {
        let (o, c) = if mixed { *rng.pick(opens) } else { fixed };
        pre.push_str(o);
        post.insert_str(0, c);
    }
    format!("{pre}{}{post}", rng.pick(&["a", "", "*", "title:a", "\"a b\"~1", "[a TO b]", "a b", " "]))
}

// ---------------------------------------------------------------------------------------------
// reserved words in literal positions (agreement stream)
//
// The family: a query in which a reserved word of the grammar (AND, OR, NOT, IN, TO) stands where
// a VALUE stands - as a quoted phrase, as the value of a field, as a set element, as a range bound,
// next to parentheses, occur markers, boosts and the real operators - in every quoting style, with
// and without a field prefix. Most of these are well-formed for the strict grammar (the quoted
// ones always are); the property then demands the same tree and no error from the lenient one.

pub const RW_KEYWORDS: &[&str] = &["AND", "OR", "NOT", "IN", "TO"];

pub const RW_STYLES: &[&str] = &[
    "double-quoted",
    "single-quoted",
    "double-quoted-with-escape",
    "single-quoted-with-escape",
    "bare",
    "bare-with-escape",
];

/// (label, prefix as written)
pub const RW_FIELDS: &[(&str, &str)] = &[
    ("no-field", ""),
    ("text", "title:"),
    ("text-blank-after-colon", "title: "),
    ("text-blank-before-colon", "title :"),
    ("string", "tag:"),
    ("json-path", "js.s:"),
    ("escaped-field-name", "k\\:v\\ x:"),
    ("unknown-field", "nofield:"),
];

/// what the slot `{}` of a context is for the grammar
#[derive(Clone, Copy, Debug, PartialEq, Eq)]
pub enum RwSlot {
    /// an operand of its own: carries the field prefix and may carry `*` / `~n`
    Operand,
    /// an operand inside `field:( ... )`: written without a field, `{F}` is the group's field
    GroupMember,
    /// an element of `field: IN [ ... ]`: no field, no suffix, `{F}` is the set's field
    SetElement,
    /// a bound of `field:[x TO y]` / `field:>=x`: a bare word, `{F}` is the range's field
    RangeBound,
}

/// (label, template, slot kind); `{}` = the reserved-word literal, `{F}` = a field prefix, a blank
/// = a place where the strict grammar wants whitespace (more of it is added as noise)
pub const RW_CONTEXTS: &[(&str, &str, RwSlot)] = &[
    ("alone", "{}", RwSlot::Operand),
    ("in-parentheses", "({})", RwSlot::Operand),
    ("in-parentheses-with-blanks", "( {} )", RwSlot::Operand),
    ("nested-parentheses", "(({}))", RwSlot::Operand),
    ("must", "+{}", RwSlot::Operand),
    ("must-then-term", "+{} a", RwSlot::Operand),
    ("must-not-after-term", "a -{}", RwSlot::Operand),
    ("after-NOT-keyword", "a NOT {}", RwSlot::Operand),
    ("NOT-keyword-first", "NOT {} a", RwSlot::Operand),
    ("after-term", "a {}", RwSlot::Operand),
    ("before-term", "{} a", RwSlot::Operand),
    ("between-terms", "a {} b", RwSlot::Operand),
    ("twice", "{} b {}", RwSlot::Operand),
    ("AND-right", "a AND {}", RwSlot::Operand),
    ("AND-left", "{} AND a", RwSlot::Operand),
    ("OR-right", "a OR {}", RwSlot::Operand),
    ("OR-left", "{} OR a", RwSlot::Operand),
    ("AND-NOT", "a AND NOT {}", RwSlot::Operand),
    ("AND-inside-OR", "a AND {} OR b", RwSlot::Operand),
    ("AND-with-must-not", "a AND -{}", RwSlot::Operand),
    ("clause-in-parentheses", "(a {})", RwSlot::Operand),
    ("parentheses-then-term", "({}) a", RwSlot::Operand),
    ("term-then-parentheses", "a ({})", RwSlot::Operand),
    ("must-parentheses", "+({} a)", RwSlot::Operand),
    ("must-not-parentheses", "a -({})", RwSlot::Operand),
    ("NOT-parentheses", "a NOT ({})", RwSlot::Operand),
    ("parentheses-AND-parentheses", "({}) AND (a OR {})", RwSlot::Operand),
    ("boosted", "{}^2", RwSlot::Operand),
    ("boosted-then-term", "{}^2 a", RwSlot::Operand),
    ("parentheses-boosted", "({})^2", RwSlot::Operand),
    ("boosted-clause", "(a {})^2 b", RwSlot::Operand),
    ("field-group", "{F}({})", RwSlot::GroupMember),
    ("field-group-with-blanks", "{F}( {} )", RwSlot::GroupMember),
    ("field-group-clause", "{F}(a {})", RwSlot::GroupMember),
    ("field-group-occurs", "{F}(+{} -a)", RwSlot::GroupMember),
    ("field-group-OR", "{F}(a OR {})", RwSlot::GroupMember),
    ("field-group-NOT", "{F}(a NOT {})", RwSlot::GroupMember),
    ("field-group-boosted-member", "{F}({}^2 a)", RwSlot::GroupMember),
    ("field-group-boosted", "{F}({})^2 a", RwSlot::GroupMember),
    ("field-group-nested-parentheses", "{F}((a) ({}))", RwSlot::GroupMember),
    ("set-single", "{F} IN [{}]", RwSlot::SetElement),
    ("set-first", "{F} IN [{} a]", RwSlot::SetElement),
    ("set-last", "{F} IN [a {}]", RwSlot::SetElement),
    ("set-middle", "{F} IN [a {} b]", RwSlot::SetElement),
    ("set-in-clause", "a {F} IN [{}] b", RwSlot::SetElement),
    ("range-lower", "{F}[{} TO b]", RwSlot::RangeBound),
    ("range-upper", "{F}{a TO {}}", RwSlot::RangeBound),
    ("range-both", "{F}[{} TO {}]", RwSlot::RangeBound),
    ("range-comparison", "{F}>={}", RwSlot::RangeBound),
    ("range-comparison-in-clause", "a {F}<{} b", RwSlot::RangeBound),
];

/// what stands between the delimiters
pub const RW_CONTENTS: &[&str] = &[
    "exact",
    "lower-case",
    "capitalised",
    "keyword-then-word",
    "word-then-keyword",
    "two-keywords",
    "blank-padded",
    "glued-to-a-word",
];

pub struct RwCase {
    pub input: String,
    pub keyword: &'static str,
    pub style: &'static str,
    pub field: &'static str,
    pub context: &'static str,
    pub content: &'static str,
    pub suffix: &'static str,
}

/// number of (keyword, style, field form, context) combinations: cases `0..rw_core_size()` walk
/// through all of them with the exact keyword, no suffix and single blanks; later cases walk
/// through them again with random content / suffix / whitespace
pub fn rw_core_size() -> u64 {
    (RW_KEYWORDS.len() * RW_STYLES.len() * RW_FIELDS.len() * RW_CONTEXTS.len()) as u64
}

fn rw_literal(text: &str, style: &str, slot: RwSlot, rng: &mut Rng) -> String {
    // a range bound is a bare word for both grammars (no quoting, no escaping)
    let style = if slot == RwSlot::RangeBound { "bare" } else { style };
    let with_escape = |body: String, rng: &mut Rng| -> String {
        // a backslash in front of one character that needs none
        let cs: Vec<char> = body.chars().collect();
        let letters: Vec<usize> = (0..cs.len()).filter(|k| cs[*k].is_ascii_alphabetic()).collect();
        if letters.is_empty() {
            return body;
        }
        let at = *rng.pick(&letters);
        let mut out = String::new();
        for (k, c) in cs.iter().enumerate() {
            if k == at {
                out.push('\\');
            }
            out.push(*c);
        }
        out
    };
    match style {
        "double-quoted" => format!("\"{text}\""),
        "single-quoted" => format!("'{text}'"),
        "double-quoted-with-escape" => format!("\"{}\"", with_escape(text.to_string(), rng)),
        "single-quoted-with-escape" => format!("'{}'", with_escape(text.to_string(), rng)),
        "bare" if slot == RwSlot::RangeBound => text.replace(' ', "_"),
        "bare" => bare_word(text, rng, PrintMode::Plain),
        _ => with_escape(bare_word(text, rng, PrintMode::Plain), rng),
    }
}

pub fn gen_reserved_word_query(case: u64, rng: &mut Rng) -> RwCase {
    let core = rw_core_size();
    let systematic = case < core;
    let mut k = (case % core) as usize;
    let mut digit = |n: usize| {
        let d = k % n;
        k /= n;
        d
    };
    // the context varies fastest: neighbouring cases differ in one dimension
    let (context, template, slot) = RW_CONTEXTS[digit(RW_CONTEXTS.len())];
    let (field, field_text) = RW_FIELDS[digit(RW_FIELDS.len())];
    let style = RW_STYLES[digit(RW_STYLES.len())];
    let keyword = RW_KEYWORDS[digit(RW_KEYWORDS.len())];
    let content = if systematic { "exact" } else { RW_CONTENTS[rng.weighted(&[6, 2, 1, 2, 2, 2, 1, 2])] };
    let suffix = if systematic || slot == RwSlot::SetElement || slot == RwSlot::RangeBound {
        ""
    } else {
        *rng.pick(&["", "", "", "*", "~1", "~0"])
    };
    let other = *rng.pick(RW_KEYWORDS);
    let text = match content {
        "exact" => keyword.to_string(),
        "lower-case" => keyword.to_ascii_lowercase(),
        "capitalised" => ascii_upper_first(&keyword.to_ascii_lowercase()),
        "keyword-then-word" => format!("{keyword} a"),
        "word-then-keyword" => format!("a {keyword}"),
        "two-keywords" => format!("{keyword} {other}"),
        "blank-padded" => format!(" {keyword} "),
        _ => format!("{keyword}x"),
    };
    // `{F}` of a group / set / range needs a field: the field-less form stands for `title:`
    let slot_field = if field_text.is_empty() { "title:" } else { field_text };
    let mut input = String::new();
    let mut rest = template;
    let mut prev_word = String::new();
    while let Some(c) = rest.chars().next() {
        if let Some(r) = rest.strip_prefix("{}") {
            if slot == RwSlot::Operand {
                input.push_str(field_text);
            }
            input.push_str(&rw_literal(&text, style, slot, rng));
            input.push_str(suffix);
            prev_word.clear();
            rest = r;
        } else if let Some(r) = rest.strip_prefix("{F}") {
            input.push_str(slot_field);
            prev_word.clear();
            rest = r;
        } else if c == ' ' {
            // the blank after an operator keyword is part of the operator
            let after_operator = matches!(prev_word.as_str(), "AND" | "OR" | "NOT");
            if systematic {
                input.push(' ');
            } else if after_operator {
                input.push(' ');
                input.push_str(&ws(rng, PrintMode::Noisy, false));
            } else {
                input.push_str(&ws(rng, PrintMode::Noisy, true));
            }
            prev_word.clear();
            rest = &rest[1..];
        } else {
            if c.is_ascii_alphabetic() {
                prev_word.push(c);
            } else {
                prev_word.clear();
            }
            input.push(c);
            rest = &rest[c.len_utf8()..];
        }
    }
    RwCase { input, keyword, style, field, context, content, suffix }
}

/// one case of the totality stream: (input class, inputs)
pub fn gen_total_inputs(case: u64, rng: &mut Rng, thorough: bool) -> (&'static str, Vec<String>) {
    match case % 12 {
        0 => {
            let n = if rng.chance(1, 10) { rng.urange(40, 300) } else { rng.urange(0, 40) };
            ("random-utf8", vec![(0..n).map(|_| random_char(rng)).collect()])
        }
        1 => {
            let n = rng.urange(0, 60);
            let mut bytes = rng.bytes(n);
            for b in bytes.iter_mut() {
                if rng.chance(1, 2) {
                    *b = *rng.pick(b"+-()[]{}\"':^~*\\/<>=! ANDORTIabct01");
                }
            }
            ("byte-soup-lossy", vec![String::from_utf8_lossy(&bytes).into_owned()])
        }
        2 => {
            let n = rng.urange(1, 14);
            let glue = *rng.pick(&["", "", " "]);
            ("metachar-soup", vec![(0..n).map(|_| *rng.pick(META)).collect::<Vec<_>>().join(glue)])
        }
        3 => ("valid-query", vec![random_valid(rng)]),
        4 => {
            let v = random_valid(rng);
            let n = rng.urange(1, 4);
            ("mutated-valid-query", vec![mutate(&v, rng, n)])
        }
        5 => {
            let v = random_valid(rng);
            let cs: Vec<char> = v.chars().collect();
            let total = cs.len();
            let mut out = vec![];
            let step = total.div_ceil(150).max(1);
            let mut k = 0;
            while k <= total {
                out.push(cs[..k].iter().collect::<String>());
                k += step;
            }
            ("every-prefix-of-valid-query", out)
        }
        6 => {
            let v = random_valid(rng);
            let mut cs: Vec<char> = v.chars().collect();
            let delims = ['(', ')', '"', '\'', '[', ']', '{', '}', '/'];
            let positions: Vec<usize> = cs.iter().enumerate().filter(|(_, c)| delims.contains(c)).map(|(i, _)| i).collect();
            if !positions.is_empty() && rng.chance(2, 3) {
                cs.remove(*rng.pick(&positions));
            } else {
                let p = rng.usize_below(cs.len() + 1);
                cs.insert(p, *rng.pick(&delims));
            }
            ("unbalanced-delimiters", vec![cs.into_iter().collect()])
        }
        7 => {
            let s = rng.pick(SEEDS).to_string();
            let n = rng.urange(0, 3);
            ("seed-list-mutation", vec![mutate(&s, rng, n)])
        }
        8 => {
            let long_p = if thorough { 100 } else { 10 };
            let len = if rng.chance(1, long_p) {
                if thorough && rng.chance(1, 20) { 1_000_000 } else { *rng.pick(&[10_000usize, 30_000, 100_000]) }
            } else {
                rng.urange(300, 3000)
            };
            ("long-input", vec![long_input(rng, len)])
        }
        9 => ("nesting<=200", vec![nested_input(rng)]),
        10 => {
            let a: Vec<char> = random_valid(rng).chars().collect();
            let b: Vec<char> = random_valid(rng).chars().collect();
            let pa = rng.usize_below(a.len() + 1);
            let pb = rng.usize_below(b.len() + 1);
            let s: String = a[..pa].iter().chain(b[pb..].iter()).collect();
            ("spliced-valid-queries", vec![s])
        }
        _ => {
            // keywords and separators with unusual whitespace
            let sp = |rng: &mut Rng| *rng.pick(&[" ", "\t", "\n", "\r\n", "  ", "\u{a0}", "\u{3000}", ""]);
            let kw = *rng.pick(&["AND", "OR", "NOT", "IN", "TO", "and", "And"]);
            let l = *rng.pick(&["a", "title:a", "\"a b\"", "(a)", "-a", "+a", "*", "[a", "title:[a"]);
            let r = *rng.pick(&["b", "title:b", "\"c\"", "(b)", "-b", "[b]", "b]", "*", ""]);
            let s = format!("{l}{}{kw}{}{r}", sp(rng), sp(rng));
            ("keyword-whitespace-variants", vec![s])
        }
    }
}
