//! C08 comparison of a real `Column<T>` / dictionary column with the `Vec<Vec<T>>` model.
use std::collections::BTreeSet;
use std::fmt::Debug;
use std::net::Ipv6Addr;

use serde_json::{json, Value as J};
use tantivy_columnar::column_index::{OptionalIndex, Set};
use tantivy_columnar::{
    BytesColumn, Cardinality, Column, ColumnBlockAccessor, ColumnIndex, DynamicColumn, NumericalType, StrColumn,
};
use tantivy_common::DateTime;
use tvmon::report::Report;
use tvmon::rng::Rng;

use super::{num_type_name, ColData, Num};

static BELOW_MIN_REPORTS: std::sync::atomic::AtomicUsize = std::sync::atomic::AtomicUsize::new(0);

pub trait Tv: Copy + PartialOrd + Debug + Send + Sync + 'static {
    const NAME: &'static str;
    fn same(&self, o: &Self) -> bool;
    /// total order key (for floats: the order-preserving bit map, so -0.0 < +0.0)
    fn key(&self) -> u128;
    fn js(&self) -> J;
    fn bounds() -> Vec<Self>;
}

impl Tv for u64 {
    const NAME: &'static str = "u64";
    fn same(&self, o: &Self) -> bool {
        self == o
    }
    fn key(&self) -> u128 {
        *self as u128
    }
    fn js(&self) -> J {
        json!(self)
    }
    fn bounds() -> Vec<Self> {
        vec![0, u64::MAX, 1, i64::MAX as u64]
    }
}
impl Tv for i64 {
    const NAME: &'static str = "i64";
    fn same(&self, o: &Self) -> bool {
        self == o
    }
    fn key(&self) -> u128 {
        ((*self as u64) ^ (1 << 63)) as u128
    }
    fn js(&self) -> J {
        json!(self)
    }
    fn bounds() -> Vec<Self> {
        vec![i64::MIN, i64::MAX, 0, -1]
    }
}
pub fn f64_key(f: f64) -> u64 {
    let b = f.to_bits();
    if b >> 63 == 0 {
        b ^ (1 << 63)
    } else {
        !b
    }
}
impl Tv for f64 {
    const NAME: &'static str = "f64";
    fn same(&self, o: &Self) -> bool {
        self.to_bits() == o.to_bits()
    }
    fn key(&self) -> u128 {
        f64_key(*self) as u128
    }
    fn js(&self) -> J {
        json!(format!("{:?}/{:#x}", self, self.to_bits()))
    }
    fn bounds() -> Vec<Self> {
        vec![f64::NEG_INFINITY, f64::INFINITY, 0.0, -0.0, f64::MIN, f64::MAX]
    }
}
impl Tv for bool {
    const NAME: &'static str = "bool";
    fn same(&self, o: &Self) -> bool {
        self == o
    }
    fn key(&self) -> u128 {
        *self as u128
    }
    fn js(&self) -> J {
        json!(self)
    }
    fn bounds() -> Vec<Self> {
        vec![false, true]
    }
}
impl Tv for DateTime {
    const NAME: &'static str = "date";
    fn same(&self, o: &Self) -> bool {
        self == o
    }
    fn key(&self) -> u128 {
        ((self.into_timestamp_nanos() as u64) ^ (1 << 63)) as u128
    }
    fn js(&self) -> J {
        json!(self.into_timestamp_nanos())
    }
    fn bounds() -> Vec<Self> {
        vec![
            DateTime::from_timestamp_nanos(i64::MIN),
            DateTime::from_timestamp_nanos(i64::MAX),
            DateTime::from_timestamp_nanos(0),
        ]
    }
}
impl Tv for Ipv6Addr {
    const NAME: &'static str = "ip";
    fn same(&self, o: &Self) -> bool {
        self == o
    }
    fn key(&self) -> u128 {
        u128::from(*self)
    }
    fn js(&self) -> J {
        json!(self.to_string())
    }
    fn bounds() -> Vec<Self> {
        vec![Ipv6Addr::from(0u128), Ipv6Addr::from(u128::MAX), Ipv6Addr::from(0xFFFF_0000_0000u128)]
    }
}

/// where a violation is reported: pipeline name + context for the witness
pub struct Ck<'a> {
    pub pipe: &'a str,
    pub col: &'a str,
    pub info: &'a J,
    /// extra prefix for the check name (e.g. "ords:")
    pub sub: &'a str,
}

impl Ck<'_> {
    pub fn viol(&self, rep: &mut Report, what: &str, ty: &str, extra: J) {
        rep.violation(
            format!("{}:{}{}:{}", self.pipe, self.sub, what, ty),
            json!({"column": self.col, "context": self.info, "mismatch": extra}),
        );
    }
}

fn js_list<T: Tv>(v: &[T]) -> J {
    let mut l: Vec<J> = v.iter().take(12).map(|x| x.js()).collect();
    if v.len() > 12 {
        l.push(json!(format!("... {} values", v.len())));
    }
    J::Array(l)
}

fn same_list<T: Tv>(a: &[T], b: &[T]) -> bool {
    a.len() == b.len() && a.iter().zip(b).all(|(x, y)| x.same(y))
}

/// sorted distinct docs: a contiguous run or a random sample, near block boundaries
pub fn pick_docs(rng: &mut Rng, n: usize, maxlen: usize) -> Vec<u32> {
    if n == 0 {
        return vec![];
    }
    let len = rng.urange(1, maxlen.min(n));
    if rng.bool() {
        // contiguous, start near an interesting boundary
        let mut starts = vec![0usize, n - len, rng.usize_below(n - len + 1)];
        for b in [64usize, 512, 5120, 65_536, 131_072] {
            if b < n {
                starts.push(b.saturating_sub(rng.usize_below(len + 1)).min(n - len));
            }
        }
        let s = *rng.pick(&starts);
        (s as u32..(s + len) as u32).collect()
    } else {
        let mut set = BTreeSet::new();
        for _ in 0..len {
            set.insert(rng.usize_below(n) as u32);
        }
        if rng.bool() {
            set.insert(0);
            set.insert(n as u32 - 1);
        }
        set.into_iter().collect()
    }
}

fn pick_doc_range(rng: &mut Rng, n: usize) -> std::ops::Range<u32> {
    if n == 0 || rng.chance(1, 2) {
        return 0..n as u32;
    }
    let mut pts = vec![0usize, n, rng.usize_below(n + 1), rng.usize_below(n + 1)];
    for b in [63usize, 64, 65, 512, 5120, 65_535, 65_536, 65_537, 131_072] {
        if b <= n {
            pts.push(b);
        }
    }
    let a = *rng.pick(&pts);
    let b = *rng.pick(&pts);
    let (a, b) = if a <= b { (a, b) } else { (b, a) };
    a as u32..b as u32
}

pub fn check_optional_index(
    ck: &Ck,
    oi: &OptionalIndex,
    counts: &[u32],
    rng: &mut Rng,
    rep: &mut Report,
    ty: &str,
) -> bool {
    let n = counts.len();
    let non_null: Vec<u32> = (0..n as u32).filter(|d| counts[*d as usize] > 0).collect();
    if oi.num_docs() as usize != n || oi.num_non_nulls() as usize != non_null.len() {
        ck.viol(
            rep,
            "optional_index_len",
            ty,
            json!({"num_docs": oi.num_docs(), "num_non_nulls": oi.num_non_nulls(), "expected": [n, non_null.len()]}),
        );
        return false;
    }
    let got: Vec<u32> = oi.iter_non_null_docs().collect();
    if got != non_null {
        let pos = got.iter().zip(&non_null).position(|(a, b)| a != b).unwrap_or(got.len().min(non_null.len()));
        ck.viol(
            rep,
            "optional_index_iter",
            ty,
            json!({"first_diff_at": pos, "got": got.get(pos), "expected": non_null.get(pos), "got_len": got.len(), "expected_len": non_null.len()}),
        );
        return false;
    }
    // prefix counts
    let mut pref = Vec::with_capacity(n + 1);
    let mut acc = 0u32;
    for c in counts {
        pref.push(acc);
        if *c > 0 {
            acc += 1;
        }
    }
    pref.push(acc);
    let mut probes: Vec<usize> = (0..60).map(|_| rng.usize_below(n.max(1))).collect();
    for b in [0usize, 1, 63, 64, 65, 127, 128, 511, 512, 5119, 5120, 65_535, 65_536, 65_537, 131_071, 131_072] {
        if b < n {
            probes.push(b);
        }
    }
    if n > 0 {
        probes.push(n - 1);
    }
    // also around non-null docs
    for _ in 0..30 {
        if !non_null.is_empty() {
            let d = *rng.pick(&non_null) as usize;
            probes.push(d);
            if d + 1 < n {
                probes.push(d + 1);
            }
            if d > 0 {
                probes.push(d - 1);
            }
        }
    }
    for d in probes {
        if d >= n {
            continue;
        }
        let has = counts[d] > 0;
        let c = oi.contains(d as u32);
        let r = oi.rank(d as u32);
        let rie = oi.rank_if_exists(d as u32);
        let exp_rie = if has { Some(pref[d]) } else { None };
        if c != has || r != pref[d] || rie != exp_rie {
            ck.viol(
                rep,
                "optional_index_rank",
                ty,
                json!({"doc": d, "contains": c, "rank": r, "rank_if_exists": rie, "expected_contains": has, "expected_rank": pref[d]}),
            );
            return false;
        }
    }
    let r_end = oi.rank(n as u32);
    if r_end as usize != non_null.len() {
        ck.viol(rep, "optional_index_rank", ty, json!({"doc": n, "rank": r_end, "expected_rank": non_null.len()}));
        return false;
    }
    if !non_null.is_empty() {
        let k = non_null.len();
        let mut ranks: BTreeSet<u32> = (0..40).map(|_| rng.usize_below(k) as u32).collect();
        ranks.insert(0);
        ranks.insert(k as u32 - 1);
        for b in [63u32, 64, 5119, 5120, 65_535, 65_536] {
            if (b as usize) < k {
                ranks.insert(b);
            }
        }
        for &r in &ranks {
            let s = oi.select(r);
            if s != non_null[r as usize] {
                ck.viol(rep, "optional_index_select", ty, json!({"rank": r, "got": s, "expected": non_null[r as usize]}));
                return false;
            }
        }
        let mut batch: Vec<u32> = ranks.iter().copied().collect();
        let exp: Vec<u32> = batch.iter().map(|r| non_null[*r as usize]).collect();
        oi.select_batch(&mut batch);
        if batch != exp {
            ck.viol(rep, "optional_index_select_batch", ty, json!({"got": batch, "expected": exp}));
            return false;
        }
    }
    true
}

/// Compares everything the statement mentions for one typed column.
pub fn check_column<T: Tv>(ck: &Ck, col: &Column<T>, exp: &[Vec<T>], rng: &mut Rng, rep: &mut Report) -> bool {
    let ty = T::NAME;
    let n = exp.len();
    let got_n = col.num_docs() as usize;
    if got_n != n {
        ck.viol(rep, "num_docs", ty, json!({"got": got_n, "expected": n}));
        return false;
    }
    let counts: Vec<u32> = exp.iter().map(|r| r.len() as u32).collect();
    let total: usize = counts.iter().map(|c| *c as usize).sum();
    let card = col.get_cardinality();
    let all_one = counts.iter().all(|&c| c == 1);
    let all_le1 = counts.iter().all(|&c| c <= 1);
    let consistent = match card {
        Cardinality::Full => all_one,
        Cardinality::Optional => all_le1,
        Cardinality::Multivalued => true,
    };
    if !consistent {
        ck.viol(
            rep,
            "cardinality",
            ty,
            json!({"reported": card.to_string(), "max_values_per_row": counts.iter().max(), "min_values_per_row": counts.iter().min()}),
        );
        return false;
    }
    let minimal = if all_one {
        Cardinality::Full
    } else if all_le1 {
        Cardinality::Optional
    } else {
        Cardinality::Multivalued
    };
    rep.observe("cardinality reported/minimal", format!("{}:{card}/{minimal}", ck.pipe));
    let nv = col.values.num_vals() as usize;
    if nv != total {
        ck.viol(rep, "num_vals", ty, json!({"got": nv, "expected": total}));
        return false;
    }
    // every document
    let mut buf: Vec<T> = Vec::new();
    for doc in 0..n {
        buf.clear();
        buf.extend(col.values_for_doc(doc as u32));
        let e = &exp[doc];
        if !same_list(&buf, e) {
            ck.viol(rep, "values_for_doc", ty, json!({"doc": doc, "got": js_list(&buf), "expected": js_list(e), "num_docs": n}));
            return false;
        }
        let f = col.first(doc as u32);
        let ok = match (f, e.first()) {
            (None, None) => true,
            (Some(a), Some(b)) => a.same(b),
            _ => false,
        };
        if !ok {
            ck.viol(rep, "first", ty, json!({"doc": doc, "got": f.map(|x| x.js()), "expected": e.first().map(|x| x.js())}));
            return false;
        }
        if col.index.has_value(doc as u32) != !e.is_empty() {
            ck.viol(rep, "has_value", ty, json!({"doc": doc, "expected": !e.is_empty()}));
            return false;
        }
    }
    rep.count("docs_compared", n as u64);
    rep.count("values_compared", total as u64);
    let flat: Vec<T> = exp.iter().flatten().copied().collect();
    // min / max bound all values
    if total > 0 {
        let mn = col.min_value();
        let mx = col.max_value();
        let mut tmin = false;
        let mut tmax = false;
        for v in &flat {
            if *v < mn || *v > mx {
                ck.viol(rep, "min_max_bound", ty, json!({"min_value": mn.js(), "max_value": mx.js(), "value": v.js()}));
                return false;
            }
            tmin |= v.key() == mn.key();
            tmax |= v.key() == mx.key();
        }
        rep.observe("min/max tight", format!("{}:{}", ck.pipe, tmin && tmax));
    }
    // dense value accessors
    {
        let it: Vec<T> = col.values.iter().collect();
        if !same_list(&it, &flat) {
            let pos = it.iter().zip(&flat).position(|(a, b)| !a.same(b));
            ck.viol(rep, "values_iter", ty, json!({"first_diff_at": pos, "got_len": it.len(), "expected_len": flat.len()}));
            return false;
        }
    }
    if total > 0 {
        for _ in 0..4 {
            let len = rng.urange(1, total.min(700));
            let mut starts = vec![0usize, total - len, rng.usize_below(total - len + 1)];
            for b in [512usize, 1024, 65_536] {
                if b < total {
                    starts.push(b.saturating_sub(rng.usize_below(len + 1)).min(total - len));
                }
            }
            let s = *rng.pick(&starts);
            let mut out = vec![flat[0]; len];
            col.values.get_range(s as u64, &mut out);
            if !same_list(&out, &flat[s..s + len]) {
                let pos = out.iter().zip(&flat[s..s + len]).position(|(a, b)| !a.same(b)).unwrap_or(0);
                ck.viol(
                    rep,
                    "get_range",
                    ty,
                    json!({"start": s, "len": len, "first_diff_at": s + pos, "got": out[pos].js(), "expected": flat[s + pos].js()}),
                );
                return false;
            }
            let idx: Vec<u32> = (0..rng.urange(1, 70)).map(|_| rng.usize_below(total) as u32).collect();
            let mut out = vec![flat[0]; idx.len()];
            col.values.get_vals(&idx, &mut out);
            let e: Vec<T> = idx.iter().map(|i| flat[*i as usize]).collect();
            if !same_list(&out, &e) {
                ck.viol(rep, "get_vals", ty, json!({"indexes": idx, "got": js_list(&out), "expected": js_list(&e)}));
                return false;
            }
        }
    }
    // batch doc accessors
    if n > 0 {
        for _ in 0..3 {
            let docs = pick_docs(rng, n, 130);
            let mut out: Vec<Option<T>> = vec![None; docs.len()];
            col.first_vals(&docs, &mut out);
            for (i, d) in docs.iter().enumerate() {
                let e = exp[*d as usize].first();
                let ok = match (out[i], e) {
                    (None, None) => true,
                    (Some(a), Some(b)) => a.same(b),
                    _ => false,
                };
                if !ok {
                    ck.viol(rep, "first_vals", ty, json!({"doc": d, "got": out[i].map(|x| x.js()), "expected": e.map(|x| x.js())}));
                    return false;
                }
            }
            let mut docs_out = vec![];
            let mut rows_out = vec![];
            col.row_ids_for_docs(&docs, &mut docs_out, &mut rows_out);
            let got_vals: Vec<T> = rows_out.iter().map(|r| col.values.get_val(*r)).collect();
            let mut e_docs = vec![];
            let mut e_vals = vec![];
            for d in &docs {
                for v in &exp[*d as usize] {
                    e_docs.push(*d);
                    e_vals.push(*v);
                }
            }
            if docs_out != e_docs || !same_list(&got_vals, &e_vals) {
                ck.viol(rep, "row_ids_for_docs", ty, json!({"docs": docs, "docs_out_len": docs_out.len(), "expected_len": e_docs.len()}));
                return false;
            }
        }
    }
    // value-range lookups
    {
        let mut pool: Vec<T> = T::bounds();
        for _ in 0..10 {
            if !flat.is_empty() {
                pool.push(*rng.pick(&flat));
            }
        }
        if total > 0 {
            pool.push(col.min_value());
            pool.push(col.max_value());
        }
        let q = if n < 6000 { 7 } else { 3 };
        for qi in 0..q {
            let a = *rng.pick(&pool);
            let b = if qi == 0 && !flat.is_empty() { a } else { *rng.pick(&pool) };
            // mostly well-formed ranges; one in eight is reversed (= empty)
            let (lo, hi) = if a.key() <= b.key() || rng.chance(1, 8) { (a, b) } else { (b, a) };
            let dr = pick_doc_range(rng, n);
            let mut got: Vec<u32> = vec![];
            col.get_docids_for_value_range(lo..=hi, dr.clone(), &mut got);
            // membership by the language's `RangeInclusive::contains` and by the total order
            let mut e1: Vec<u32> = vec![];
            let mut e2: Vec<u32> = vec![];
            for d in dr.clone() {
                let r = &exp[d as usize];
                if r.iter().any(|v| lo <= *v && *v <= hi) {
                    e1.push(d);
                }
                if r.iter().any(|v| lo.key() <= v.key() && v.key() <= hi.key()) {
                    e2.push(d);
                }
            }
            if e1 != e2 {
                rep.observe("f64 range with a zero bound (either order accepted)", ck.pipe.to_string());
            }
            rep.count("range_lookups", 1);
            if !got.is_empty() && got.len() < (dr.end - dr.start) as usize {
                rep.count("range_lookups_selective", 1);
            }
            if got != e1 && got != e2 && total > 0 && hi.key() < col.min_value().key() {
                // Known defect class (kept under its own signature): a range that lies entirely
                // below the column minimum returns the rows holding the minimum, because the
                // bit-packed codec shifts both bounds with `saturating_sub(min_value)`.
                let mn = col.min_value();
                let e_min: Vec<u32> =
                    dr.clone().filter(|d| exp[*d as usize].iter().any(|v| v.key() == mn.key())).collect();
                if got == e_min {
                    rep.count("range_below_min_defect_occurrences", 1);
                    if BELOW_MIN_REPORTS.fetch_add(1, std::sync::atomic::Ordering::Relaxed) < 12 {
                        rep.violation(
                            "range_docids:range-entirely-below-column-min-returns-rows-holding-min",
                            json!({"pipe": ck.pipe, "type": ty, "column": ck.col, "lo": lo.js(), "hi": hi.js(), "column_min_value": mn.js(),
                                   "doc_range": [dr.start, dr.end], "got_docs": got.iter().take(8).collect::<Vec<_>>(), "got_len": got.len(), "expected_len": 0,
                                   "values_of_first_returned_doc": got.first().map(|d| js_list(&exp[*d as usize])), "context": ck.info}),
                        );
                    }
                    continue;
                }
            }
            if got != e1 && got != e2 {
                let mut s = got.clone();
                s.sort_unstable();
                s.dedup();
                let what = if s == e1 || s == e2 { "range_docids_order_or_dup" } else { "range_docids" };
                let miss: Vec<&u32> = e2.iter().filter(|d| !got.contains(d)).take(5).collect();
                let extra: Vec<&u32> = got.iter().filter(|d| !e2.contains(d)).take(5).collect();
                ck.viol(
                    rep,
                    what,
                    ty,
                    json!({"lo": lo.js(), "hi": hi.js(), "doc_range": [dr.start, dr.end], "got_len": got.len(), "expected_len": e2.len(),
                           "missing_docs": miss, "unexpected_docs": extra,
                           "values_of_first_missing": miss.first().map(|d| js_list(&exp[**d as usize])),
                           "values_of_first_unexpected": extra.first().map(|d| js_list(&exp[**d as usize]))}),
                );
                return false;
            }
        }
    }
    // the row -> value index itself
    match &col.index {
        ColumnIndex::Optional(oi) => {
            if !check_optional_index(ck, oi, &counts, rng, rep, ty) {
                return false;
            }
        }
        ColumnIndex::Multivalued(mv) => {
            let got: Vec<u32> = mv.iter_non_null_docs().collect();
            let e: Vec<u32> = (0..n as u32).filter(|d| counts[*d as usize] > 0).collect();
            if got != e || mv.num_docs() as usize != n {
                ck.viol(rep, "multivalued_non_null_docs", ty, json!({"got_len": got.len(), "expected_len": e.len(), "num_docs": mv.num_docs()}));
                return false;
            }
        }
        _ => {}
    }
    true
}

/// `ColumnBlockAccessor` (used by collectors and aggregations) over the same column
pub fn check_block_accessor<T: Tv + Default>(ck: &Ck, col: &Column<T>, exp: &[Vec<T>], rng: &mut Rng, rep: &mut Report) -> bool {
    let n = exp.len();
    if n == 0 {
        return true;
    }
    let ty = T::NAME;
    let mut acc = ColumnBlockAccessor::<T>::default();
    for round in 0..3 {
        let docs = pick_docs(rng, n, 200);
        let mut e: Vec<(u32, T)> = vec![];
        for d in &docs {
            for v in &exp[*d as usize] {
                e.push((*d, *v));
            }
        }
        acc.fetch_block(&docs, col);
        let got: Vec<(u32, T)> = acc.iter_docid_vals(&docs, col).collect();
        let ok = got.len() == e.len() && got.iter().zip(&e).all(|(a, b)| a.0 == b.0 && a.1.same(&b.1));
        if !ok {
            ck.viol(rep, "block_accessor", ty, json!({"docs_len": docs.len(), "got_len": got.len(), "expected_len": e.len()}));
            return false;
        }
        if round == 0 {
            if let Some(missing) = exp.iter().flatten().next().copied() {
                acc.fetch_block_with_missing(&docs, col, Some(missing));
                let mut got: Vec<(u32, T)> = acc.iter_docid_vals(&docs, col).collect();
                got.sort_by_key(|x| x.0);
                let mut e2: Vec<(u32, T)> = vec![];
                for d in &docs {
                    if exp[*d as usize].is_empty() {
                        e2.push((*d, missing));
                    }
                    for v in &exp[*d as usize] {
                        e2.push((*d, *v));
                    }
                }
                let ok = got.len() == e2.len() && got.iter().zip(&e2).all(|(a, b)| a.0 == b.0 && a.1.same(&b.1));
                if !ok {
                    ck.viol(rep, "block_accessor_missing", ty, json!({"docs_len": docs.len(), "got_len": got.len(), "expected_len": e2.len()}));
                    return false;
                }
            }
        }
    }
    true
}

pub enum DictMode<'a> {
    /// the dictionary is exactly the set of values of the rows
    Exact,
    /// the dictionary holds every value of the rows and nothing outside `allowed`
    Within(&'a BTreeSet<Vec<u8>>),
}

/// dictionary-encoded column: sorted dictionary, ordinals, ord -> term, term -> ord
pub fn check_dict_column(
    ck: &Ck,
    bc: &BytesColumn,
    sc: Option<&StrColumn>,
    exp: &[Vec<Vec<u8>>],
    mode: DictMode,
    rng: &mut Rng,
    rep: &mut Report,
) -> bool {
    let ty = if sc.is_some() { "str" } else { "bytes" };
    if bc.num_rows() as usize != exp.len() {
        ck.viol(rep, "num_rows", ty, json!({"got": bc.num_rows(), "expected": exp.len()}));
        return false;
    }
    let mut terms: Vec<Vec<u8>> = vec![];
    match bc.dictionary().stream() {
        Ok(mut s) => {
            while s.advance() {
                terms.push(s.key().to_vec());
            }
        }
        Err(e) => {
            ck.viol(rep, "api-error:dictionary.stream", ty, json!(e.to_string()));
            return false;
        }
    }
    if terms.len() != bc.num_terms() {
        ck.viol(rep, "dict_num_terms", ty, json!({"streamed": terms.len(), "num_terms": bc.num_terms()}));
        return false;
    }
    if let Some(i) = terms.windows(2).position(|w| w[0] >= w[1]) {
        ck.viol(rep, "dict_sorted", ty, json!({"at_ord": i, "a": format!("{:?}", &terms[i]), "b": format!("{:?}", &terms[i + 1])}));
        return false;
    }
    let used: BTreeSet<&Vec<u8>> = exp.iter().flatten().collect();
    for t in &used {
        if terms.binary_search(t).is_err() {
            ck.viol(rep, "dict_missing_term", ty, json!({"term": format!("{:?}", String::from_utf8_lossy(t))}));
            return false;
        }
    }
    match mode {
        DictMode::Exact => {
            if terms.len() != used.len() {
                let extra = terms.iter().find(|t| !used.contains(t));
                ck.viol(rep, "dict_extra_term", ty, json!({"dict_len": terms.len(), "distinct_values": used.len(), "extra": extra.map(|t| format!("{:?}", String::from_utf8_lossy(t)))}));
                return false;
            }
        }
        DictMode::Within(allowed) => {
            if let Some(t) = terms.iter().find(|t| !allowed.contains(*t)) {
                ck.viol(rep, "dict_invented_term", ty, json!({"term": format!("{:?}", String::from_utf8_lossy(t))}));
                return false;
            }
            rep.observe("merged dictionary keeps unused terms", format!("{}", terms.len() != used.len()));
        }
    }
    rep.observe("dictionary size class", super::size_class(terms.len()));
    // expected ordinals from the real dictionary order
    let exp_ords: Vec<Vec<u64>> = exp
        .iter()
        .map(|r| r.iter().map(|t| terms.binary_search(t).unwrap() as u64).collect())
        .collect();
    let sub = format!("{}ords:", ck.sub);
    let ck2 = Ck { pipe: ck.pipe, col: ck.col, info: ck.info, sub: &sub };
    if !check_column::<u64>(&ck2, bc.ords(), &exp_ords, rng, rep) {
        return false;
    }
    // term_ords accessor on a few rows
    for _ in 0..20 {
        if exp.is_empty() {
            break;
        }
        let d = rng.usize_below(exp.len());
        let got: Vec<u64> = bc.term_ords(d as u32).collect();
        if got != exp_ords[d] {
            ck.viol(rep, "term_ords", ty, json!({"doc": d, "got": got, "expected": exp_ords[d]}));
            return false;
        }
    }
    // ord -> term for every (or a sample of the) ordinal(s), and back
    let nt = terms.len();
    let ords: Vec<usize> = if nt <= 3000 {
        (0..nt).collect()
    } else {
        let mut v: Vec<usize> = (0..1500).map(|_| rng.usize_below(nt)).collect();
        v.push(0);
        v.push(nt - 1);
        v
    };
    let mut b = Vec::new();
    let mut s = String::new();
    for o in ords {
        b.clear();
        match bc.ord_to_bytes(o as u64, &mut b) {
            Ok(true) if b == terms[o] => {}
            other => {
                ck.viol(rep, "ord_to_bytes", ty, json!({"ord": o, "result": format!("{other:?}"), "got": format!("{:?}", String::from_utf8_lossy(&b)), "expected": format!("{:?}", String::from_utf8_lossy(&terms[o]))}));
                return false;
            }
        }
        if let Some(sc) = sc {
            s.clear();
            match sc.ord_to_str(o as u64, &mut s) {
                Ok(true) if s.as_bytes() == &terms[o][..] => {}
                other => {
                    ck.viol(rep, "ord_to_str", ty, json!({"ord": o, "result": format!("{other:?}"), "got": s}));
                    return false;
                }
            }
        }
        match bc.dictionary().term_ord(&terms[o]) {
            Ok(Some(x)) if x == o as u64 => {}
            other => {
                ck.viol(rep, "term_ord", ty, json!({"term_ord_of_ord": o, "result": format!("{other:?}")}));
                return false;
            }
        }
    }
    b.clear();
    match bc.ord_to_bytes(nt as u64, &mut b) {
        Ok(false) => {}
        other => {
            ck.viol(rep, "ord_to_bytes_past_end", ty, json!({"ord": nt, "result": format!("{other:?}")}));
            return false;
        }
    }
    // a term that is absent
    let mut absent = terms.last().cloned().unwrap_or_default();
    absent.extend_from_slice(b"\x01absent");
    if let Ok(Some(o)) = bc.dictionary().term_ord(&absent) {
        ck.viol(rep, "term_ord_absent", ty, json!({"got_ord": o}));
        return false;
    }
    true
}

fn num_rows_typed<T>(rows: &[Vec<Num>], f: impl Fn(Num) -> Option<T>) -> Option<Vec<Vec<T>>> {
    rows.iter().map(|r| r.iter().map(|v| f(*v)).collect::<Option<Vec<T>>>()).collect()
}

/// Checks an opened dynamic column against model data. Numeric model rows must already be
/// coerced to `num_ty`. Returns false after reporting a violation.
pub fn check_dynamic(
    ck: &Ck,
    dc: &DynamicColumn,
    exp: &ColData,
    dict_mode: DictMode,
    rng: &mut Rng,
    rep: &mut Report,
) -> bool {
    match (dc, exp) {
        (DynamicColumn::I64(c), ColData::Num(rows)) => match num_rows_typed(rows, |v| if let Num::I(x) = v { Some(x) } else { None }) {
            Some(e) => check_column(ck, c, &e, rng, rep) && check_block_accessor(ck, c, &e, rng, rep),
            None => type_mismatch(ck, rep, "i64", rows),
        },
        (DynamicColumn::U64(c), ColData::Num(rows)) => match num_rows_typed(rows, |v| if let Num::U(x) = v { Some(x) } else { None }) {
            Some(e) => check_column(ck, c, &e, rng, rep) && check_block_accessor(ck, c, &e, rng, rep),
            None => type_mismatch(ck, rep, "u64", rows),
        },
        (DynamicColumn::F64(c), ColData::Num(rows)) => match num_rows_typed(rows, |v| if let Num::F(x) = v { Some(x) } else { None }) {
            Some(e) => check_column(ck, c, &e, rng, rep) && check_block_accessor(ck, c, &e, rng, rep),
            None => type_mismatch(ck, rep, "f64", rows),
        },
        (DynamicColumn::Bool(c), ColData::Bool(rows)) => check_column(ck, c, rows, rng, rep) && check_block_accessor(ck, c, rows, rng, rep),
        (DynamicColumn::DateTime(c), ColData::Date(rows)) => {
            let e: Vec<Vec<DateTime>> = rows.iter().map(|r| r.iter().map(|x| DateTime::from_timestamp_nanos(*x)).collect()).collect();
            check_column(ck, c, &e, rng, rep) && check_block_accessor(ck, c, &e, rng, rep)
        }
        (DynamicColumn::IpAddr(c), ColData::Ip(rows)) => {
            let e: Vec<Vec<Ipv6Addr>> = rows.iter().map(|r| r.iter().map(|x| Ipv6Addr::from(*x)).collect()).collect();
            check_column(ck, c, &e, rng, rep)
        }
        (DynamicColumn::Str(c), ColData::Str(rows)) => {
            let e: Vec<Vec<Vec<u8>>> = rows.iter().map(|r| r.iter().map(|s| s.as_bytes().to_vec()).collect()).collect();
            check_dict_column(ck, c, Some(c), &e, dict_mode, rng, rep)
        }
        (DynamicColumn::Bytes(c), ColData::Bytes(rows)) => check_dict_column(ck, c, None, rows, dict_mode, rng, rep),
        _ => {
            ck.viol(rep, "column_type", exp.cat().name(), json!({"opened_as": dc.column_type().to_string()}));
            false
        }
    }
}

fn type_mismatch(ck: &Ck, rep: &mut Report, opened: &str, rows: &[Vec<Num>]) -> bool {
    let first = rows.iter().flatten().next();
    ck.viol(rep, "numeric_type", opened, json!({"opened_as": opened, "model_first_value": format!("{first:?}")}));
    false
}

pub fn num_variant_type(rows: &[Vec<Num>]) -> Option<NumericalType> {
    rows.iter().flatten().next().map(|v| match v {
        Num::I(_) => NumericalType::I64,
        Num::U(_) => NumericalType::U64,
        Num::F(_) => NumericalType::F64,
    })
}

pub fn dyn_type_name(dc: &DynamicColumn) -> String {
    dc.column_type().to_string()
}

#[allow(dead_code)]
pub fn nt_name(t: NumericalType) -> &'static str {
    num_type_name(t)
}
