#!/bin/bash
# For every `fixed:` entry of known_findings.txt: revert that fix on a scratch copy of /repo
# (never /repo itself) and run the property's check - the defect the fix removed must be reported
# again. Output: seeded/reverts.txt   (one line per fix: caught / MISSED / not-applicable)
#   scripts/fix_reverts.sh [tier] [only-commit-prefix]
tier=${1:-quick}; only=${2:-}
export MUT_ROOT=${MUT_ROOT:-/tmp/mutr}
out=/verif/seeded/reverts.txt
tmp=$(mktemp -d /tmp/reverts-XXXX)
: > $tmp/out
grep "^fixed:" /verif/known_findings.txt | while read -r _ prop commit rest; do
  id=${prop#property=}
  [ -n "$only" ] && [[ "$commit" != $only* ]] && continue
  if ! git -C /repo cat-file -e "$commit" 2>/dev/null; then echo "skip    $id $commit (unknown commit)" >> $tmp/out; continue; fi
  git -C /repo diff "$commit" "$commit~1" > $tmp/$commit.diff
  if ! git -C /repo apply --check $tmp/$commit.diff 2>/dev/null; then
    echo "n/a     $id $commit revert does not apply on HEAD (later fix touches the same lines)" >> $tmp/out; continue
  fi
  # the property's own check first, then the other checks the entry names ("also reported by Cxx")
  others=$(echo "$rest" | grep -oE "\bC[0-9]{2}\b" | grep -v "^$id$" | sort -u | tr '\n' ' ')
  verdict=""
  for cid in $id $others; do
    res=$(/verif/scripts/mutant_run.sh $tmp/$commit.diff $cid $tier 2>&1)
    if echo "$res" | grep -q "^VIOLATION property=$cid"; then
      sig=$(echo "$res" | grep -m1 "violation sig=" | sed -E 's/.*violation sig=([^ ]+).*/\1/' | cut -c1-120)
      verdict="caught  $id $commit by $cid:$sig"; break
    elif echo "$res" | grep -q "MUTANT BUILD FAILED"; then
      verdict="n/a     $id $commit reverted tree does not build"; break
    fi
  done
  [ -z "$verdict" ] && verdict="MISSED  $id $commit (checks tried: $id $others) [$(echo "$res" | grep -E "verdict=" | tail -1 | cut -c1-120)] ${rest:0:100}"
  echo "$verdict" >> $tmp/out
  tail -1 $tmp/out
done
if [ -z "$only" ]; then { echo "# reverting each fix: commit of /repo, check that reports the defect again ($tier tier, $(date -u +%F) HEAD $(git -C /repo rev-parse --short HEAD))"; cat $tmp/out; } > $out; fi
rm -rf $tmp
