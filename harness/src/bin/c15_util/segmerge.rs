// tantivy segment merge stream (included into c15.rs): reaches termdict mergers and the
// columnar dictionary merge through IndexWriter::merge

use tantivy::indexer::NoMergePolicy;
use tantivy::schema::{Schema, FAST, STRING, TEXT};
use tantivy::{Index, IndexWriter, TantivyDocument};

struct SegDoc {
    id: u64,
    tokens: Vec<usize>,
    svals: Vec<usize>,
}

const UNI: &[&str] = &["a", "é", "ß", "中", "𝄞", "z", "0", " ", "A", "-"];

fn segmerge_case(case: u64, rng: &mut Rng, rep: &mut Report) {
    let mut sb = Schema::builder();
    let f_id = sb.add_u64_field("id", FAST);
    let f_t = sb.add_text_field("t", TEXT);
    let f_s = sb.add_text_field("s", STRING | FAST);
    let schema = sb.build();
    let index = Index::create_in_ram(schema);
    let mut writer: IndexWriter<TantivyDocument> = match index.writer_with_num_threads(1, 15_000_000) {
        Ok(w) => w,
        Err(e) => {
            viol(rep, "segmerge:api-error:writer", json!(e.to_string()));
            return;
        }
    };
    writer.set_merge_policy(Box::new(NoMergePolicy));
    // vocabularies: lowercase ascii words (the default tokenizer provably yields them) and
    // arbitrary non-empty UTF-8 strings for the raw STRING|FAST field
    let nvocab = *rng.pick(&[3usize, 40, 300, 700]);
    let mut vocab = BTreeSet::new();
    for _ in 0..nvocab * 3 {
        if vocab.len() >= nvocab {
            break;
        }
        vocab.insert(String::from_utf8(word(rng, 5)).expect("c15 harness: ascii"));
    }
    let vocab: Vec<String> = vocab.into_iter().collect();
    let nsv = *rng.pick(&[2usize, 30, 300, 600]);
    let mut svocab = BTreeSet::new();
    for _ in 0..nsv * 3 {
        if svocab.len() >= nsv {
            break;
        }
        let l = *rng.pick(&[1usize, 2, 5, 17, 60]);
        let mut s = String::new();
        for _ in 0..rng.urange(1, l) {
            s.push_str(*rng.pick(UNI));
        }
        svocab.insert(s);
    }
    let svocab: Vec<String> = svocab.into_iter().collect();
    let nseg = rng.urange(2, 6);
    let mut docs: Vec<SegDoc> = vec![];
    let mut next_id = 0u64;
    let multi_s = rng.chance(1, 3);
    for seg in 0..nseg {
        let ndocs = *rng.pick(&[1usize, 5, 40, 150]);
        // each segment prefers its own slice of the vocabularies, with overlap
        let slice = |rng: &mut Rng, n: usize| -> usize {
            if rng.bool() {
                rng.usize_below(n)
            } else {
                (rng.usize_below(n.div_ceil(nseg)) + seg * n / nseg).min(n - 1)
            }
        };
        for _ in 0..ndocs {
            let nt = rng.urange(0, 12);
            let tokens: Vec<usize> = (0..nt).map(|_| slice(rng, vocab.len())).collect();
            let ns = if multi_s { rng.urange(0, 3) } else { rng.urange(0, 1) };
            let svals: Vec<usize> = (0..ns).map(|_| slice(rng, svocab.len())).collect();
            let mut d = TantivyDocument::default();
            d.add_u64(f_id, next_id);
            d.add_text(f_t, tokens.iter().map(|&t| vocab[t].as_str()).collect::<Vec<_>>().join(" "));
            for &s in &svals {
                d.add_text(f_s, &svocab[s]);
            }
            if let Err(e) = writer.add_document(d) {
                viol(rep, "segmerge:api-error:add_document", json!(e.to_string()));
                return;
            }
            docs.push(SegDoc { id: next_id, tokens, svals });
            next_id += 1;
        }
        if let Err(e) = writer.commit() {
            viol(rep, "segmerge:api-error:commit", json!(e.to_string()));
            return;
        }
    }
    let ids = match index.searchable_segment_ids() {
        Ok(i) => i,
        Err(e) => {
            viol(rep, "segmerge:api-error:segment_ids", json!(e.to_string()));
            return;
        }
    };
    let nsegments_before = ids.len();
    if let Err(e) = writer.merge(&ids).wait() {
        viol(rep, "segmerge:api-error:merge", json!(e.to_string()));
        return;
    }
    let reader = match index.reader() {
        Ok(r) => r,
        Err(e) => {
            viol(rep, "segmerge:api-error:reader", json!(e.to_string()));
            return;
        }
    };
    let searcher = reader.searcher();
    rep.eval();
    rep.count("segment_merges", 1);
    rep.observe("merge_kind", "IndexWriter::merge");
    rep.observe("merge_inputs", nsegments_before.to_string());
    let info = json!({"target": "IndexWriter::merge", "segments_before": nsegments_before, "docs": docs.len(),
        "vocab": vocab.len(), "string_vocab": svocab.len(), "multi_valued_string": multi_s});
    if searcher.segment_readers().len() != 1 {
        viol(rep, "segmerge:not-one-segment-after-merge", json!({"segments": searcher.segment_readers().len(), "info": info}));
        return;
    }
    let sr = &searcher.segment_readers()[0];
    // expected dictionaries: term -> number of docs containing it
    let mut exp_t: BTreeMap<Vec<u8>, u32> = BTreeMap::new();
    let mut exp_s: BTreeMap<Vec<u8>, u32> = BTreeMap::new();
    for d in &docs {
        for t in d.tokens.iter().collect::<BTreeSet<_>>() {
            *exp_t.entry(vocab[*t].as_bytes().to_vec()).or_default() += 1;
        }
        for s in d.svals.iter().collect::<BTreeSet<_>>() {
            *exp_s.entry(svocab[*s].as_bytes().to_vec()).or_default() += 1;
        }
    }
    let mut fails = Fails::new();
    for (name, field, exp) in [("t", f_t, &exp_t), ("s", f_s, &exp_s)] {
        let inv = match sr.inverted_index(field) {
            Ok(i) => i,
            Err(e) => {
                fails.add("segmerge:api-error:inverted_index", json!(e.to_string()));
                continue;
            }
        };
        let td = inv.terms();
        let mut got: Vec<(Vec<u8>, u32, u64)> = vec![];
        match td.stream() {
            Ok(mut s) => {
                while s.advance() {
                    got.push((s.key().to_vec(), s.value().doc_freq, s.term_ord()));
                }
            }
            Err(e) => fails.add("segmerge:api-error:stream", json!(e.to_string())),
        }
        let expv: Vec<(Vec<u8>, u32, u64)> = exp.iter().enumerate().map(|(o, (k, &df))| (k.clone(), df, o as u64)).collect();
        rep.observe("segmerge_terms", format!("{name}:{}", bucket(expv.len())));
        if got != expv {
            let pos = got.iter().zip(&expv).position(|(a, b)| a != b);
            fails.add(
                &format!("segmerge:merged-termdict-not-union-with-docfreq-sums:{name}"),
                json!({"field": name, "got_len": got.len(), "expected_len": expv.len(), "first_difference_at": pos,
                    "got": pos.map(|p| format!("{:?}", (brief(&got[p].0), got[p].1, got[p].2))),
                    "expected": pos.map(|p| format!("{:?}", (brief(&expv[p].0), expv[p].1, expv[p].2)))}),
            );
        }
        if td.num_terms() != expv.len() {
            fails.add("segmerge:num_terms", json!({"field": name, "got": td.num_terms(), "expected": expv.len()}));
        }
        // spot lookups through the merged dictionary
        for _ in 0..12 {
            if expv.is_empty() {
                break;
            }
            let (k, df, o) = &expv[rng.usize_below(expv.len())];
            match (td.term_ord(k), td.get(k)) {
                (Ok(Some(go)), Ok(Some(ti))) if go == *o && ti.doc_freq == *df => {}
                (a, b) => fails.add("segmerge:merged-termdict-lookup", json!({"field": name, "key": brief(k), "term_ord": format!("{a:?}"), "get": format!("{b:?}"), "expected_ord": o, "expected_doc_freq": df})),
            }
        }
    }
    // fast field: merged str column ordinals map to the right terms
    let idcol = match sr.fast_fields().u64("id") {
        Ok(c) => c,
        Err(e) => {
            viol(rep, "segmerge:api-error:fast-id", json!(e.to_string()));
            return;
        }
    };
    match sr.fast_fields().str("s") {
        Err(e) => fails.add("segmerge:api-error:fast-str", json!(e.to_string())),
        Ok(None) => {
            if !exp_s.is_empty() {
                fails.add("segmerge:str-column-missing", json!({}));
            }
        }
        Ok(Some(col)) => {
            let mut got_terms = vec![];
            match col.dictionary().stream() {
                Ok(mut s) => {
                    while s.advance() {
                        got_terms.push(s.key().to_vec());
                    }
                }
                Err(e) => fails.add("segmerge:api-error:stream", json!(e.to_string())),
            }
            let exp_terms: Vec<Vec<u8>> = exp_s.keys().cloned().collect();
            if got_terms != exp_terms {
                fails.add("segmerge:str-column-dictionary-not-sorted-union", json!({"got_len": got_terms.len(), "expected_len": exp_terms.len()}));
            }
            let by_id: BTreeMap<u64, &SegDoc> = docs.iter().map(|d| (d.id, d)).collect();
            for doc in 0..sr.max_doc() {
                let Some(id) = idcol.first(doc) else {
                    fails.add("segmerge:id-missing", json!({"doc": doc}));
                    break;
                };
                let Some(d) = by_id.get(&id) else {
                    fails.add("segmerge:unknown-id", json!({"doc": doc, "id": id}));
                    break;
                };
                let mut got: Vec<Vec<u8>> = vec![];
                for o in col.term_ords(doc) {
                    let mut b = Vec::new();
                    match col.dictionary().ord_to_term(o, &mut b) {
                        Ok(true) => got.push(b),
                        other => {
                            fails.add("segmerge:str-column-ordinal-without-term", json!({"doc": doc, "ord": o, "result": format!("{other:?}")}));
                        }
                    }
                }
                let mut exp: Vec<Vec<u8>> = d.svals.iter().map(|&s| svocab[s].as_bytes().to_vec()).collect();
                got.sort();
                exp.sort();
                if got != exp {
                    fails.add("segmerge:str-column-ordinal-maps-to-wrong-term", json!({"doc": doc, "id": id,
                        "got": got.iter().map(|g| brief(g)).collect::<Vec<_>>(), "expected": exp.iter().map(|g| brief(g)).collect::<Vec<_>>()}));
                    break;
                }
            }
            rep.observe("segmerge_str_dict_blocks", bucket(block_first_ordinals(col.dictionary()).len()));
        }
    }
    if nsegments_before >= 2 && exp_t.values().any(|&df| df >= 2) {
        rep.nontrivial(format!("segmerge|{}|{}|{}|{}", nsegments_before, docs.len(), exp_t.len(), exp_s.len()));
    }
    if case < 1 {
        rep.sample(json!({"stream": "segmerge", "info": info, "text_terms": exp_t.len(), "string_terms": exp_s.len()}));
    }
    for (sig, d) in fails.v {
        viol(rep, sig, json!({"detail": d, "info": info}));
    }
}
