//! Aggregation request AST, JSON rendering and generator for C14.
use serde_json::{json, Map, Value};
use tvmon::rng::Rng;

use super::model::*;

#[derive(Clone, Copy, Debug, PartialEq, Eq)]
pub enum MK {
    Count,
    Sum,
    Min,
    Max,
    Avg,
    Stats,
    ExtStats,
}
impl MK {
    pub fn json_name(self) -> &'static str {
        match self {
            MK::Count => "value_count",
            MK::Sum => "sum",
            MK::Min => "min",
            MK::Max => "max",
            MK::Avg => "avg",
            MK::Stats => "stats",
            MK::ExtStats => "extended_stats",
        }
    }
    pub fn short(self) -> &'static str {
        match self {
            MK::Count => "vcount",
            MK::Sum => "sum",
            MK::Min => "min",
            MK::Max => "max",
            MK::Avg => "avg",
            MK::Stats => "stats",
            MK::ExtStats => "xstats",
        }
    }
}

#[derive(Clone, Debug, PartialEq)]
pub enum OrdT {
    Count,
    Key,
    /// name of a metric sub aggregation and the property ("" for single value metrics)
    Sub(String, String),
}

#[derive(Clone, Debug)]
pub enum FilterQ {
    Cat(String),
    IRange(i64, i64),
    IdRange(u64, u64),
    BoolIs(bool),
    All,
}

#[derive(Clone, Debug)]
pub enum CK {
    Terms,
    Hist(f64),
    DateHist(String, i64),
}

#[derive(Clone, Debug)]
pub struct CSrc {
    pub name: String,
    pub kind: CK,
    pub field: Fd,
    pub asc: bool,
    pub missing_bucket: bool,
    /// 0 default, 1 first, 2 last
    pub missing_order: u8,
}

#[derive(Clone, Debug)]
pub struct Rg {
    pub from: Option<f64>,
    pub to: Option<f64>,
    pub key: Option<String>,
}

/// `include` / `exclude` of a terms aggregation: exact values or one regular expression that has
/// to match the whole term
#[derive(Clone, Debug, PartialEq)]
pub enum IncExc {
    Values(Vec<String>),
    Regex(String),
}

impl IncExc {
    pub fn json(&self) -> Value {
        match self {
            IncExc::Values(v) => json!(v),
            IncExc::Regex(r) => json!(r),
        }
    }
}

pub type Aggs = Vec<(String, Agg)>;

#[derive(Clone, Debug)]
pub enum Agg {
    Metric {
        kind: MK,
        field: Fd,
        missing: Option<f64>,
        sigma: Option<f64>,
    },
    Pct {
        field: Fd,
        percents: Option<Vec<f64>>,
        keyed: Option<bool>,
        missing: Option<f64>,
    },
    Card {
        field: Fd,
        missing: Option<Value>,
    },
    TopHits {
        sort: Vec<(Fd, bool)>,
        size: usize,
        from: Option<usize>,
        dvf: Vec<Fd>,
    },
    Range {
        field: Fd,
        ranges: Vec<Rg>,
        keyed: bool,
        subs: Aggs,
    },
    Hist {
        field: Fd,
        interval: f64,
        offset: Option<f64>,
        min_doc_count: Option<u64>,
        hard: Option<(f64, f64)>,
        ext: Option<(f64, f64)>,
        keyed: bool,
        subs: Aggs,
    },
    DateHist {
        field: Fd,
        interval: (String, i64),
        offset: Option<(String, i64)>,
        min_doc_count: Option<u64>,
        hard: Option<(f64, f64)>,
        ext: Option<(f64, f64)>,
        keyed: bool,
        subs: Aggs,
    },
    Terms {
        field: Fd,
        size: Option<u32>,
        segment_size: Option<u32>,
        min_doc_count: Option<u64>,
        order: Option<(OrdT, bool)>,
        missing: Option<Value>,
        show_err: Option<bool>,
        /// small segment_size: only the documented bounds are asserted
        approx: bool,
        /// only generated for string fields without `missing`
        include: Option<IncExc>,
        exclude: Option<IncExc>,
        subs: Aggs,
    },
    Filter {
        q: FilterQ,
        subs: Aggs,
    },
    Composite {
        sources: Vec<CSrc>,
        size: u32,
        after: Option<Value>,
        subs: Aggs,
    },
}

impl Agg {
    pub fn kind(&self) -> &'static str {
        match self {
            Agg::Metric { kind, .. } => kind.short(),
            Agg::Pct { .. } => "pct",
            Agg::Card { .. } => "card",
            Agg::TopHits { .. } => "tophits",
            Agg::Range { .. } => "range",
            Agg::Hist { .. } => "hist",
            Agg::DateHist { .. } => "datehist",
            Agg::Terms { approx: true, .. } => "termsapprox",
            Agg::Terms { .. } => "terms",
            Agg::Filter { .. } => "filter",
            Agg::Composite { .. } => "composite",
        }
    }
    pub fn subs(&self) -> Option<&Aggs> {
        match self {
            Agg::Range { subs, .. }
            | Agg::Hist { subs, .. }
            | Agg::DateHist { subs, .. }
            | Agg::Terms { subs, .. }
            | Agg::Filter { subs, .. }
            | Agg::Composite { subs, .. } => Some(subs),
            _ => None,
        }
    }
    pub fn subs_mut(&mut self) -> Option<&mut Aggs> {
        match self {
            Agg::Range { subs, .. }
            | Agg::Hist { subs, .. }
            | Agg::DateHist { subs, .. }
            | Agg::Terms { subs, .. }
            | Agg::Filter { subs, .. }
            | Agg::Composite { subs, .. } => Some(subs),
            _ => None,
        }
    }
    pub fn fields(&self, out: &mut Vec<Fd>) {
        match self {
            Agg::Metric { field, .. } | Agg::Pct { field, .. } | Agg::Card { field, .. } => {
                out.push(*field)
            }
            Agg::TopHits { sort, dvf, .. } => {
                out.extend(sort.iter().map(|s| s.0));
                out.extend(dvf.iter().cloned());
            }
            Agg::Range { field, .. }
            | Agg::Hist { field, .. }
            | Agg::DateHist { field, .. }
            | Agg::Terms { field, .. } => out.push(*field),
            Agg::Filter { q, .. } => match q {
                FilterQ::Cat(_) => out.push(Fd::Cat),
                FilterQ::IRange(..) => out.push(Fd::Fi),
                FilterQ::BoolIs(_) => out.push(Fd::Fb),
                _ => {}
            },
            Agg::Composite { sources, .. } => out.extend(sources.iter().map(|s| s.field)),
        }
        if let Some(subs) = self.subs() {
            for (_, a) in subs {
                a.fields(out);
            }
        }
    }
    /// structural shape: kinds only
    pub fn shape(&self) -> String {
        match self.subs() {
            Some(subs) if !subs.is_empty() => {
                let mut s: Vec<String> = subs.iter().map(|(_, a)| a.shape()).collect();
                s.sort();
                format!("{}({})", self.kind(), s.join(","))
            }
            _ => self.kind().to_string(),
        }
    }
    pub fn depth(&self) -> usize {
        1 + self
            .subs()
            .map(|s| s.iter().map(|(_, a)| a.depth()).max().unwrap_or(0))
            .unwrap_or(0)
    }
}

fn bounds_json(b: (f64, f64)) -> Value {
    json!({"min": b.0, "max": b.1})
}

pub fn filter_query_string(q: &FilterQ) -> String {
    match q {
        FilterQ::Cat(c) => format!("cat:{c}"),
        FilterQ::IRange(a, b) => format!("i:[{a} TO {b}]"),
        FilterQ::IdRange(a, b) => format!("id:[{a} TO {b}]"),
        FilterQ::BoolIs(b) => format!("b:{b}"),
        FilterQ::All => "*".to_string(),
    }
}

pub fn aggs_json(aggs: &Aggs) -> Value {
    let mut m = Map::new();
    for (name, a) in aggs {
        m.insert(name.clone(), agg_json(a));
    }
    Value::Object(m)
}

pub fn agg_json(a: &Agg) -> Value {
    let mut body = Map::new();
    let mut inner = Map::new();
    let kind_name;
    match a {
        Agg::Metric {
            kind,
            field,
            missing,
            sigma,
        } => {
            kind_name = kind.json_name();
            inner.insert("field".into(), json!(field.name()));
            if let Some(m) = missing {
                inner.insert("missing".into(), json!(m));
            }
            if let Some(s) = sigma {
                inner.insert("sigma".into(), json!(s));
            }
        }
        Agg::Pct {
            field,
            percents,
            keyed,
            missing,
        } => {
            kind_name = "percentiles";
            inner.insert("field".into(), json!(field.name()));
            if let Some(p) = percents {
                inner.insert("percents".into(), json!(p));
            }
            if let Some(k) = keyed {
                inner.insert("keyed".into(), json!(k));
            }
            if let Some(m) = missing {
                inner.insert("missing".into(), json!(m));
            }
        }
        Agg::Card { field, missing } => {
            kind_name = "cardinality";
            inner.insert("field".into(), json!(field.name()));
            if let Some(m) = missing {
                inner.insert("missing".into(), m.clone());
            }
        }
        Agg::TopHits {
            sort,
            size,
            from,
            dvf,
        } => {
            kind_name = "top_hits";
            let s: Vec<Value> = sort
                .iter()
                .map(|(f, asc)| json!({f.name(): if *asc {"asc"} else {"desc"}}))
                .collect();
            inner.insert("sort".into(), json!(s));
            inner.insert("size".into(), json!(size));
            if let Some(f) = from {
                inner.insert("from".into(), json!(f));
            }
            if !dvf.is_empty() {
                let d: Vec<&str> = dvf.iter().map(|f| f.name()).collect();
                inner.insert("docvalue_fields".into(), json!(d));
            }
        }
        Agg::Range {
            field,
            ranges,
            keyed,
            ..
        } => {
            kind_name = "range";
            inner.insert("field".into(), json!(field.name()));
            let rs: Vec<Value> = ranges
                .iter()
                .map(|r| {
                    let mut m = Map::new();
                    if let Some(f) = r.from {
                        m.insert("from".into(), json!(f));
                    }
                    if let Some(t) = r.to {
                        m.insert("to".into(), json!(t));
                    }
                    if let Some(k) = &r.key {
                        m.insert("key".into(), json!(k));
                    }
                    Value::Object(m)
                })
                .collect();
            inner.insert("ranges".into(), json!(rs));
            if *keyed {
                inner.insert("keyed".into(), json!(true));
            }
        }
        Agg::Hist {
            field,
            interval,
            offset,
            min_doc_count,
            hard,
            ext,
            keyed,
            ..
        } => {
            kind_name = "histogram";
            inner.insert("field".into(), json!(field.name()));
            inner.insert("interval".into(), json!(interval));
            if let Some(o) = offset {
                inner.insert("offset".into(), json!(o));
            }
            if let Some(m) = min_doc_count {
                inner.insert("min_doc_count".into(), json!(m));
            }
            if let Some(b) = hard {
                inner.insert("hard_bounds".into(), bounds_json(*b));
            }
            if let Some(b) = ext {
                inner.insert("extended_bounds".into(), bounds_json(*b));
            }
            if *keyed {
                inner.insert("keyed".into(), json!(true));
            }
        }
        Agg::DateHist {
            field,
            interval,
            offset,
            min_doc_count,
            hard,
            ext,
            keyed,
            ..
        } => {
            kind_name = "date_histogram";
            inner.insert("field".into(), json!(field.name()));
            inner.insert("fixed_interval".into(), json!(interval.0));
            if let Some(o) = offset {
                inner.insert("offset".into(), json!(o.0));
            }
            if let Some(m) = min_doc_count {
                inner.insert("min_doc_count".into(), json!(m));
            }
            if let Some(b) = hard {
                inner.insert("hard_bounds".into(), bounds_json(*b));
            }
            if let Some(b) = ext {
                inner.insert("extended_bounds".into(), bounds_json(*b));
            }
            if *keyed {
                inner.insert("keyed".into(), json!(true));
            }
        }
        Agg::Terms {
            field,
            size,
            segment_size,
            min_doc_count,
            order,
            missing,
            show_err,
            include,
            exclude,
            ..
        } => {
            kind_name = "terms";
            inner.insert("field".into(), json!(field.name()));
            if let Some(s) = size {
                inner.insert("size".into(), json!(s));
            }
            if let Some(s) = segment_size {
                inner.insert("segment_size".into(), json!(s));
            }
            if let Some(m) = min_doc_count {
                inner.insert("min_doc_count".into(), json!(m));
            }
            if let Some((t, asc)) = order {
                let key = match t {
                    OrdT::Count => "_count".to_string(),
                    OrdT::Key => "_key".to_string(),
                    OrdT::Sub(n, p) if p.is_empty() => n.clone(),
                    OrdT::Sub(n, p) => format!("{n}.{p}"),
                };
                inner.insert("order".into(), json!({key: if *asc {"asc"} else {"desc"}}));
            }
            if let Some(m) = missing {
                inner.insert("missing".into(), m.clone());
            }
            if let Some(s) = show_err {
                inner.insert("show_term_doc_count_error".into(), json!(s));
            }
            if let Some(x) = include {
                inner.insert("include".into(), x.json());
            }
            if let Some(x) = exclude {
                inner.insert("exclude".into(), x.json());
            }
        }
        Agg::Filter { q, .. } => {
            body.insert("filter".into(), json!(filter_query_string(q)));
            if let Some(subs) = a.subs() {
                if !subs.is_empty() {
                    body.insert("aggs".into(), aggs_json(subs));
                }
            }
            return Value::Object(body);
        }
        Agg::Composite {
            sources,
            size,
            after,
            ..
        } => {
            kind_name = "composite";
            let srcs: Vec<Value> = sources
                .iter()
                .map(|s| {
                    let mut m = Map::new();
                    m.insert("field".into(), json!(s.field.name()));
                    m.insert("order".into(), json!(if s.asc { "asc" } else { "desc" }));
                    if s.missing_bucket {
                        m.insert("missing_bucket".into(), json!(true));
                    }
                    match s.missing_order {
                        1 => {
                            m.insert("missing_order".into(), json!("first"));
                        }
                        2 => {
                            m.insert("missing_order".into(), json!("last"));
                        }
                        _ => {}
                    }
                    let k = match &s.kind {
                        CK::Terms => "terms",
                        CK::Hist(iv) => {
                            m.insert("interval".into(), json!(iv));
                            "histogram"
                        }
                        CK::DateHist(txt, _) => {
                            m.insert("fixed_interval".into(), json!(txt));
                            "date_histogram"
                        }
                    };
                    json!({ s.name.clone(): { k: Value::Object(m) } })
                })
                .collect();
            inner.insert("sources".into(), json!(srcs));
            inner.insert("size".into(), json!(size));
            if let Some(a) = after {
                inner.insert("after".into(), a.clone());
            }
        }
    }
    body.insert(kind_name.into(), Value::Object(inner));
    if let Some(subs) = a.subs() {
        if !subs.is_empty() {
            body.insert("aggs".into(), aggs_json(subs));
        }
    }
    Value::Object(body)
}

// ---------------------------------------------------------------------------------------------
// generator

pub struct Gen<'a> {
    pub rng: &'a mut Rng,
    pub corpus: &'a Corpus,
    pub counter: usize,
}

const DATE_IVS: [(&str, i64); 12] = [
    ("1ms", 1),
    ("10ms", 10),
    ("1s", 1000),
    ("30s", 30_000),
    ("1m", 60_000),
    ("5m", 300_000),
    ("1h", 3_600_000),
    ("12h", 43_200_000),
    ("1d", 86_400_000),
    ("7d", 604_800_000),
    ("30d", 2_592_000_000),
    ("365d", 31_536_000_000),
];

impl<'a> Gen<'a> {
    fn name(&mut self, kind: &str) -> String {
        self.counter += 1;
        format!("{kind}_{}", self.counter)
    }

    fn pick_single_num_field(&mut self, allow_date: bool) -> Fd {
        let mut c = vec![Fd::Ff, Fd::Fi, Fd::Fu, Fd::Rank, Fd::Id];
        if allow_date {
            c.push(Fd::Fdt);
        }
        *self.rng.pick(&c)
    }

    fn missing_for(&mut self, f: Fd) -> Option<f64> {
        if !self.rng.chance(1, 4) {
            return None;
        }
        Some(self.missing_value(f))
    }

    /// a `missing` value with a long mantissa that the field's type holds exactly (sums of a run
    /// of it are rounded)
    fn wide_missing_value(&mut self, f: Fd) -> f64 {
        match f.ty() {
            Ty::F64 => {
                let x = self.rng.irange(-1_000_000, 1_000_000) as f64 / 7.0;
                if self.rng.bool() {
                    x * 1.0e12
                } else {
                    x
                }
            }
            // the i64 -> f64 conversion rounds to a value that converts back exactly
            Ty::I64 => (self.rng.irange(1 << 53, 1 << 62) * if self.rng.bool() { -1 } else { 1 }) as f64,
            Ty::U64 => self.rng.irange(1 << 53, 1 << 62) as f64,
            // ns between 2001 and 2030
            Ty::Date => self.rng.irange(1_000_000_000_000_000_000, 1_900_000_000_000_000_000) as f64,
            _ => 1.0,
        }
    }

    fn missing_value(&mut self, f: Fd) -> f64 {
        match f.ty() {
            Ty::F64 => *self.rng.pick(&[0.0, -2.5, 7.25, 100.0, 0.3]),
            Ty::I64 => self.rng.irange(-20, 20) as f64,
            Ty::U64 => self.rng.range(0, 50) as f64,
            // whole seconds are exactly representable as f64 nanoseconds
            Ty::Date => (1_546_300_800i64 + self.rng.irange(-100, 100)) as f64 * 1e9,
            _ => 1.0,
        }
    }

    pub fn gen_metric(&mut self) -> (String, Agg) {
        let r = self.rng.weighted(&[55, 10, 12, 8]);
        self.gen_metric_branch(r, None)
    }

    /// branch: 0 plain metric (of kind `mk`, random when None), 1 percentiles, 2 cardinality,
    /// 3 top_hits
    pub fn gen_metric_branch(&mut self, r: usize, mk: Option<MK>) -> (String, Agg) {
        match r {
            0 => {
                let kind = match mk {
                    Some(k) => k,
                    None => *self.rng.pick(&[
                        MK::Count,
                        MK::Sum,
                        MK::Min,
                        MK::Max,
                        MK::Avg,
                        MK::Stats,
                        MK::ExtStats,
                    ]),
                };
                let field = if kind == MK::Count && self.rng.chance(1, 3) {
                    *self.rng.pick(&[Fd::Cat, Fd::Tag, Fd::Fb, Fd::Fip, Fd::Fdt])
                } else if self.rng.chance(1, 5) {
                    *self.rng.pick(&[Fd::Fm, Fd::Im])
                } else {
                    self.pick_single_num_field(true)
                };
                let missing = if field.is_num_or_date() {
                    self.missing_for(field)
                } else {
                    None
                };
                let sigma = if kind == MK::ExtStats && self.rng.chance(1, 3) {
                    Some(*self.rng.pick(&[1.0, 3.0, 0.5]))
                } else {
                    None
                };
                (
                    self.name(kind.short()),
                    Agg::Metric {
                        kind,
                        field,
                        missing,
                        sigma,
                    },
                )
            }
            1 => {
                let field = if self.rng.chance(1, 5) {
                    Fd::Fm
                } else {
                    *self.rng.pick(&[Fd::Ff, Fd::Fi, Fd::Fu, Fd::Id, Fd::Rank])
                };
                let percents = if self.rng.bool() {
                    None
                } else {
                    Some(match self.rng.below(3) {
                        0 => vec![0.0, 50.0, 100.0],
                        1 => vec![10.0, 33.3, 90.0, 99.9],
                        _ => vec![50.0],
                    })
                };
                let keyed = *self.rng.pick(&[None, Some(true), Some(false)]);
                let mut missing = self.missing_for(field);
                // the sketch keeps at most 2048 bins of relative width 2 %: values spread over
                // more than ~17 decades collapse its lowest bins (documented DDSketch behaviour);
                // a small `missing` next to values around 2^63 is outside the accuracy guarantee
                if self.corpus.span(field).map(|(_, hi)| hi >= 1e15).unwrap_or(false) {
                    missing = None;
                }
                (
                    self.name("pct"),
                    Agg::Pct {
                        field,
                        percents,
                        keyed,
                        missing,
                    },
                )
            }
            2 => {
                let field = *self.rng.pick(&[
                    Fd::Cat,
                    Fd::Tag,
                    Fd::Txt,
                    Fd::Fi,
                    Fd::Fu,
                    Fd::Ff,
                    Fd::Id,
                    Fd::Im,
                    Fd::Fdt,
                    Fd::Fb,
                    Fd::Fip,
                ]);
                let missing = if self.rng.chance(1, 4) {
                    match field.ty() {
                        Ty::Str => Some(json!("zz_missing")),
                        Ty::I64 => Some(json!(self.rng.irange(-5, 5))),
                        Ty::U64 => Some(json!(self.rng.range(0, 5))),
                        Ty::F64 => Some(json!(1.5)),
                        _ => None,
                    }
                } else {
                    None
                };
                (self.name("card"), Agg::Card { field, missing })
            }
            _ => {
                let mut sort = vec![];
                if self.rng.bool() {
                    sort.push((Fd::Rank, self.rng.bool()));
                }
                sort.push((Fd::Id, self.rng.bool()));
                let size = self.rng.urange(1, 4);
                let from = if self.rng.chance(1, 4) { Some(0) } else { None };
                let mut dvf = vec![];
                for f in [Fd::Id, Fd::Rank, Fd::Cat, Fd::Im, Fd::Ff] {
                    if self.rng.chance(1, 3) {
                        dvf.push(f);
                    }
                }
                (
                    self.name("tophits"),
                    Agg::TopHits {
                        sort,
                        size,
                        from,
                        dvf,
                    },
                )
            }
        }
    }

    fn gen_subs(&mut self, depth: usize, want_metric: bool) -> Aggs {
        let mut subs = vec![];
        if depth == 0 {
            return subs;
        }
        let n = if want_metric {
            self.rng.urange(1, 2)
        } else {
            self.rng.weighted(&[35, 45, 20])
        };
        for _ in 0..n {
            if depth >= 2 && self.rng.chance(35, 100) {
                subs.push(self.gen_bucket(depth - 1, false));
            } else {
                subs.push(self.gen_metric());
            }
        }
        subs
    }

    fn hist_params(
        &mut self,
        field: Fd,
    ) -> (f64, Option<f64>, Option<u64>, Option<(f64, f64)>, Option<(f64, f64)>) {
        // values in the unit of the request (ms for dates)
        let scale = if field.ty() == Ty::Date { 1e6 } else { 1.0 };
        let span = self.corpus.span(field).map(|(a, b)| (a / scale, b / scale));
        let (lo, hi) = span.unwrap_or((0.0, 10.0));
        let width = (hi - lo).max(1.0);
        let mut interval = match self.rng.below(5) {
            0 => width / 3.0,
            1 => width / 10.0,
            2 => width / 40.0,
            3 => *self.rng.pick(&[0.25, 0.5, 1.0, 2.5, 10.0, 3.5, 0.1, 7.0, 100.0]),
            _ => *self.rng.pick(&[1.0, 5.0, 10.0]),
        };
        if field.ty() != Ty::F64 {
            interval = interval.round().max(1.0);
        }
        if width / interval > 250.0 {
            interval = width / 250.0;
            if field.ty() != Ty::F64 {
                interval = interval.ceil();
            }
        }
        if !(interval > 0.0) || !interval.is_finite() {
            interval = 1.0;
        }
        let offset = match self.rng.below(4) {
            0 => Some(interval * 0.25),
            1 => Some((interval * 0.5).floor()),
            _ => None,
        };
        let min_doc_count = *self.rng.pick(&[None, None, Some(0), Some(1), Some(2)]);
        let hard = match self.rng.below(8) {
            0 => Some((lo + width * 0.2, hi - width * 0.3)),
            1 => Some((lo - width, hi + width)),
            2 => Some(((lo / interval).floor() * interval + interval, hi)),
            _ => None,
        };
        let ext = if min_doc_count.unwrap_or(0) == 0 && self.rng.chance(1, 4) {
            let e = (
                lo - interval * self.rng.urange(0, 12) as f64,
                hi + interval * self.rng.urange(0, 12) as f64,
            );
            match hard {
                Some(h) => Some((e.0.max(h.0), e.1.min(h.1))),
                None => Some(e),
            }
        } else {
            None
        };
        let ext = ext.filter(|e| e.0 <= e.1);
        let hard = hard.filter(|h| h.0 <= h.1);
        (interval, offset, min_doc_count, hard, ext)
    }

    pub fn gen_hist_on(&mut self, field: Fd, depth: usize) -> (String, Agg) {
        let (interval, offset, min_doc_count, hard, ext) = self.hist_params(field);
        let subs = self.gen_subs(depth, false);
        (
            self.name("hist"),
            Agg::Hist {
                field,
                interval,
                offset,
                min_doc_count,
                hard,
                ext,
                keyed: self.rng.chance(1, 5),
                subs,
            },
        )
    }

    pub fn gen_bucket(&mut self, depth: usize, top: bool) -> (String, Agg) {
        let r = self.rng.weighted(&[34, 18, 12, 14, 10, 12]);
        self.gen_bucket_branch(r, depth, top)
    }

    /// branch: 0 terms, 1 histogram, 2 date_histogram, 3 range, 4 filter, 5 composite
    pub fn gen_bucket_branch(&mut self, r: usize, depth: usize, top: bool) -> (String, Agg) {
        match r {
            0 => self.gen_terms(depth, top),
            1 => {
                let field = self.pick_single_num_field(true);
                self.gen_hist_on(field, depth)
            }
            2 => {
                let field = Fd::Fdt;
                let (lo, hi) = self
                    .corpus
                    .span(field)
                    .map(|(a, b)| (a / 1e6, b / 1e6))
                    .unwrap_or((0.0, 1000.0));
                let width = (hi - lo).max(1.0);
                let cands: Vec<(&str, i64)> = DATE_IVS
                    .iter()
                    .cloned()
                    .filter(|(_, ms)| width / (*ms as f64) <= 250.0)
                    .collect();
                let k = self.rng.usize_below(cands.len().min(4).max(1));
                let iv = cands.get(k).cloned().unwrap_or(("365d", 31_536_000_000));
                let offset = if self.rng.chance(1, 3) {
                    let o = iv.1 / *self.rng.pick(&[2i64, 4, 3]);
                    if o > 0 {
                        if self.rng.bool() {
                            Some((format!("{o}ms"), o))
                        } else {
                            Some((format!("-{o}ms"), -o))
                        }
                    } else {
                        None
                    }
                } else {
                    None
                };
                let min_doc_count = *self.rng.pick(&[None, None, Some(0), Some(1), Some(2)]);
                let ivf = iv.1 as f64;
                let hard = match self.rng.below(8) {
                    0 => Some(((lo + width * 0.2).floor(), (hi - width * 0.3).floor())),
                    1 => Some((lo - ivf, hi + ivf)),
                    _ => None,
                };
                let hard = hard.filter(|h| h.0 <= h.1);
                let ext = if min_doc_count.unwrap_or(0) == 0 && self.rng.chance(1, 4) {
                    let e = (
                        lo - ivf * self.rng.urange(0, 10) as f64,
                        hi + ivf * self.rng.urange(0, 10) as f64,
                    );
                    match hard {
                        Some(h) => Some((e.0.max(h.0), e.1.min(h.1))),
                        None => Some(e),
                    }
                } else {
                    None
                };
                let ext = ext.filter(|e| e.0 <= e.1);
                let subs = self.gen_subs(depth, false);
                (
                    self.name("datehist"),
                    Agg::DateHist {
                        field,
                        interval: (iv.0.to_string(), iv.1),
                        offset,
                        min_doc_count,
                        hard,
                        ext,
                        keyed: self.rng.chance(1, 5),
                        subs,
                    },
                )
            }
            3 => {
                let field = self.pick_single_num_field(true);
                self.gen_range_on(field, depth)
            }
            4 => {
                let q = match self.rng.below(5) {
                    0 | 1 => FilterQ::Cat(format!("c{}", self.rng.usize_below(self.corpus.cat_pool + 1))),
                    2 => {
                        let a = self.rng.irange(-60, 60);
                        FilterQ::IRange(a, a + self.rng.irange(0, 80))
                    }
                    3 => {
                        let n = self.corpus.docs.len() as u64;
                        let a = self.rng.range(0, n);
                        FilterQ::IdRange(a, a + self.rng.range(0, n + 1))
                    }
                    _ => FilterQ::BoolIs(self.rng.bool()),
                };
                let subs = self.gen_subs(depth.max(1), false);
                (self.name("filter"), Agg::Filter { q, subs })
            }
            _ => self.gen_composite(depth),
        }
    }

    /// range aggregation over a single-valued numeric or date field, cut points inside and just
    /// outside the span of the field
    pub fn gen_range_on(&mut self, field: Fd, depth: usize) -> (String, Agg) {
        {
            {
                let scale = if field.ty() == Ty::Date { 1e9 } else { 1.0 };
                let (lo, hi) = self
                    .corpus
                    .span(field)
                    .map(|(a, b)| (a / scale, b / scale))
                    .unwrap_or((0.0, 10.0));
                let n = self.rng.urange(1, 4);
                let mut cuts: Vec<f64> = (0..=n)
                    .map(|_| {
                        let x = lo + (hi - lo + 2.0) * self.rng.f64() - 1.0;
                        let x = if field.ty() == Ty::F64 && self.rng.bool() {
                            (x * 4.0).round() / 4.0
                        } else {
                            x.round()
                        };
                        if field.ty() == Ty::U64 || field == Fd::Id {
                            x.max(1.0).min(1.0e19)
                        } else {
                            x
                        }
                    })
                    .collect();
                for c in cuts.iter_mut() {
                    *c += 0.0; // -0.0 -> 0.0
                }
                cuts.sort_by(|a, b| a.total_cmp(b));
                cuts.dedup();
                let mut ranges = vec![];
                let contiguous = self.rng.bool();
                let mut i = 0;
                while i + 1 < cuts.len() {
                    ranges.push(Rg {
                        from: Some(cuts[i] * scale),
                        to: Some(cuts[i + 1] * scale),
                        key: if self.rng.chance(1, 5) {
                            Some(format!("custom{i}"))
                        } else {
                            None
                        },
                    });
                    i += if contiguous { 1 } else { 2 };
                }
                if ranges.is_empty() {
                    ranges.push(Rg {
                        from: Some(cuts[0] * scale),
                        to: None,
                        key: None,
                    });
                } else {
                    if self.rng.bool() {
                        let first = ranges[0].from.unwrap();
                        ranges.insert(
                            0,
                            Rg {
                                from: None,
                                to: Some(first),
                                key: None,
                            },
                        );
                    }
                    if self.rng.bool() {
                        let last = ranges.last().unwrap().to.unwrap();
                        ranges.push(Rg {
                            from: Some(last),
                            to: None,
                            key: None,
                        });
                    }
                }
                if self.rng.chance(1, 3) {
                    self.rng.shuffle(&mut ranges);
                }
                let subs = self.gen_subs(depth, false);
                (
                    self.name("range"),
                    Agg::Range {
                        field,
                        ranges,
                        keyed: self.rng.chance(1, 5),
                        subs,
                    },
                )
            }
        }
    }

    fn gen_composite(&mut self, depth: usize) -> (String, Agg) {
        let nsrc = self.rng.urange(1, 2);
        let mut sources = vec![];
        for si in 0..nsrc {
            let k = self.rng.weighted(&[60, 25, 15]);
            let (kind, field) = match k {
                0 => (
                    CK::Terms,
                    *self.rng.pick(&[
                        Fd::Cat,
                        Fd::Cat,
                        Fd::Tag,
                        Fd::Fi,
                        Fd::Fu,
                        Fd::Ff,
                        Fd::Fb,
                        Fd::Fdt,
                        Fd::Fip,
                        Fd::Rank,
                    ]),
                ),
                1 => {
                    let field = *self.rng.pick(&[Fd::Fi, Fd::Ff, Fd::Fu, Fd::Rank, Fd::Fdt]);
                    let scale = if field.ty() == Ty::Date { 1e6 } else { 1.0 };
                    let (lo, hi) = self
                        .corpus
                        .span(field)
                        .map(|(a, b)| (a / scale, b / scale))
                        .unwrap_or((0.0, 1.0));
                    let w = (hi - lo).max(1.0);
                    let mut iv = *self.rng.pick(&[1.0, 2.5, 10.0, 100.0, 0.5]);
                    if w / iv > 200.0 {
                        iv = (w / 50.0).ceil();
                    }
                    (CK::Hist(iv), field)
                }
                _ => {
                    let (lo, hi) = self
                        .corpus
                        .span(Fd::Fdt)
                        .map(|(a, b)| (a / 1e6, b / 1e6))
                        .unwrap_or((0.0, 1.0));
                    let w = (hi - lo).max(1.0);
                    let cands: Vec<(&str, i64)> = DATE_IVS
                        .iter()
                        .cloned()
                        .filter(|(_, ms)| w / (*ms as f64) <= 200.0)
                        .collect();
                    let iv = cands[self.rng.usize_below(cands.len().min(3))];
                    (CK::DateHist(iv.0.to_string(), iv.1), Fd::Fdt)
                }
            };
            sources.push(CSrc {
                name: format!("s{si}"),
                kind,
                field,
                asc: self.rng.chance(2, 3),
                missing_bucket: self.rng.chance(1, 3),
                missing_order: self.rng.weighted(&[70, 15, 15]) as u8,
            });
        }
        let size = *self.rng.pick(&[1u32, 2, 3, 5, 10, 50, 1000]);
        let subs = self.gen_subs(depth.min(1), false);
        (
            self.name("composite"),
            Agg::Composite {
                sources,
                size,
                after: None,
                subs,
            },
        )
    }

    fn gen_terms(&mut self, depth: usize, top: bool) -> (String, Agg) {
        let field = *self.rng.pick(&[
            Fd::Cat,
            Fd::Cat,
            Fd::Cat,
            Fd::Tag,
            Fd::Txt,
            Fd::Fi,
            Fd::Fu,
            Fd::Ff,
            Fd::Fb,
            Fd::Fdt,
            Fd::Fip,
            Fd::Im,
            Fd::Rank,
        ]);
        self.gen_terms_on(field, depth, top)
    }

    /// distinct terms of a string field in the corpus, sorted
    pub fn str_terms(&self, f: Fd) -> Vec<String> {
        let mut s = std::collections::BTreeSet::new();
        for d in &self.corpus.docs {
            for v in d.get(f) {
                if let V::S(x) = v {
                    s.insert(x.clone());
                }
            }
        }
        s.into_iter().collect()
    }

    /// one `include` / `exclude` parameter over the terms of a string field: exact values (some
    /// real terms, sometimes one that does not occur) or a regular expression (prefix, class of
    /// the last character, alternation of real terms)
    pub fn gen_term_filter(&mut self, f: Fd) -> IncExc {
        let terms = self.str_terms(f);
        if terms.is_empty() {
            return IncExc::Values(vec!["zz_absent".to_string()]);
        }
        match self.rng.below(6) {
            0 | 1 | 2 => {
                let k = self.rng.urange(1, (terms.len() / 2).clamp(1, 6));
                let mut v: Vec<String> = (0..k).map(|_| self.rng.pick(&terms).clone()).collect();
                if self.rng.chance(1, 3) {
                    v.push("zz_absent".to_string());
                }
                v.sort();
                v.dedup();
                self.rng.shuffle(&mut v);
                IncExc::Values(v)
            }
            3 => {
                let t = self.rng.pick(&terms).clone();
                let chars: Vec<char> = t.chars().collect();
                let k = self.rng.urange(1, chars.len().max(1));
                let prefix: String = chars.iter().take(k).collect();
                IncExc::Regex(format!("{prefix}.*"))
            }
            4 => IncExc::Regex(
                self.rng
                    .pick(&[".*[0-4]", ".*[5-9]", ".*[a-m]", ".*[n-z]", ".*(0|2|4|6|8|a|e|i|o)", ".+[13579e]"])
                    .to_string(),
            ),
            _ => {
                let k = self.rng.urange(1, terms.len().min(3));
                let v: Vec<String> = (0..k).map(|_| self.rng.pick(&terms).clone()).collect();
                IncExc::Regex(v.join("|"))
            }
        }
    }

    /// include only / exclude only / both
    pub fn gen_inc_exc(&mut self, f: Fd) -> (Option<IncExc>, Option<IncExc>) {
        match self.rng.weighted(&[40, 40, 20]) {
            0 => (Some(self.gen_term_filter(f)), None),
            1 => (None, Some(self.gen_term_filter(f))),
            _ => (Some(self.gen_term_filter(f)), Some(self.gen_term_filter(f))),
        }
    }

    /// terms aggregation whose per segment cut-off never cuts anything (exact comparison)
    pub fn gen_terms_on(&mut self, field: Fd, depth: usize, top: bool) -> (String, Agg) {
        let card = self.corpus.distinct(field) as u32 + 2;
        let size = match self.rng.below(5) {
            0 => None,
            1 => Some(1),
            2 => Some(self.rng.range(1, 5) as u32),
            3 => Some(card + 3),
            _ => Some(self.rng.range(1, card as u64 + 1) as u32),
        };
        // exact comparison needs that nothing is cut per segment
        let eff_size = size.unwrap_or(10);
        let segment_size = if eff_size * 10 >= card && size.is_none() && self.rng.bool() {
            None
        } else if eff_size >= card && self.rng.bool() {
            None
        } else {
            Some(card + self.rng.range(0, 3) as u32)
        };
        let mut subs = self.gen_subs(depth, false);
        // fused terms x histogram shape (top-level, single histogram leaf)
        if top && depth >= 1 && self.rng.chance(1, 6) {
            let hf = *self.rng.pick(&[Fd::Rank, Fd::Id, Fd::Fi, Fd::Ff]);
            let (interval, offset, min_doc_count, hard, ext) = self.hist_params(hf);
            subs = vec![(
                self.name("hist"),
                Agg::Hist {
                    field: hf,
                    interval,
                    offset,
                    min_doc_count,
                    hard,
                    ext,
                    keyed: false,
                    subs: vec![],
                },
            )];
        }
        let missing = if self.rng.chance(1, 4) {
            match field.ty() {
                Ty::Str => Some(json!("zz_missing")),
                Ty::I64 => Some(if self.rng.bool() {
                    json!(self.rng.irange(-7, 7))
                } else {
                    json!("NA")
                }),
                Ty::U64 => Some(if self.rng.bool() {
                    json!(self.rng.range(0, 7))
                } else {
                    json!("NA")
                }),
                Ty::F64 => Some(if self.rng.bool() {
                    json!(*self.rng.pick(&[0.5f64, -2.5, 3.0]))
                } else {
                    json!("NA")
                }),
                _ => Some(json!("NA")),
            }
        } else {
            None
        };
        let (include, exclude) = if field.ty() == Ty::Str && missing.is_none() && self.rng.chance(1, 8) {
            self.gen_inc_exc(field)
        } else {
            (None, None)
        };
        let str_missing_on_non_str =
            field.ty() != Ty::Str && matches!(missing, Some(Value::String(_)));
        let mut order = match self.rng.below(6) {
            0 => None,
            1 => Some((OrdT::Count, false)),
            2 => Some((OrdT::Count, true)),
            3 if !str_missing_on_non_str => Some((OrdT::Key, true)),
            4 if !str_missing_on_non_str => Some((OrdT::Key, false)),
            _ => None,
        };
        if self.rng.chance(1, 5) && depth >= 1 {
            // order by a metric sub aggregation
            let f = self.pick_single_num_field(false);
            let (kind, prop) = match self.rng.below(7) {
                0 => (MK::Avg, ""),
                1 => (MK::Sum, ""),
                2 => (MK::Min, ""),
                3 => (MK::Max, ""),
                4 => (MK::Count, ""),
                5 => (MK::Stats, *self.rng.pick(&["min", "max", "sum", "count", "avg"])),
                _ => (
                    MK::ExtStats,
                    *self.rng.pick(&["max", "sum", "variance", "std_deviation", "sum_of_squares"]),
                ),
            };
            let n = self.name(kind.short());
            subs.push((
                n.clone(),
                Agg::Metric {
                    kind,
                    field: f,
                    missing: None,
                    sigma: None,
                },
            ));
            order = Some((OrdT::Sub(n, prop.to_string()), self.rng.bool()));
        }
        // min_doc_count = 0 returns every dictionary term: only meaningful (and partition
        // independent) at the top level
        let min_doc_count = match self.rng.below(8) {
            0 => Some(1),
            1 => Some(2),
            2 => Some(self.rng.range(2, 6)),
            3 if top && field.ty() == Ty::Str => Some(0),
            _ => None,
        };
        let show_err = *self.rng.pick(&[None, None, Some(true), Some(false)]);
        (
            self.name("terms"),
            Agg::Terms {
                field,
                size,
                segment_size,
                min_doc_count,
                order,
                missing,
                show_err,
                approx: false,
                include,
                exclude,
                subs,
            },
        )
    }

    /// terms with a small segment_size: only the documented bounds hold
    pub fn gen_terms_approx(&mut self) -> (String, Agg) {
        let field = *self.rng.pick(&[Fd::Cat, Fd::Tag, Fd::Txt, Fd::Fi, Fd::Im]);
        let size = self.rng.range(1, 6) as u32;
        let segment_size = size + self.rng.range(0, 3) as u32;
        let subs = if self.rng.bool() {
            vec![self.gen_metric()]
        } else {
            vec![]
        };
        (
            self.name("termsapprox"),
            Agg::Terms {
                field,
                size: Some(size),
                segment_size: Some(segment_size),
                min_doc_count: None,
                order: if self.rng.bool() { None } else { Some((OrdT::Count, false)) },
                missing: None,
                show_err: Some(true),
                approx: true,
                include: None,
                exclude: None,
                subs,
            },
        )
    }

    // -----------------------------------------------------------------------------------------
    // focus shapes: families of requests that the free generator reaches too rarely

    /// upper estimate of the number of buckets a request creates (the default bucket limit of
    /// 65 000 answers larger requests with an error, which is correct but tells nothing)
    pub fn est_buckets(&self, a: &Agg) -> f64 {
        let span_in = |f: Fd, scale: f64| self.corpus.span(f).map(|(lo, hi)| (lo / scale, hi / scale));
        let grid = |f: Fd, scale: f64, interval: f64, ext: &Option<(f64, f64)>| -> f64 {
            let (mut lo, mut hi) = span_in(f, scale).unwrap_or((0.0, 0.0));
            if let Some((a, b)) = ext {
                lo = lo.min(*a);
                hi = hi.max(*b);
            }
            ((hi - lo) / interval.max(1e-9)).ceil() + 2.0
        };
        let own = match a {
            Agg::Terms { field, .. } => self.corpus.distinct(*field) as f64 + 1.0,
            Agg::Hist { field, interval, ext, .. } => {
                let scale = if field.ty() == Ty::Date { 1e6 } else { 1.0 };
                grid(*field, scale, *interval, ext)
            }
            Agg::DateHist { field, interval, ext, .. } => grid(*field, 1e6, interval.1 as f64, ext),
            Agg::Range { ranges, .. } => ranges.len() as f64 + 2.0,
            Agg::Filter { .. } => 1.0,
            Agg::Composite { sources, size, .. } => {
                let all: f64 = sources.iter().map(|s| self.corpus.distinct(s.field) as f64 + 1.0).product();
                all.min(*size as f64)
            }
            _ => return 0.0,
        };
        let below: f64 = a.subs().map(|s| s.iter().map(|(_, x)| self.est_buckets(x)).sum()).unwrap_or(0.0);
        own * (1.0 + below)
    }

    /// `inner` below `parent` unless that would multiply into too many buckets; then `inner` alone
    fn nest_if_small(&mut self, name: String, mut parent: Agg, inner: (String, Agg)) -> (String, Agg) {
        let own = self.est_buckets(&parent).max(1.0);
        if own * (1.0 + self.est_buckets(&inner.1)) > 20_000.0 {
            return inner;
        }
        if let Some(s) = parent.subs_mut() {
            s.push(inner);
        }
        (name, parent)
    }

    /// one sub aggregation, every kind equally likely (metrics 0..=6, percentiles, cardinality,
    /// top_hits, and with `allow_bucket` terms / histogram / date_histogram / range / filter /
    /// composite)
    pub fn gen_sub_uniform(&mut self, allow_bucket: bool, depth: usize) -> (String, Agg) {
        const MKS: [MK; 7] = [MK::Count, MK::Sum, MK::Min, MK::Max, MK::Avg, MK::Stats, MK::ExtStats];
        let k = self.rng.usize_below(if allow_bucket { 16 } else { 10 });
        match k {
            0..=6 => self.gen_metric_branch(0, Some(MKS[k])),
            7 => self.gen_metric_branch(1, None),
            8 => self.gen_metric_branch(2, None),
            9 => self.gen_metric_branch(3, None),
            _ => self.gen_bucket_branch(k - 10, depth, false),
        }
    }

    /// wraps `inner` into a parent bucket aggregation without other sub aggregations of its own
    /// (filter / range / low-cardinality terms / histogram), so that `inner` is not top-level
    fn wrap_in_parent(&mut self, inner: (String, Agg)) -> (String, Agg) {
        let (name, parent) = match self.rng.below(5) {
            0 => {
                let q = match self.rng.below(3) {
                    0 => FilterQ::All,
                    1 => FilterQ::BoolIs(self.rng.bool()),
                    _ => {
                        let n = self.corpus.docs.len() as u64;
                        FilterQ::IdRange(self.rng.range(0, n / 4 + 1), n)
                    }
                };
                (self.name("filter"), Agg::Filter { q, subs: vec![] })
            }
            1 => self.gen_bucket_branch(3, 0, true),
            2 => {
                let f = *self.rng.pick(&[Fd::Rank, Fd::Fb, Fd::Cat]);
                let (name, mut t) = self.gen_terms_on(f, 0, false);
                // every bucket is returned: no arbitrary choice among ties at the `size` cut
                let all = self.corpus.distinct(f) as u32 + 5;
                if let Agg::Terms { size, segment_size, .. } = &mut t {
                    *size = Some(all);
                    *segment_size = Some(all);
                }
                (name, t)
            }
            3 => {
                let f = *self.rng.pick(&[Fd::Rank, Fd::Id, Fd::Fi]);
                self.gen_hist_on(f, 0)
            }
            _ => (
                self.name("filter"),
                Agg::Filter {
                    q: FilterQ::All,
                    subs: vec![],
                },
            ),
        };
        self.nest_if_small(name, parent, inner)
    }

    /// Terms ordered by `_key`, top-level or below another bucket aggregation, with and without a
    /// per segment cut-off. For this order the cut-off (every segment keeps its first
    /// `segment_size >= size` keys in the requested order) cannot change the final result as long
    /// as `min_doc_count <= 1`: a key among the first `size` keys of the corpus is among the first
    /// `size` keys of every segment that holds it. The comparison therefore stays exact.
    /// Returns the aggregation and a tag of the variant for the evidence.
    pub fn gen_terms_by_key(&mut self) -> ((String, Agg), String) {
        let field = *self.rng.pick(&[
            Fd::Cat,
            Fd::Tag,
            Fd::Tag,
            Fd::Txt,
            Fd::Fi,
            Fd::Fi,
            Fd::Fu,
            Fd::Ff,
            Fd::Ff,
            Fd::Ff,
            Fd::Fdt,
            Fd::Fip,
            Fd::Im,
            Fd::Rank,
            Fd::Id,
        ]);
        let distinct = self.corpus.distinct(field) as u32;
        let cut = distinct >= 2 && self.rng.chance(2, 3);
        let (size, segment_size) = if cut {
            if distinct > 10 && self.rng.chance(1, 3) {
                // default segment_size = 10 * size < number of distinct terms
                let size = self.rng.range(1, ((distinct - 1) / 10) as u64) as u32;
                (Some(size), None)
            } else {
                let cands = [1, 2, 3, distinct / 4, distinct / 2, distinct - 1];
                let s = (*self.rng.pick(&cands)).clamp(1, distinct - 1);
                let size = match self.rng.below(3) {
                    0 => s,
                    1 => 1,
                    _ => self.rng.range(1, s as u64) as u32,
                };
                (Some(size), Some(s))
            }
        } else {
            let card = distinct + 2;
            let size = match self.rng.below(4) {
                0 => None,
                1 => Some(card + 3),
                2 => Some(self.rng.range(1, 4) as u32),
                _ => Some(self.rng.range(1, card as u64) as u32),
            };
            (size, Some(card + self.rng.range(0, 2) as u32))
        };
        let subs = match self.rng.below(3) {
            0 => vec![],
            1 => vec![self.gen_sub_uniform(false, 0)],
            _ => self.gen_subs(2, false),
        };
        let asc = self.rng.bool();
        let min_doc_count = *self.rng.pick(&[None, None, Some(1)]);
        let show_err = *self.rng.pick(&[None, None, Some(true), Some(false)]);
        let mut inner = (
            self.name("terms"),
            Agg::Terms {
                field,
                size,
                segment_size,
                min_doc_count,
                order: Some((OrdT::Key, asc)),
                missing: None,
                show_err,
                approx: false,
                include: None,
                exclude: None,
                subs,
            },
        );
        if self.est_buckets(&inner.1) > 20_000.0 {
            let metric = self.gen_sub_uniform(false, 0);
            if let Some(s) = inner.1.subs_mut() {
                *s = vec![metric];
            }
        }
        let nested = self.rng.chance(1, 2);
        let tag = format!(
            "terms-by-key/{}/{}/{:?}",
            if cut { "segment-cut" } else { "uncut" },
            if nested { "nested" } else { "top" },
            field.ty()
        );
        if nested {
            (self.wrap_in_parent(inner), tag)
        } else {
            (inner, tag)
        }
    }

    /// A bucket aggregation over the values of a single-valued field with a metric over the same
    /// field below it: every bucket of a terms / composite-terms parent holds one constant value
    /// (narrow histogram and range buckets nearly constant ones), also values whose sums are not
    /// exactly representable (ns timestamps, large integers, non-dyadic fractions).
    pub fn gen_same_field_metric(&mut self) -> ((String, Agg), String) {
        let absent = self.corpus.absent_numeric_fields();
        if self.corpus.docs.len() >= 30 && !absent.is_empty() && self.rng.chance(1, 2) {
            return self.gen_metric_over_missing_run(&absent);
        }
        let cands = [Fd::Ff, Fd::Ff, Fd::Fdt, Fd::Fdt, Fd::Fi, Fd::Fu, Fd::Id, Fd::Rank];
        // two times out of three a field whose values repeat often (long runs of one value in a
        // bucket), if there is one
        let repeated: Vec<Fd> = cands.iter().cloned().filter(|f| self.corpus.repetition(*f) >= 30.0).collect();
        let wide_runs = self.corpus.wide_run_fields();
        let field = if !wide_runs.is_empty() && self.rng.chance(3, 4) {
            // long runs of one value whose sums are rounded
            *self.rng.pick(&wide_runs)
        } else if !repeated.is_empty() && self.rng.chance(1, 2) {
            *self.rng.pick(&repeated)
        } else {
            *self.rng.pick(&cands)
        };
        let on_wide_run = wide_runs.contains(&field);
        let kind = if on_wide_run && self.rng.chance(1, 2) {
            MK::ExtStats
        } else {
            *self.rng.pick(&[MK::ExtStats, MK::ExtStats, MK::ExtStats, MK::Stats, MK::Avg, MK::Sum])
        };
        // `missing` turns a sparse or absent field into a long run of one value
        let missing = if self.rng.chance(2, 5) { Some(self.missing_value(field)) } else { None };
        let sigma = if kind == MK::ExtStats && self.rng.chance(1, 3) {
            Some(*self.rng.pick(&[1.0, 3.0, 0.5]))
        } else {
            None
        };
        let metric = (
            self.name(kind.short()),
            Agg::Metric {
                kind,
                field,
                missing,
                sigma,
            },
        );
        let pk = self.rng.below(5);
        let (name, mut parent) = match pk {
            0 | 1 => self.gen_terms_on(field, 0, true),
            2 => self.gen_hist_on(field, 0),
            3 => {
                let size = *self.rng.pick(&[10u32, 50, 1000]);
                (
                    self.name("composite"),
                    Agg::Composite {
                        sources: vec![CSrc {
                            name: "s0".into(),
                            kind: CK::Terms,
                            field,
                            asc: self.rng.bool(),
                            missing_bucket: self.rng.chance(1, 3),
                            missing_order: 0,
                        }],
                        size,
                        after: None,
                        subs: vec![],
                    },
                )
            }
            _ => {
                // the whole (sparse or absent) field replaced by `missing`, or a constant filter
                let q = match self.rng.below(3) {
                    0 => FilterQ::All,
                    1 => FilterQ::BoolIs(self.rng.bool()),
                    _ => FilterQ::Cat(format!("c{}", self.rng.usize_below(self.corpus.cat_pool))),
                };
                (self.name("filter"), Agg::Filter { q, subs: vec![] })
            }
        };
        let tag = format!(
            "same-field-metric/{}>{}/{:?}{}",
            parent.kind(),
            kind.short(),
            field.ty(),
            if on_wide_run { "/wide-run" } else { "" }
        );
        if let Some(s) = parent.subs_mut() {
            s.push(metric);
        }
        ((name, parent), tag)
    }

    /// A metric with a `missing` value over a field that no document of the corpus has: every
    /// document contributes the same (long mantissa) value, top-level or per bucket of a parent.
    fn gen_metric_over_missing_run(&mut self, absent: &[Fd]) -> ((String, Agg), String) {
        let field = *self.rng.pick(absent);
        let kind = *self.rng.pick(&[MK::ExtStats, MK::ExtStats, MK::ExtStats, MK::ExtStats, MK::Stats, MK::Avg, MK::Sum]);
        let sigma = if kind == MK::ExtStats && self.rng.chance(1, 3) {
            Some(*self.rng.pick(&[1.0, 3.0, 0.5]))
        } else {
            None
        };
        let missing = Some(self.wide_missing_value(field));
        let metric = (
            self.name(kind.short()),
            Agg::Metric {
                kind,
                field,
                missing,
                sigma,
            },
        );
        let tag = format!("same-field-metric/absent-field-with-missing>{}/{:?}/wide-run", kind.short(), field.ty());
        if self.rng.chance(1, 3) {
            (metric, tag)
        } else {
            (self.wrap_in_parent(metric), tag)
        }
    }

    /// A range aggregation with buckets that no document can fall into (before the smallest and
    /// after the largest value, and open ended on both sides), with one or two sub aggregations of
    /// any kind: parent buckets that exist without ever receiving a document.
    pub fn gen_empty_parent_bucket(&mut self) -> ((String, Agg), String) {
        // the cut points are computed in f64: only fields whose values leave room for that
        let mut cands = vec![Fd::Rank, Fd::Id];
        for f in [Fd::Fi, Fd::Ff, Fd::Fu] {
            if self.corpus.span(f).map(|(lo, hi)| lo.abs() < 1e15 && hi.abs() < 1e15).unwrap_or(true) {
                cands.push(f);
            }
        }
        let field = *self.rng.pick(&cands);
        let unsigned = field.ty() == Ty::U64;
        let (lo, hi) = self.corpus.span(field).unwrap_or((0.0, 10.0));
        let (lo, hi) = (lo.floor(), hi.floor() + 1.0);
        let mid = ((lo + hi) / 2.0).floor();
        // ascending cut points; [hi, hi + 7) and everything after it is empty, and (for signed
        // fields) everything before lo
        let mut cuts: Vec<f64> = vec![];
        if !unsigned && self.rng.bool() {
            cuts.push(lo - 5.0);
        }
        cuts.push(lo.max(if unsigned { 1.0 } else { f64::MIN }));
        if mid > cuts[cuts.len() - 1] && self.rng.bool() {
            cuts.push(mid);
        }
        if hi > cuts[cuts.len() - 1] {
            cuts.push(hi);
        }
        cuts.push(cuts[cuts.len() - 1] + 7.0);
        if self.rng.bool() {
            cuts.push(cuts[cuts.len() - 1] + 100.0);
        }
        let mut ranges: Vec<Rg> = vec![];
        if self.rng.bool() {
            ranges.push(Rg {
                from: None,
                to: Some(cuts[0]),
                key: None,
            });
        }
        for w in cuts.windows(2) {
            ranges.push(Rg {
                from: Some(w[0]),
                to: Some(w[1]),
                key: None,
            });
        }
        if self.rng.bool() {
            ranges.push(Rg {
                from: Some(cuts[cuts.len() - 1]),
                to: None,
                key: None,
            });
        }
        let mut subs = vec![self.gen_sub_uniform(true, 1)];
        if self.rng.chance(1, 3) {
            subs.push(self.gen_sub_uniform(true, 0));
        }
        let tag = format!("empty-parent-bucket/range>{}", subs[0].1.kind());
        let inner = (
            self.name("range"),
            Agg::Range {
                field,
                ranges,
                keyed: self.rng.chance(1, 5),
                subs,
            },
        );
        if self.rng.chance(1, 4) {
            (self.wrap_in_parent(inner), format!("{tag}/nested"))
        } else {
            (inner, tag)
        }
    }

    /// Any bucket aggregation with (at least) one sub aggregation of a uniformly chosen kind. Meant
    /// for segments that are larger than the sub aggregation buffer (2048 documents), where the
    /// sub aggregation collectors are fed by several flushes announcing different bucket ranges.
    pub fn gen_bucket_over_any_sub(&mut self) -> ((String, Agg), String) {
        let branch = self.rng.weighted(&[40, 20, 8, 10, 2, 20]);
        // below another bucket aggregation every parent buffers its sub aggregations in the
        // partitioned (high cardinality) buffer: preferred when segments are flushed more than once
        let top = if self.corpus.docs.len() > 2048 {
            self.rng.chance(1, 3)
        } else {
            self.rng.chance(2, 3)
        };
        let depth = self.rng.urange(0, 1);
        let (name, mut parent) = self.gen_bucket_branch(branch, depth, top);
        let composite = matches!(parent, Agg::Composite { .. });
        // top_hits keeps per bucket state of its own kind (a heap per bucket): a third of the subs
        let sub = if self.rng.chance(1, 3) {
            self.gen_metric_branch(3, None)
        } else {
            self.gen_sub_uniform(!composite, 1)
        };
        let sub = if self.est_buckets(&parent).max(1.0) * (1.0 + self.est_buckets(&sub.1)) > 20_000.0 {
            // too many buckets: a metric instead
            if self.rng.chance(1, 3) {
                self.gen_metric_branch(3, None)
            } else {
                self.gen_sub_uniform(false, 0)
            }
        } else {
            sub
        };
        let tag = format!("bucket-over-any-sub/{}>{}", parent.kind(), sub.1.kind());
        if let Some(s) = parent.subs_mut() {
            s.push(sub);
        }
        if !top {
            (self.wrap_in_parent((name, parent)), tag)
        } else {
            ((name, parent), tag)
        }
    }

    /// is the field a full column (exactly one value in every document of the corpus)?
    pub fn is_full(&self, f: Fd) -> bool {
        !self.corpus.docs.is_empty() && self.corpus.docs.iter().all(|d| d.get(f).len() == 1)
    }

    /// One sub aggregation for the placeholder family: every kind is reached; the kinds whose
    /// intermediate result carries something of the request or of the column (extended_stats
    /// sigma, percentiles, top_hits, cardinality, histogram / range date flag, composite paging)
    /// twice as often, with non-default parameters, and histogram / range / terms half of the time
    /// over the date field.
    fn gen_placeholder_sub(&mut self) -> (String, Agg) {
        const MKS: [MK; 6] = [MK::Count, MK::Sum, MK::Min, MK::Max, MK::Avg, MK::Stats];
        //            0..=5 plain metrics, 6 xstats, 7 pct, 8 card, 9 tophits, 10 terms, 11 hist,
        //            12 datehist, 13 range, 14 filter, 15 composite
        let k = self.rng.weighted(&[1, 1, 1, 1, 1, 1, 3, 2, 2, 2, 1, 3, 2, 3, 1, 2]);
        let depth = self.rng.urange(0, 1);
        match k {
            0..=5 => self.gen_metric_branch(0, Some(MKS[k])),
            6 => {
                let (name, mut a) = self.gen_metric_branch(0, Some(MK::ExtStats));
                if let Agg::Metric { sigma, .. } = &mut a {
                    if self.rng.chance(3, 4) {
                        *sigma = Some(*self.rng.pick(&[1.0, 3.0, 0.5, 1.5, 0.0]));
                    }
                }
                (name, a)
            }
            7 => self.gen_metric_branch(1, None),
            8 => self.gen_metric_branch(2, None),
            9 => self.gen_metric_branch(3, None),
            10 => {
                let f = *self.rng.pick(&[Fd::Rank, Fd::Fb, Fd::Cat, Fd::Fdt, Fd::Fi, Fd::Fip]);
                let (name, mut t) = self.gen_terms_on(f, depth, false);
                // every bucket is returned: no arbitrary choice among ties at the `size` cut
                let all = self.corpus.distinct(f) as u32 + 5;
                if let Agg::Terms { size, segment_size, .. } = &mut t {
                    *size = Some(all);
                    *segment_size = Some(all);
                }
                (name, t)
            }
            11 => {
                let f = if self.rng.chance(1, 3) { Fd::Fdt } else { self.pick_single_num_field(true) };
                self.gen_hist_on(f, depth)
            }
            13 => {
                let f = if self.rng.bool() { Fd::Fdt } else { self.pick_single_num_field(true) };
                self.gen_range_on(f, depth)
            }
            _ => self.gen_bucket_branch(k - 10, depth, false),
        }
    }

    /// The placeholder family: a top-level terms aggregation over a string field with
    /// `min_doc_count: 0` (every term of a segment's dictionary gets a bucket, with an empty
    /// placeholder result for its sub aggregations when no matching document of that segment has
    /// the term) x one to three sub aggregations of every kind. Meant to be run with a filtering
    /// query over several segments / indexes: the placeholder of one partition is then merged, as
    /// the left or the right operand, with the real result of another partition.
    pub fn gen_terms_mdc0_over_sub(&mut self) -> ((String, Agg), String) {
        let cands: Vec<Fd> = [Fd::Cat, Fd::Cat, Fd::Tag, Fd::Txt]
            .into_iter()
            .filter(|f| self.corpus.distinct(*f) > 0)
            .collect();
        let field = if cands.is_empty() { Fd::Cat } else { *self.rng.pick(&cands) };
        let all = self.corpus.distinct(field) as u32 + 2 + self.rng.range(0, 3) as u32;
        let size = match self.rng.below(6) {
            0 => None,
            1 => Some(self.rng.range(1, all as u64) as u32),
            _ => Some(all),
        };
        let (include, exclude) = if self.rng.chance(1, 5) { self.gen_inc_exc(field) } else { (None, None) };
        let order = match self.rng.below(6) {
            0 => None,
            1 => Some((OrdT::Count, false)),
            2 => Some((OrdT::Count, true)),
            3 | 4 => Some((OrdT::Key, true)),
            _ => Some((OrdT::Key, false)),
        };
        let mut subs = vec![];
        let nsubs = self.rng.weighted(&[0, 50, 35, 15]);
        let budget = 20_000.0 / (all as f64 + 1.0);
        let mut kinds = vec![];
        for _ in 0..nsubs {
            let mut sub = self.gen_placeholder_sub();
            for _ in 0..3 {
                if self.est_buckets(&sub.1) <= budget / nsubs as f64 {
                    break;
                }
                sub = self.gen_placeholder_sub();
            }
            if self.est_buckets(&sub.1) > budget / nsubs as f64 {
                sub = self.gen_sub_uniform(false, 0);
            }
            kinds.push(match &sub.1 {
                Agg::Hist { field, .. } | Agg::Range { field, .. } | Agg::Terms { field, .. } if field.ty() == Ty::Date => {
                    format!("{}:date", sub.1.kind())
                }
                a => a.kind().to_string(),
            });
            subs.push(sub);
        }
        kinds.sort();
        let tag = format!("terms-mdc0/{}>{}", field.name(), kinds.join("+"));
        (
            (
                self.name("terms"),
                Agg::Terms {
                    field,
                    size,
                    segment_size: Some(all),
                    min_doc_count: Some(0),
                    order,
                    missing: None,
                    show_err: *self.rng.pick(&[None, None, Some(true), Some(false)]),
                    approx: false,
                    include,
                    exclude,
                    subs,
                },
            ),
            tag,
        )
    }

    /// The fused terms x histogram family: a top-level terms aggregation over a string field
    /// (a full column when the corpus has one) with exactly one histogram / date_histogram leaf
    /// over a numeric / date field (a full column when there is one) x include / exclude x
    /// hard_bounds that cut values (both sides, one side, a single point, or not binding) x
    /// min_doc_count / order / size of the terms x min_doc_count / extended_bounds / offset of the
    /// histogram. The number of histogram buckets is kept small so that terms x buckets mostly
    /// stays below the size limit of the fused collector's grid, and sometimes exceeds it.
    pub fn gen_fused_terms_hist(&mut self) -> ((String, Agg), String) {
        let full_str: Vec<Fd> = [Fd::Cat, Fd::Tag].into_iter().filter(|f| self.is_full(*f)).collect();
        let field = if !full_str.is_empty() && self.rng.chance(9, 10) {
            *self.rng.pick(&full_str)
        } else {
            *self.rng.pick(&[Fd::Cat, Fd::Tag, Fd::Txt])
        };
        let mut full_num: Vec<Fd> = [Fd::Rank, Fd::Id, Fd::Fi, Fd::Ff, Fd::Fu, Fd::Fdt]
            .into_iter()
            .filter(|f| self.is_full(*f))
            .filter(|f| self.corpus.span(*f).map(|(lo, hi)| lo.abs() < 1e15 && hi.abs() < 1e15 || f.ty() == Ty::Date).unwrap_or(false))
            .collect();
        if full_num.is_empty() || self.rng.chance(1, 12) {
            full_num = vec![Fd::Fi, Fd::Ff, Fd::Fdt, Fd::Rank];
        }
        let hf = *self.rng.pick(&full_num);
        let date_hist = hf == Fd::Fdt && self.rng.chance(2, 3);
        // the histogram
        let (name, mut hist) = if date_hist {
            self.gen_bucket_branch(2, 0, false)
        } else {
            self.gen_hist_on(hf, 0)
        };
        // hard bounds in the unit of the request (ms for dates)
        let scale = if hf.ty() == Ty::Date { 1e6 } else { 1.0 };
        let (lo, hi) = self.corpus.span(hf).map(|(a, b)| (a / scale, b / scale)).unwrap_or((0.0, 10.0));
        let w = (hi - lo).max(1.0);
        let integral = hf.ty() != Ty::F64;
        let r = |x: f64| if integral { x.round() } else { x };
        let mid = r(lo + w * self.rng.f64());
        let hb = match self.rng.below(9) {
            0 | 1 => Some((r(lo + w * 0.2), r(hi - w * 0.3))),
            2 => Some((r(lo + w * 0.5), hi + w)),
            3 => Some((lo - w, r(hi - w * 0.5))),
            4 => Some((mid, mid)),
            5 => Some((lo - w, hi + w)),
            6 => Some((lo, hi)),
            _ => None,
        };
        let hb = hb.filter(|h| h.0 <= h.1);
        let mut binding = false;
        match &mut hist {
            Agg::Hist { hard, ext, keyed, .. } | Agg::DateHist { hard, ext, keyed, .. } => {
                *keyed = false;
                if self.rng.chance(4, 5) {
                    *hard = hb;
                    // extended bounds have to lie inside the hard bounds
                    *ext = match (*ext, hb) {
                        (Some(e), Some(h)) => Some((e.0.max(h.0), e.1.min(h.1))).filter(|e| e.0 <= e.1),
                        (e, _) => e,
                    };
                }
                if let Some(h) = hard {
                    binding = h.0 > lo || h.1 < hi;
                }
            }
            _ => {}
        }
        // terms x histogram buckets mostly below the size limit of the fused grid (16384 cells)
        let nterms = self.corpus.distinct(field) as f64 + 1.0;
        if nterms * self.est_buckets(&hist) > 12_000.0 && self.rng.chance(4, 5) {
            let target = (12_000.0 / nterms).floor().max(1.0);
            match &mut hist {
                Agg::Hist { interval, offset, ext, .. } => {
                    let iv = w / target;
                    *interval = if integral { iv.ceil().max(1.0) } else { iv };
                    *offset = None;
                    *ext = None;
                }
                Agg::DateHist { interval, offset, ext, .. } => {
                    if let Some((txt, ms)) = DATE_IVS.iter().find(|(_, ms)| w / (*ms as f64) <= target) {
                        *interval = (txt.to_string(), *ms);
                        *offset = None;
                        *ext = None;
                    }
                }
                _ => {}
            }
        }
        let hist_kind = hist.kind();
        // the terms
        let (tname, mut terms) = self.gen_terms_on(field, 0, true);
        let mut filtered = "none";
        if let Agg::Terms { subs, missing, include, exclude, min_doc_count, order, .. } = &mut terms {
            *subs = vec![(name, hist)];
            if matches!(order, Some((OrdT::Sub(..), _))) {
                *order = None;
            }
            if self.rng.chance(2, 3) {
                *missing = None;
                let (i, e) = self.gen_inc_exc(field);
                filtered = match (&i, &e) {
                    (Some(_), Some(_)) => "include+exclude",
                    (Some(_), None) => "include",
                    _ => "exclude",
                };
                *include = i;
                *exclude = e;
            } else if include.is_some() || exclude.is_some() {
                filtered = "some";
            }
            if self.rng.chance(1, 6) {
                *min_doc_count = Some(0);
            }
        }
        if self.est_buckets(&terms) > 40_000.0 {
            // far beyond the bucket limit: fewer histogram buckets
            if let Agg::Terms { subs, .. } = &mut terms {
                if let Some((_, Agg::Hist { interval, ext, .. })) = subs.first_mut() {
                    *interval = if integral { (w / 8.0).ceil().max(1.0) } else { w / 8.0 };
                    *ext = None;
                }
            }
        }
        let tag = format!(
            "fused-terms-hist/{}{}>{}/{}/{}",
            field.name(),
            if self.is_full(field) { "(full)" } else { "" },
            hist_kind,
            filtered,
            if binding { "binding-hard-bounds" } else { "no-binding-bounds" }
        );
        ((tname, terms), tag)
    }

    pub fn gen_request(&mut self) -> Aggs {
        let mut aggs = vec![];
        let n = self.rng.weighted(&[0, 60, 30, 10]);
        for _ in 0..n {
            if self.rng.chance(70, 100) {
                let depth = self.rng.weighted(&[25, 45, 30]); // sub levels below the bucket
                let mut a = self.gen_bucket(depth, true);
                // beyond the default bucket limit (65 000) the correct answer is an error, which
                // tells nothing: such trees (high-cardinality terms x histogram grid on the large
                // corpora) are drawn again, at most three times
                for _ in 0..3 {
                    if self.est_buckets(&a.1) <= 40_000.0 {
                        break;
                    }
                    a = self.gen_bucket(depth.min(1), true);
                }
                if self.est_buckets(&a.1) > 40_000.0 {
                    a = self.gen_metric();
                }
                aggs.push(a);
            } else {
                aggs.push(self.gen_metric());
            }
        }
        aggs
    }
}
