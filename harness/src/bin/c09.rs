//! C09 — stored documents are returned exactly as they were added.
//!
//! Two streams:
//! * `store`: `StoreWriter` / `StoreReader` driven directly over a `RamDirectory` — every
//!   compressor, block size, dedicated thread on/off; block counts aimed at the 8-way skip-index
//!   boundaries; documents aimed at the block size; then a second-generation store built by
//!   stacking / copying raw bytes / re-serialising (what a merge does), read back again.
//! * `index`: the same documents through `IndexWriter` with `IndexSettings`, read through
//!   `Searcher::doc` and `SegmentReader::get_store_reader(cache)`; deletes; merges that stack or
//!   re-compress; sorted indexes (temp store re-read, interleaved merge).
//!
//! * `vint`: stored text / bytes / JSON-string values whose byte length straddles each VInt width
//!   boundary (127/128, 16383/16384, 2^21-1 / 2^21 / 2^21+5), before and after a merge.
//! * `concurrent`: 4-8 threads hop between blocks through ONE shared `Searcher` and ONE shared
//!   `StoreReader` (cache 0/1/2/100) of a segment with hundreds of blocks.
//!
//! Oracle: the model document (list of (field, typed value) in insertion order). Per field the
//! returned values must equal the model values in order; non-stored fields must be absent;
//! `iter(alive)` must yield exactly the live documents in doc-id order.
#[path = "c09_util/mod.rs"]
mod c09_util;
#[path = "c09_util/indexcase.rs"]
mod indexcase;
#[path = "c09_util/storecase.rs"]
mod storecase;
#[path = "c09_util/verify.rs"]
mod verify;

use tvmon::report::*;

fn main() {
    let ctx = Ctx::from_env("C09", "exploration");
    let deep = !ctx.quick();
    let n_store = ctx.scale(240, 6000) as u64;
    let n_index = ctx.scale(64, 1000) as u64;
    let slow: std::sync::Mutex<Vec<(f64, String)>> = std::sync::Mutex::new(vec![]);
    let dbg = std::env::var("C09_DEBUG").is_ok();
    let mut rep = run_cases(&ctx, "store", n_store, |c, rng, rep| {
        let t = std::time::Instant::now();
        storecase::store_case(c, rng, rep, deep);
        if dbg {
            slow.lock().unwrap().push((t.elapsed().as_secs_f64(), format!("store#{c}")));
        }
    });
    let t_store = ctx.start.elapsed().as_secs_f64();
    let rep2 = run_cases(&ctx, "index", n_index, |c, rng, rep| {
        let t = std::time::Instant::now();
        indexcase::index_case(c, rng, rep, deep);
        if dbg {
            slow.lock().unwrap().push((t.elapsed().as_secs_f64(), format!("index#{c}")));
        }
    });
    let rep3 = run_cases(&ctx, "vint", ctx.scale(3, 12) as u64, |c, rng, rep| {
        let t = std::time::Instant::now();
        indexcase::vint_case(c, rng, rep, deep);
        if dbg {
            slow.lock().unwrap().push((t.elapsed().as_secs_f64(), format!("vint#{c}")));
        }
    });
    let rep5 = run_cases(&ctx, "single-segment", ctx.scale(40, 1500) as u64, |c, rng, rep| {
        indexcase::single_segment_case(c, rng, rep, deep);
    });
    // the concurrent stream runs its own 4-8 threads per case: few cases side by side
    let mut cctx = ctx.clone();
    cctx.threads = ctx.threads.min(3);
    let rep4 = run_cases(&cctx, "concurrent", ctx.scale(6, 60) as u64, |c, rng, rep| {
        let t = std::time::Instant::now();
        indexcase::concurrent_case(c, rng, rep, deep);
        if dbg {
            slow.lock().unwrap().push((t.elapsed().as_secs_f64(), format!("concurrent#{c}")));
        }
    });
    if dbg {
        let mut v = slow.into_inner().unwrap();
        v.sort_by(|a, b| b.0.partial_cmp(&a.0).unwrap());
        eprintln!("store stream took {t_store:.1}s; slowest cases: {:?}", v.iter().take(12).collect::<Vec<_>>());
    }
    rep.merge(rep2);
    rep.merge(rep3);
    rep.merge(rep4);
    rep.merge(rep5);
    if std::env::var("C09_DEBUG").is_ok() {
        for (k, v) in &rep.sets {
            eprintln!("set {k}: {:?}", v.iter().take(40).collect::<Vec<_>>());
        }
    }
    simple_finish(
        &ctx,
        rep,
        "a case = one family of doc stores (store stream: 1-3 fresh stores + possibly one combined by stack/copy/re-serialise; \
         index stream: 1-4 committed segments + 1-2 merges; single-segment stream: one index written by SingleSegmentIndexWriter). Every store is read back completely through iter() with each cache \
         size and through get()/Searcher::doc in adversarial orders. A store is non-trivial when it has >= 2 blocks (by the \
         replayed block-cutting rule) and >= 2 docs and every comparison passed; distinct = (origin, compressor, block-size \
         class, block-count class, dedicated thread)",
        ctx.scale(120, 600),
        &[
            "doc id -> model document at index level is taken from the non-stored fast field `id` (independent of the doc store)",
            "order of values within one field is demanded; order across different fields and order of keys inside a JSON object are only recorded (counters obs_*)",
            "floats are compared by bit pattern, dates by nanoseconds (doc store V2 keeps nanoseconds; DateOptions precision only affects the fast field)",
            "a pre-tokenized string is expected back as its text (se.rs stores PreTokStr as Str at top level)",
            "block / layer counts and the merge path are inferred from the writer's documented rule and the merger's preconditions (classification only, never a verdict); iter_raw is pub(crate) and is reached through iter() and merges",
            "to_json is checked for field set, value counts and exact text/u64/i64/bool values on a sample",
        ],
    );
}
