//! C16 — the query parser is total and implements its documented grammar.
//!
//! Three streams:
//!  * `depth`   nesting-depth sweeps in child processes (a stack overflow is an abort, not a panic)
//!  * `sem`     abstract queries printed with meaning-preserving noise, parsed by `QueryParser`,
//!              executed on a small corpus and compared with a naive evaluation on model documents
//!              (incl. fields whose analyzer removes tokens: a removed token keeps its position)
//!  * `total`   totality + strict/lenient agreement on hostile strings (grammar crate and
//!              QueryParser); the parsers run in worker processes (`--child-total`) because the
//!              lenient parser can loop forever while allocating
//!  * `agree`   strict/lenient agreement on queries that hold a reserved word (AND OR NOT IN TO)
//!              where a value stands: every keyword x quoting style x field form x context, first
//!              systematically, then with random content / suffix / whitespace (same workers)
//!
//! Child modes (same binary): `--child-depth <kind> <n> <api>`, `--child-total`, `--child-one <api#>`.
//! Debug knobs: `C16_ONLY=depth|sem|total|agree`, `C16_TOTAL_N=<cases>`, `C16_DUMP=<file>` (all violations).
#[path = "c16_util/mod.rs"]
mod util;

use std::collections::{BTreeMap, BTreeSet};
use std::io::Write as _;
use std::sync::OnceLock;
use std::time::{Duration, Instant};

use serde_json::{json, Value};
use tantivy::collector::{Count, DocSetCollector};
use tantivy::query::{BooleanQuery, Occur, Query, QueryParser, QueryParserError};
use tantivy::schema::Field;
use tantivy::{Index, IndexWriter, TantivyDocument};
use tantivy_query_grammar as qg;
use tvmon::report::*;
use tvmon::rng::Rng;
use util::*;

// ---------------------------------------------------------------------------------------------
// shared parsers for the totality stream

struct Env {
    /// (name, parser)
    parsers: Vec<(&'static str, QueryParser)>,
}

fn env() -> &'static Env {
    static ENV: OnceLock<Env> = OnceLock::new();
    ENV.get_or_init(|| {
        let fields = build_schema(true);
        let index = Index::create_in_ram(fields.schema.clone());
        register_tokenizers(&index);
        let all_indexed: Vec<Field> = fields
            .schema
            .fields()
            .filter(|(_, e)| e.is_indexed())
            .map(|(f, _)| f)
            .collect();
        let qp_all = QueryParser::for_index(&index, all_indexed.clone());
        let mut qp_conj = QueryParser::for_index(&index, vec![fields.title, fields.body]);
        qp_conj.set_conjunction_by_default();
        let qp_none = QueryParser::for_index(&index, vec![]);
        let mut qp_rx = QueryParser::for_index(&index, vec![fields.title, fields.js]);
        qp_rx.allow_regexes();
        qp_rx.set_field_fuzzy(fields.body, true, 1, true);
        qp_rx.set_field_boost(fields.title, 2.0);
        Env {
            parsers: vec![
                ("all-default", qp_all),
                ("conj", qp_conj),
                ("no-default", qp_none),
                ("regex+fuzzy+boost", qp_rx),
            ],
        }
    })
}

// ---------------------------------------------------------------------------------------------
// strict / lenient agreement

/// canonical rendering of a query that undoes the one structural difference the strict path adds
/// on purpose (`LogicalAst::simplify`: a Should/Must child clause whose children all carry the
/// same occur is spliced into its parent)
fn norm_query(q: &dyn Query) -> String {
    fn simp(q: &dyn Query) -> Result<Vec<(Occur, String)>, String> {
        match q.downcast_ref::<BooleanQuery>() {
            None => Err(format!("{q:?}")),
            Some(b) => {
                let mut out = vec![];
                for (occ, sub) in b.clauses() {
                    match simp(sub.as_ref()) {
                        Err(leaf) => out.push((*occ, leaf)),
                        Ok(children) => {
                            if (*occ == Occur::Should || *occ == Occur::Must)
                                && children.iter().all(|(o, _)| o == occ)
                            {
                                out.extend(children);
                            } else {
                                out.push((*occ, render(&children)));
                            }
                        }
                    }
                }
                Ok(out)
            }
        }
    }
    fn render(c: &[(Occur, String)]) -> String {
        let mut s = String::from("Bool(");
        for (o, q) in c {
            s.push(match o {
                Occur::Must => '+',
                Occur::MustNot => '-',
                Occur::Should => '?',
            });
            s.push_str(q);
            s.push(' ');
        }
        s.push(')');
        s
    }
    match simp(q) {
        Err(leaf) => leaf,
        Ok(c) => render(&c),
    }
}

fn slug(msg: &str) -> String {
    let mut s = String::new();
    for c in msg.chars() {
        match c {
            'a'..='z' | 'A'..='Z' => s.push(c.to_ascii_lowercase()),
            '"' => s.push_str("dq"),
            '\'' => s.push_str("sq"),
            '/' => s.push_str("slash"),
            ')' => s.push_str("rparen"),
            ']' => s.push_str("rbracket"),
            _ => {
                if !s.ends_with('-') {
                    s.push('-')
                }
            }
        }
    }
    s.trim_matches('-').chars().take(60).collect()
}

/// stable class of a lenient syntax error message
fn lenient_error_class(msg: &str) -> String {
    let msg = match msg.find(" at position ") {
        Some(i) => &msg[..i],
        None => msg,
    };
    match msg {
        "missing delimiter /" => "unterminated-regex-literal".to_string(),
        "expected whitespace, closing parenthesis, boost, or end of input" => {
            "regex-literal-followed-by-text".to_string()
        }
        m => slug(m),
    }
}

/// The lenient error messages through which the unchanged tree is known to disagree with a strict
/// parser that succeeds (known_findings.txt, `agree:grammar:strict-ok-lenient-`: regex literals
/// and the rare leftovers of glued operands), each with the characters without which its cause
/// cannot be in the input.
const LISTED_LENIENT_ERRORS: &[(&str, &str)] = &[
    ("unterminated-regex-literal", "/"),
    ("regex-literal-followed-by-text", "/"),
    ("missing-keyword-to", "[{"),
    ("missing-space", ""),
    ("unparsed-end-of-query", ""),
    ("parsed-possible-invalid-field-as-term", ":"),
];

/// Does the strict tree hold an unquoted literal that starts with `<` or `>` (`title:<`, `>=`
/// followed by something that is no range bound)? The lenient grammar cannot produce such a
/// literal: it commits to a range wherever a value starts with `<` or `>`. On these inputs the two
/// parsers disagree by construction - the recorded cause "title:<".
fn strict_has_bare_comparison_word(ast: &qg::UserInputAst) -> bool {
    use qg::{UserInputAst as A, UserInputLeaf as L};
    match ast {
        A::Clause(items) => items.iter().any(|(_, x)| strict_has_bare_comparison_word(x)),
        A::Boost(x, _) => strict_has_bare_comparison_word(x),
        A::Leaf(l) => match &**l {
            L::Literal(lit) => lit.delimiter == qg::Delimiter::None && lit.phrase.starts_with(['<', '>']),
            _ => false,
        },
    }
}

/// Name of the symptom "the lenient parser reports `msg` on `input`, which the strict one accepts
/// as `strict`". Only the messages recorded for the unchanged tree, together with their cause, keep
/// a `lenient-error...` name; any other error of the lenient parser on an input the strict parser
/// accepts - another message, or a recorded one without its cause - is named `but-lenient-error:`
/// and so never falls under a recorded finding.
fn lenient_error_symptom(input: &str, strict: &qg::UserInputAst, msg: &str) -> String {
    let class = lenient_error_class(msg);
    let listed = LISTED_LENIENT_ERRORS
        .iter()
        .any(|(c, needs)| *c == class && (needs.is_empty() || input.contains(|ch: char| needs.contains(ch))));
    if listed {
        format!("lenient-error:{class}")
    } else if strict_has_bare_comparison_word(strict) {
        if class == "expected-word" {
            // nothing at all behind the operator
            format!("lenient-error:{class}")
        } else {
            // whatever the lenient parser took for the bound derails what follows
            format!("lenient-error-after-a-bare-comparison-operator:{class}")
        }
    } else {
        format!("but-lenient-error:{class}")
    }
}

fn qp_error_class(e: &QueryParserError) -> String {
    match e {
        // the strict parser puts the whole query text into the message, the lenient one a fixed
        // message followed by " at position N"
        QueryParserError::SyntaxError(m) if m.contains(" at position ") => format!("syntax:{}", lenient_error_class(m)),
        QueryParserError::SyntaxError(_) => "SyntaxError".to_string(),
        other => {
            let d = format!("{other:?}");
            let end = d.find(|c: char| !c.is_ascii_alphanumeric()).unwrap_or(d.len());
            d[..end].to_string()
        }
    }
}

/// first structural difference between the two syntax trees, as a stable class name
fn ast_diff_class(strict: &qg::UserInputAst, lenient: &qg::UserInputAst) -> String {
    use qg::{UserInputAst as A, UserInputLeaf as L};
    fn kind(a: &A) -> &'static str {
        match a {
            A::Clause(_) => "clause",
            A::Boost(_, _) => "boost",
            A::Leaf(l) => match **l {
                L::Literal(_) => "literal",
                L::All => "all",
                L::Range { .. } => "range",
                L::Set { .. } => "set",
                L::Exists { .. } => "exists",
                L::Regex { .. } => "regex",
            },
        }
    }
    fn unquote(s: &str) -> Option<&str> {
        for q in ['"', '\''] {
            if s.len() >= 2 && s.starts_with(q) && s.ends_with(q) {
                return Some(&s[1..s.len() - 1]);
            }
        }
        None
    }
    fn bound(a: &qg::UserInputBound, b: &qg::UserInputBound) -> Option<String> {
        if a == b {
            return None;
        }
        if std::mem::discriminant(a) != std::mem::discriminant(b) {
            return Some("range-bound-kind".into());
        }
        if a.term_str().contains('\\') {
            return Some("range-bound-backslash-escape-read-only-by-lenient".into());
        }
        Some("range-bound-text".into())
    }
    fn leaf(s: &L, l: &L) -> String {
        match (s, l) {
            (L::Literal(a), L::Literal(b)) => {
                if a.field_name != b.field_name {
                    "literal-field".into()
                } else if a.phrase != b.phrase {
                    if b.phrase.starts_with(&a.phrase) {
                        "literal-lenient-word-longer".into()
                    } else {
                        "literal-text".into()
                    }
                } else if a.delimiter != b.delimiter {
                    "literal-delimiter".into()
                } else {
                    "literal-slop-or-prefix".into()
                }
            }
            (L::Set { field: fa, elements: ea }, L::Set { field: fb, elements: eb }) => {
                if fa != fb {
                    return "set-field".into();
                }
                if ea.len() == eb.len() {
                    for (x, y) in ea.iter().zip(eb.iter()) {
                        if x != y {
                            return if unquote(y).is_some() && !(unquote(x).is_some() && x == y) {
                                "set-element-after-whitespace-keeps-its-quotes".into()
                            } else {
                                "set-element-text".into()
                            };
                        }
                    }
                }
                "set-element-count".into()
            }
            (L::Range { field: fa, lower: la, upper: ua }, L::Range { field: fb, lower: lb, upper: ub }) => {
                if fa != fb {
                    return "range-field".into();
                }
                bound(la, lb).or_else(|| bound(ua, ub)).unwrap_or_else(|| "range".into())
            }
            (L::Regex { .. }, L::Regex { .. }) => "regex-text".into(),
            (L::Exists { .. }, L::Exists { .. }) => "exists-field".into(),
            (a, b) => format!(
                "leaf-kind:{}-vs-{}",
                kind(&A::Leaf(Box::new(a.clone()))),
                kind(&A::Leaf(Box::new(b.clone())))
            ),
        }
    }
    fn walk(s: &A, l: &A) -> Option<String> {
        if s == l {
            return None;
        }
        match (s, l) {
            (A::Clause(a), A::Clause(b)) => {
                if a.len() != b.len() {
                    // which side split the text into more operands?
                    return Some(
                        if a.len() > b.len() { "strict-splits-into-more-operands" } else { "lenient-splits-into-more-operands" }
                            .to_string(),
                    );
                }
                for ((oa, x), (ob, y)) in a.iter().zip(b.iter()) {
                    if oa != ob {
                        return Some("occur".into());
                    }
                    if let Some(c) = walk(x, y) {
                        return Some(c);
                    }
                }
                Some("clause".into())
            }
            (A::Boost(x, ba), A::Boost(y, bb)) => walk(x, y).or_else(|| if ba != bb { Some("boost-value".into()) } else { None }),
            (A::Leaf(x), A::Leaf(y)) => Some(leaf(x, y)),
            (x, y) => Some(format!("node-kind:{}-vs-{}", kind(x), kind(y))),
        }
    }
    walk(strict, lenient).unwrap_or_else(|| "none".into())
}

fn clip(s: String) -> String {
    if s.chars().count() > 700 {
        let mut t: String = s.chars().take(700).collect();
        t.push_str("…");
        t
    } else {
        s
    }
}

/// Meaning-preserving rewrites of the input (for the strict grammar). If the strict tree stays
/// the same and the lenient parser agrees on the rewritten text, the rewritten detail is the cause
/// of the disagreement: the signature then names the cause instead of one of its many symptoms.
fn repairs() -> &'static [(&'static str, regex::Regex, &'static str)] {
    static R: OnceLock<Vec<(&'static str, regex::Regex, &'static str)>> = OnceLock::new();
    R.get_or_init(|| {
        let mk = |name, re: &str, to| (name, regex::Regex::new(re).expect("static regex"), to);
        vec![
            mk("lenient-mishandles-whitespace-after-set-open-bracket", r"(IN\s*\[)\s+", "$1"),
            mk("lenient-mishandles-whitespace-before-range-close-bracket", r"([^\s\[\{])\s+([\]\}])", "$1$2"),
            mk("lenient-needs-a-blank-after-NOT", r"NOT[\t\r\n]\s*", "NOT "),
        ]
    })
}

const ADJACENCY: &str = "lenient-needs-whitespace-between-adjacent-operands";
/// operand separation costs one strict parse per character
const ATTRIBUTION_MAX_CHARS: usize = 1500;

fn strict_same(text: &str, strict: &qg::UserInputAst) -> bool {
    matches!(guarded(|| qg::parse_query(text)), Ok(Ok(s2)) if &s2 == strict)
}

fn lenient_agrees(text: &str, strict: &qg::UserInputAst) -> bool {
    matches!(guarded(|| qg::parse_query_lenient(text)), Ok((l2, e2)) if e2.is_empty() && &l2 == strict)
}

/// adds a blank at every place where the strict grammar does not care (never next to existing
/// whitespace, never just inside a range / set bracket)
fn separate_operands(text: &str, strict: &qg::UserInputAst) -> String {
    if text.chars().count() > ATTRIBUTION_MAX_CHARS {
        return text.to_string();
    }
    let mut cur: Vec<char> = text.chars().collect();
    let mut i = 1;
    while i < cur.len() {
        let (p, n) = (cur[i - 1], cur[i]);
        if !p.is_whitespace() && !n.is_whitespace() && !"[{".contains(p) && !"]}".contains(n) {
            let mut cand = cur.clone();
            cand.insert(i, ' ');
            let t: String = cand.iter().collect();
            if strict_same(&t, strict) {
                cur = cand;
                i += 1;
            }
        }
        i += 1;
    }
    cur.into_iter().collect()
}

/// applies the given repairs (by index; 3 = operand separation) as far as they keep the strict tree
fn apply_repairs(input: &str, strict: &qg::UserInputAst, which: &[usize]) -> String {
    let mut text = input.to_string();
    for (k, (_, re, to)) in repairs().iter().enumerate() {
        if !which.contains(&k) {
            continue;
        }
        let r = re.replace_all(&text, *to).into_owned();
        if r != text && strict_same(&r, strict) {
            text = r;
        }
    }
    if which.contains(&3) {
        text = separate_operands(&text, strict);
    }
    text
}

/// the repairs without which the two parsers keep disagreeing (leave-one-out over the full repair)
fn causes_by_repair(input: &str, strict: &qg::UserInputAst) -> Option<(Vec<&'static str>, String)> {
    let all = [0usize, 1, 2, 3];
    let full = apply_repairs(input, strict, &all);
    if full == input || !lenient_agrees(&full, strict) {
        return None;
    }
    let name = |k: usize| if k == 3 { ADJACENCY } else { repairs()[k].0 };
    let mut causes = vec![];
    for k in all {
        let rest: Vec<usize> = all.iter().copied().filter(|x| *x != k).collect();
        let without = apply_repairs(input, strict, &rest);
        if without == full {
            continue;
        }
        if !lenient_agrees(&without, strict) {
            causes.push(name(k));
        }
    }
    if causes.is_empty() {
        return None;
    }
    Some((causes, full))
}

/// `ast-differs:<class>`, narrowed for one recorded family: a backslash-escaped blank in the
/// input (the two grammars end the word before it differently, which changes the literal and
/// what the next operator binds to).
fn ast_differs_symptom(input: &str, strict: &qg::UserInputAst, lenient: &qg::UserInputAst) -> String {
    let class = ast_diff_class(strict, lenient);
    let escaped_blank = input
        .char_indices()
        .any(|(i, c)| c == '\\' && input[i + 1..].chars().next().map(|n| n.is_whitespace()).unwrap_or(false));
    if escaped_blank && !class.contains("range") && !class.contains("regex") && !class.contains("operands") {
        // (the classes with their own recorded causes keep their names)
        format!("ast-differs:{class}:backslash-escaped-blank-in-the-input")
    } else {
        format!("ast-differs:{class}")
    }
}

/// grammar-level agreement on one input; returns the violation (signature, detail) if any
fn grammar_agreement(
    input: &str,
    strict: &qg::UserInputAst,
    lenient: &qg::UserInputAst,
    lerrs: &[qg::LenientError],
) -> Vec<(String, Value)> {
    if lerrs.is_empty() && strict == lenient {
        return vec![];
    }
    let symptom = if !lerrs.is_empty() {
        lenient_error_symptom(input, strict, &lerrs[0].message)
    } else {
        ast_differs_symptom(input, strict, lenient)
    };
    let mut detail = json!({"witness": witness(input), "strict_ast": clip(format!("{strict:?}")),
        "lenient_ast": clip(format!("{lenient:?}")), "symptom": symptom,
        "lenient_errors": lerrs.iter().take(8).map(|e| format!("{}@{}", e.message, e.pos)).collect::<Vec<_>>()});
    if let Some((causes, repaired)) = causes_by_repair(input, strict) {
        detail["agrees_after_rewriting_to"] = json!(clip(repaired));
        detail["all_causes_in_this_input"] = json!(causes);
        return causes.into_iter().map(|c| (format!("agree:grammar:strict-ok-{c}"), detail.clone())).collect();
    }
    if input.chars().count() > ATTRIBUTION_MAX_CHARS {
        // too long for the cause analysis: one class instead of an arbitrary symptom
        return vec![("agree:grammar:strict-ok-lenient-disagrees:not-attributed-long-input".to_string(), detail)];
    }
    // several causes in one input, one of them not repairable: name the disagreement that is
    // left after the repairable ones are gone (the symptom of the first difference would be
    // an arbitrary one of them)
    let full = apply_repairs(input, strict, &[0, 1, 2, 3]);
    if full != input {
        if let Ok((l2, e2)) = guarded(|| qg::parse_query_lenient(&full)) {
            let residual = if !e2.is_empty() {
                Some(lenient_error_symptom(&full, strict, &e2[0].message))
            } else if &l2 != strict {
                Some(ast_differs_symptom(&full, strict, &l2))
            } else {
                None
            };
            if let Some(r) = residual {
                detail["after_repairing_the_known_causes"] = json!(clip(full));
                return vec![(format!("agree:grammar:strict-ok-{r}"), detail)];
            }
        }
    }
    vec![(format!("agree:grammar:strict-ok-{symptom}"), detail)]
}

#[derive(Default)]
struct Outcome {
    grammar_strict_ok: bool,
    qp_strict_ok: u32,
    qp_err_kinds: BTreeSet<String>,
    lenient_err_kinds: BTreeSet<String>,
    slowest: Duration,
}

/// panic signature on one line
fn psig(p: &PanicInfo) -> String {
    let mut s = p.sig().split_whitespace().collect::<Vec<_>>().join(" ");
    // slicing panics quote the offending character: keep only the fixed part
    for cut in ["; it is inside", " left: "] {
        if let Some(i) = s.find(cut) {
            s.truncate(i);
        }
    }
    s
}

fn witness(input: &str) -> Value {
    let shown: String = input.chars().take(400).collect();
    json!({"input": shown, "input_debug": format!("{:?}", shown), "len_bytes": input.len()})
}

/// all four entry points on one input; panics are attributed to the call with the input attached
fn check_totality(input: &str, rep: &mut Report) -> Outcome {
    let mut out = Outcome::default();
    let t0 = Instant::now();
    let mut strict_panicked = false;
    let strict = match guarded(|| qg::parse_query(input)) {
        Ok(r) => r.ok(),
        Err(p) => {
            strict_panicked = true;
            rep.violation(
                format!("panic:grammar-parse_query:{}", psig(&p)),
                json!({"witness": witness(input), "panic": p.message, "at": p.location}),
            );
            None
        }
    };
    let lenient = match guarded(|| qg::parse_query_lenient(input)) {
        Ok(r) => Some(r),
        Err(p) => {
            rep.violation(
                format!("panic:grammar-parse_query_lenient:{}", psig(&p)),
                json!({"witness": witness(input), "panic": p.message, "at": p.location}),
            );
            None
        }
    };
    out.slowest = out.slowest.max(t0.elapsed());
    let mut grammar_disagrees = false;
    if let Some((_, errs)) = &lenient {
        for e in errs {
            out.lenient_err_kinds.insert(lenient_error_class(&e.message));
            if e.pos > input.len() {
                rep.violation(
                    "lenient-error-position-beyond-input",
                    json!({"witness": witness(input), "pos": e.pos, "message": e.message}),
                );
            }
        }
    }
    if let (Some(sast), Some((last, lerrs))) = (&strict, &lenient) {
        out.grammar_strict_ok = true;
        for (sig, detail) in grammar_agreement(input, sast, last, lerrs) {
            grammar_disagrees = true;
            rep.violation(sig, detail);
        }
    } else if strict.is_some() {
        out.grammar_strict_ok = true;
    }
    // a panic inside the grammar crate is reported once, not again for every QueryParser on top
    let grammar_strict_panicked = strict.is_none() && strict_panicked;
    let grammar_lenient_panicked = lenient.is_none();
    for (name, qp) in &env().parsers {
        let t1 = Instant::now();
        let qs = if grammar_strict_panicked {
            None
        } else {
            match guarded(|| qp.parse_query(input)) {
            Ok(r) => Some(r),
            Err(p) => {
                rep.violation(
                    format!("panic:QueryParser-parse_query:{}", psig(&p)),
                    json!({"witness": witness(input), "parser": name, "panic": p.message, "at": p.location}),
                );
                None
            }
            }
        };
        let ql = if grammar_lenient_panicked {
            None
        } else {
            match guarded(|| qp.parse_query_lenient(input)) {
            Ok(r) => Some(r),
            Err(p) => {
                rep.violation(
                    format!("panic:QueryParser-parse_query_lenient:{}", psig(&p)),
                    json!({"witness": witness(input), "parser": name, "panic": p.message, "at": p.location}),
                );
                None
            }
            }
        };
        out.slowest = out.slowest.max(t1.elapsed());
        match &qs {
            Some(Err(e)) => {
                out.qp_err_kinds.insert(qp_error_class(e));
                if strict.is_some() && matches!(e, QueryParserError::SyntaxError(_)) {
                    rep.violation(
                        "agree:qp:syntax-error-although-grammar-accepts",
                        json!({"witness": witness(input), "parser": name, "error": e.to_string()}),
                    );
                }
            }
            Some(Ok(_)) => {
                out.qp_strict_ok += 1;
                if strict.is_none() {
                    rep.violation(
                        "agree:qp:accepts-although-grammar-rejects",
                        json!({"witness": witness(input), "parser": name}),
                    );
                }
            }
            None => {}
        }
        if let Some((_, errs)) = &ql {
            for e in errs {
                out.qp_err_kinds.insert(format!("lenient:{}", qp_error_class(e)));
            }
        }
        // QueryParser-level agreement is only meaningful when the grammars agreed
        if grammar_disagrees {
            continue;
        }
        if let (Some(Ok(q)), Some((lq, lerrs))) = (&qs, &ql) {
            if !lerrs.is_empty() {
                rep.violation(
                    format!("agree:qp:strict-ok-lenient-error:{}", qp_error_class(&lerrs[0])),
                    json!({"witness": witness(input), "parser": name, "strict_query": format!("{q:?}"),
                           "lenient_errors": lerrs.iter().map(|e| e.to_string()).collect::<Vec<_>>()}),
                );
            } else {
                let a = guarded(|| norm_query(q.as_ref()));
                let b = guarded(|| norm_query(lq.as_ref()));
                match (a, b) {
                    (Ok(a), Ok(b)) => {
                        if a != b {
                            rep.violation(
                                "agree:qp:strict-ok-query-differs",
                                json!({"witness": witness(input), "parser": name, "strict": a, "lenient": b}),
                            );
                        }
                    }
                    (Err(p), _) | (_, Err(p)) => rep.violation(
                        format!("panic:query-debug:{}", psig(&p)),
                        json!({"witness": witness(input), "parser": name, "panic": p.message}),
                    ),
                }
            }
        }
    }
    out
}

// ---------------------------------------------------------------------------------------------
// totality stream

/// structural skeleton of an input: letters/digits collapse, metacharacters stay
fn skeleton(s: &str) -> String {
    let mut out = String::new();
    let mut last = '\0';
    for c in s.chars() {
        let k = if c.is_alphabetic() {
            'a'
        } else if c.is_numeric() {
            '0'
        } else if c.is_whitespace() {
            ' '
        } else if c.is_control() {
            '?'
        } else if !c.is_ascii() {
            'u'
        } else {
            c
        };
        if k != last || !(k == 'a' || k == '0' || k == ' ' || k == 'u') {
            out.push(k);
        }
        last = k;
        if out.len() >= 28 {
            break;
        }
    }
    out
}

fn has_meta(s: &str) -> bool {
    s.chars().any(|c| "+-()[]{}\"':^~*\\/<>=!`".contains(c))
        || [" AND ", " OR ", "NOT ", "IN ", " TO "].iter().any(|k| s.contains(k))
}

fn run_one_total(class: &str, input: &str, rep: &mut Report) {
    rep.eval();
    rep.observe("input_class", class);
    let out = match remote_check(input) {
        Remote::Done(o) => o,
        Remote::Failed { how, api, detail } => {
            // the worker died or did not answer: hang, unbounded memory or stack overflow
            let shape = if input_has_set_literal(input) { "set-literal" } else { "other-input" };
            rep.count("total:inputs_without_result", 1);
            rep.violation(
                format!("{how}:{api}:{shape}"),
                json!({"witness": witness(input), "class": class, "detail": detail}),
            );
            if has_meta(input) {
                rep.nontrivial(format!("{class}|{}", skeleton(input)));
            }
            return;
        }
        Remote::Unreproduced(e) => {
            rep.count("total:worker_failures_not_reproduced", 1);
            rep.note(format!("{e}; input[..80]={:?}", input.chars().take(80).collect::<String>()));
            return;
        }
        Remote::Slow(e) => {
            rep.count("total:inputs_needing_more_than_30s_cpu", 1);
            rep.observe("slow_parse_input_class", class);
            rep.note(format!("{e}; class={class}; input[..60]={:?}", input.chars().take(60).collect::<String>()));
            return;
        }
        Remote::Harness(e) => {
            rep.harness_error(format!("totality worker: {e}"));
            return;
        }
    };
    for (sig, detail) in out.violations {
        rep.violation(sig, detail);
    }
    for k in &out.lenient_err_kinds {
        rep.observe("grammar_lenient_error_kinds", k.clone());
    }
    for k in &out.qp_err_kinds {
        rep.observe("queryparser_error_kinds", k.clone());
    }
    if out.grammar_strict_ok {
        rep.count("total:grammar_strict_ok", 1);
    } else {
        rep.count("total:grammar_strict_err", 1);
    }
    rep.count("total:queryparser_strict_ok", out.qp_strict_ok as u64);
    if out.slowest_ms > 2000 {
        rep.note(format!(
            "slow parse ({} ms) class={class} input[..80]={:?}",
            out.slowest_ms,
            input.chars().take(80).collect::<String>()
        ));
        rep.count("total:parses_over_2s", 1);
    }
    if has_meta(input) {
        rep.nontrivial(format!("{class}|{}", skeleton(input)));
    }
}

fn input_has_set_literal(input: &str) -> bool {
    let mut rest = input;
    while let Some(i) = rest.find("IN") {
        let after = rest[i + 2..].trim_start_matches([' ', '\t', '\r', '\n']);
        if after.starts_with('[') {
            return true;
        }
        rest = &rest[i + 2..];
    }
    false
}

fn total_case(case: u64, rng: &mut Rng, rep: &mut Report, thorough: bool) {
    let (class, inputs) = gen_total_inputs(case, rng, thorough);
    rep.count(&format!("class:{class}"), inputs.len() as u64);
    let t0 = Instant::now();
    let failures = |rep: &Report| rep.counters.get("total:inputs_without_result").copied().unwrap_or(0);
    let failures_before = failures(rep);
    for (i, input) in inputs.iter().enumerate() {
        // every input that kills a worker costs seconds (memory cap + attribution): after three in
        // one case (typically the prefixes of one query) the rest of the case is skipped
        if failures(rep) - failures_before >= 3 {
            rep.count("total:inputs_skipped_after_3_worker_failures_in_one_case", (inputs.len() - i) as u64);
            break;
        }
        run_one_total(class, input, rep);
        if case < 40 && i == 0 {
            rep.sample(json!({"stream": "total", "class": class, "input": input.chars().take(120).collect::<String>()}));
        }
    }
    rep.count(&format!("class_ms:{class}"), t0.elapsed().as_millis() as u64);
}

// ---------------------------------------------------------------------------------------------
// agreement stream: reserved words where a value stands

fn agree_case(case: u64, rng: &mut Rng, rep: &mut Report) {
    let rw = gen_reserved_word_query(case, rng);
    let strict_ok = |rep: &Report| rep.counters.get("total:grammar_strict_ok").copied().unwrap_or(0);
    let before = strict_ok(rep);
    run_one_total("reserved-word-as-value", &rw.input, rep);
    let accepted = strict_ok(rep) > before;
    rep.observe("agree:keyword", rw.keyword);
    rep.observe("agree:quoting", rw.style);
    rep.observe("agree:field_form", rw.field);
    rep.observe("agree:context", rw.context);
    rep.observe("agree:content", rw.content);
    rep.observe("agree:suffix", if rw.suffix.is_empty() { "none" } else { rw.suffix });
    rep.count("agree:inputs", 1);
    if accepted {
        // the clause of the property applies: the strict parser succeeded
        rep.count("agree:inputs_accepted_by_the_strict_grammar", 1);
        rep.count(&format!("agree:accepted:{}", rw.style), 1);
        rep.observe("agree:accepted_keyword_x_quoting_x_field", format!("{}|{}|{}", rw.keyword, rw.style, rw.field));
        rep.nontrivial(format!("rw|{}|{}|{}|{}", rw.keyword, rw.style, rw.field, rw.context));
    }
    if case < 3 || (case >= rw_core_size() && case < rw_core_size() + 3) {
        rep.sample(json!({"stream": "agree", "input": rw.input, "keyword": rw.keyword, "quoting": rw.style,
            "field_form": rw.field, "context": rw.context, "content": rw.content, "strict_accepts": accepted}));
    }
}

// ---------------------------------------------------------------------------------------------
// semantic stream

struct Corpus {
    index: Index,
    docs: Vec<MDoc>,
    fields: Fields,
    segments: usize,
}

fn build_corpus(world: &World, rng: &mut Rng, fast: bool) -> Result<Corpus, String> {
    let fields = build_schema(fast);
    let index = Index::create_in_ram(fields.schema.clone());
    register_tokenizers(&index);
    let mut writer: IndexWriter<TantivyDocument> = index
        .writer_with_num_threads(1, 15_000_000)
        .map_err(|e| format!("writer: {e}"))?;
    let ndocs = *rng.pick(&[1usize, 2, 5, 12, 25, 40]);
    let mut docs: Vec<MDoc> = (0..ndocs).map(|i| world.gen_doc(i as u64, rng)).collect();
    docs.extend(world.subset_docs(ndocs as u64));
    rng.shuffle(&mut docs);
    let ndocs = docs.len();
    let cut = if ndocs >= 2 && rng.chance(1, 2) { Some(rng.urange(1, ndocs - 1)) } else { None };
    let mut segments = 1;
    for (i, d) in docs.iter().enumerate() {
        writer
            .add_document(d.to_tantivy(&fields))
            .map_err(|e| format!("add_document: {e}"))?;
        if Some(i + 1) == cut {
            writer.commit().map_err(|e| format!("commit: {e}"))?;
            segments += 1;
        }
    }
    writer.commit().map_err(|e| format!("commit: {e}"))?;
    Ok(Corpus { index, docs, fields, segments })
}

fn run_query(
    searcher: &tantivy::Searcher,
    q: &dyn Query,
) -> Result<(usize, BTreeSet<u64>), String> {
    let count = searcher.search(q, &Count).map_err(|e| format!("Count: {e}"))?;
    let set = searcher
        .search(q, &DocSetCollector)
        .map_err(|e| format!("DocSetCollector: {e}"))?;
    let mut ids = BTreeSet::new();
    for addr in set {
        let sr = searcher.segment_reader(addr.segment_ord);
        let col = sr.fast_fields().u64("id").map_err(|e| format!("id column: {e}"))?;
        match col.first(addr.doc_id) {
            Some(v) => {
                ids.insert(v);
            }
            None => return Err("doc without id".into()),
        }
    }
    Ok((count, ids))
}

enum SemResult {
    Agree { matched: usize },
    /// (signature tail, detail)
    Bad(String, Value),
}

/// parse `text` with `qp` (strict + lenient), run, compare with `expected`
fn sem_check(
    qp: &QueryParser,
    searcher: &tantivy::Searcher,
    text: &str,
    expected: &BTreeSet<u64>,
    check_lenient: bool,
) -> SemResult {
    let strict = match guarded(|| qp.parse_query(text)) {
        Ok(r) => r,
        Err(p) => return SemResult::Bad(format!("panic:{}", psig(&p)), json!({"panic": p.message, "at": p.location})),
    };
    let q = match strict {
        Ok(q) => q,
        Err(e) => {
            return SemResult::Bad(
                format!("valid-query-rejected:{}", qp_error_class(&e)),
                json!({"error": e.to_string()}),
            )
        }
    };
    let lenient = if check_lenient {
        let (lq, lerrs) = match guarded(|| qp.parse_query_lenient(text)) {
            Ok(r) => r,
            Err(p) => return SemResult::Bad(format!("panic-lenient:{}", psig(&p)), json!({"panic": p.message, "at": p.location})),
        };
        if !lerrs.is_empty() {
            return SemResult::Bad(
                format!("lenient-reports-error-on-valid-query:{}", qp_error_class(&lerrs[0])),
                json!({"lenient_errors": lerrs.iter().map(|e| e.to_string()).collect::<Vec<_>>()}),
            );
        }
        Some(lq)
    } else {
        None
    };
    let (count, ids) = match guarded(|| run_query(searcher, q.as_ref())) {
        Ok(Ok(r)) => r,
        Ok(Err(e)) => return SemResult::Bad("search-error".into(), json!({"error": e, "query": format!("{q:?}")})),
        Err(p) => return SemResult::Bad(format!("panic-search:{}", psig(&p)), json!({"panic": p.message, "at": p.location})),
    };
    if &ids != expected || count != expected.len() {
        let missing: Vec<u64> = expected.difference(&ids).copied().take(8).collect();
        let extra: Vec<u64> = ids.difference(expected).copied().take(8).collect();
        return SemResult::Bad(
            "mismatch".into(),
            json!({"expected_ids": expected, "got_ids": ids, "count": count, "missing": missing, "extra": extra,
                   "parsed": format!("{q:?}")}),
        );
    }
    let Some(lq) = lenient else {
        return SemResult::Agree { matched: ids.len() };
    };
    match guarded(|| run_query(searcher, lq.as_ref())) {
        Ok(Ok((lc, lids))) => {
            if lids != ids || lc != count {
                return SemResult::Bad(
                    "lenient-query-matches-differently".into(),
                    json!({"strict_ids": ids, "lenient_ids": lids, "strict": format!("{q:?}"), "lenient": format!("{lq:?}")}),
                );
            }
        }
        Ok(Err(e)) => return SemResult::Bad("search-error-lenient".into(), json!({"error": e})),
        Err(p) => return SemResult::Bad(format!("panic-search:{}", psig(&p)), json!({"panic": p.message})),
    }
    SemResult::Agree { matched: ids.len() }
}

fn expected_ids(node: &Node, docs: &[MDoc], conj: bool) -> BTreeSet<u64> {
    docs.iter().filter(|d| eval_node(node, d, conj)).map(|d| d.id).collect()
}

fn sem_case(case: u64, rng: &mut Rng, rep: &mut Report, queries_per_corpus: usize) {
    let world = World::new(rng);
    let fast = rng.bool();
    let corpus = match guarded(|| build_corpus(&world, rng, fast)) {
        Ok(Ok(c)) => c,
        Ok(Err(e)) => {
            rep.violation("sem:api-error:build-corpus", json!(e));
            return;
        }
        Err(p) => {
            rep.violation(format!("sem:panic:build-corpus:{}", psig(&p)), json!(p.message));
            return;
        }
    };
    let reader = match corpus.index.reader() {
        Ok(r) => r,
        Err(e) => {
            rep.violation("sem:api-error:reader", json!(e.to_string()));
            return;
        }
    };
    let searcher = reader.searcher();
    rep.observe("sem:segments", corpus.segments.to_string());
    rep.observe("sem:schema", if fast { "indexed+fast" } else { "indexed-only" });
    let f = &corpus.fields;
    let qp_dis = QueryParser::for_index(&corpus.index, vec![f.title, f.body]);
    let mut qp_conj = QueryParser::for_index(&corpus.index, vec![f.title, f.body]);
    qp_conj.set_conjunction_by_default();
    for qi in 0..queries_per_corpus {
        rep.eval();
        // a query made only of excluded clauses is documented to be rejected
        if rng.chance(1, 60) {
            let n = rng.urange(1, 3);
            let items: Vec<String> = (0..n)
                .map(|_| {
                    let leaf = world.gen_leaf(rng);
                    format!("-{}", print_leaf(&leaf, &mut Rng::new(rng.next_u64()), PrintMode::Noisy))
                })
                .collect();
            let text = items.join(" ");
            for (mode, qp) in [("disj", &qp_dis), ("conj", &qp_conj)] {
                match guarded(|| qp.parse_query(&text)) {
                    Ok(Err(QueryParserError::AllButQueryForbidden)) => {
                        rep.count("sem:only-negative-rejected", 1);
                        rep.observe("sem:features", "only-negative=>AllButQueryForbidden");
                        rep.nontrivial(format!("only-negative|{n}|{mode}"));
                    }
                    Ok(other) => rep.violation(
                        "sem:only-negative-query-not-rejected",
                        json!({"query": text, "mode": mode, "got": format!("{:?}", other.map(|q| format!("{q:?}")))}),
                    ),
                    Err(p) => rep.violation(format!("sem:panic:{}", psig(&p)), json!({"query": text, "panic": p.message})),
                }
            }
            continue;
        }
        // `field:*` (exists): the grammar crate defines it, QueryParser does not document it, so
        // only the syntax tree is checked and what QueryParser does with it is recorded
        if rng.chance(1, 50) {
            let field = *rng.pick(&["title", "u", "js.k", "tag", "d"]);
            let text = format!("{field}:{}*", if rng.bool() { " " } else { "" });
            let want = format!("$exists(\"{field}\")");
            match guarded(|| (qg::parse_query(&text), qg::parse_query_lenient(&text))) {
                Ok((Ok(s), (l, e))) => {
                    if format!("{s:?}") != want || format!("{l:?}") != want || !e.is_empty() {
                        rep.violation(
                            "sem:exists:field-star-not-read-as-exists",
                            json!({"query": text, "strict": format!("{s:?}"), "lenient": format!("{l:?}"),
                                   "lenient_errors": e.iter().map(|x| x.message.clone()).collect::<Vec<_>>()}),
                        );
                    } else {
                        rep.count("sem:exists_syntax_checked", 1);
                        rep.nontrivial(format!("exists|{field}"));
                    }
                }
                Ok((Err(_), _)) => rep.violation("sem:exists:field-star-rejected-by-grammar", json!({"query": text})),
                Err(p) => rep.violation(format!("sem:panic:{}", psig(&p)), json!({"query": text, "panic": p.message})),
            }
            match guarded(|| qp_dis.parse_query(&text)) {
                Ok(Ok(q)) => rep.observe("sem:exists_in_QueryParser", format!("accepted:{}", clip(format!("{q:?}")).chars().take(40).collect::<String>())),
                Ok(Err(e)) => rep.observe("sem:exists_in_QueryParser", format!("rejected:{}", qp_error_class(&e))),
                Err(p) => rep.violation(format!("sem:panic:{}", psig(&p)), json!({"query": text, "panic": p.message})),
            }
            rep.observe("sem:features", "exists(syntax only)");
            continue;
        }
        let node = world.gen_node(rng, 0);
        let pseed = rng.next_u64();
        let text = print_query(&node, &mut Rng::new(pseed), PrintMode::Noisy);
        let feats = features(&node);
        for ft in &feats {
            rep.observe("sem:features", ft.clone());
            // multi-token literals on a field whose analyzer removes one of their tokens
            if let Some(i) = ft.find(":analyzer-removes-") {
                rep.observe("sem:literals_with_removed_token", ft.clone());
                rep.count(&format!("sem:literals_with{}", &ft[i..].replace(':', "_")), 1);
            }
        }
        // prefix phrases whose analyzer removes the token right before the prefix
        for l in prefix_over_gap_leaves(&node) {
            rep.count("sem:prefix_phrases_with_a_removed_token_right_before_the_prefix", 1);
            if corpus.docs.iter().any(|d| eval_leaf(&l, d)) {
                rep.count("sem:prefix_phrases_with_a_removed_token_right_before_the_prefix:matching_a_document", 1);
            }
        }
        let mut parsed_everywhere = true;
        // strict/lenient agreement (and hangs) are judged in a worker process, exactly as in the
        // totality stream; the lenient parser is only run in-process when that came back clean
        let lenient_safe = match remote_check(&text) {
            Remote::Done(o) => {
                let clean = o.violations.is_empty();
                for (sig, mut detail) in o.violations {
                    detail["found_by"] = json!("sem stream (generated valid query)");
                    rep.violation(sig, detail);
                }
                clean
            }
            Remote::Failed { how, api, detail } => {
                let shape = if input_has_set_literal(&text) { "set-literal" } else { "other-input" };
                rep.violation(
                    format!("{how}:{api}:{shape}"),
                    json!({"witness": witness(&text), "found_by": "sem stream (generated valid query)", "detail": detail}),
                );
                false
            }
            Remote::Unreproduced(e) | Remote::Slow(e) => {
                rep.count("total:worker_failures_not_reproduced", 1);
                rep.note(e);
                false
            }
            Remote::Harness(e) => {
                rep.harness_error(format!("totality worker: {e}"));
                false
            }
        };
        if !lenient_safe {
            rep.count("sem:queries_where_lenient_was_not_compared_in_process", 1);
        }
        for (mode, conj, qp) in [("disj", false, &qp_dis), ("conj", true, &qp_conj)] {
            let expected = expected_ids(&node, &corpus.docs, conj);
            match sem_check(qp, &searcher, &text, &expected, lenient_safe) {
                SemResult::Agree { matched } => {
                    rep.count("sem:queries_agree", 1);
                    rep.count("sem:docs_matched", matched as u64);
                    if matched > 0 && matched < corpus.docs.len() {
                        rep.count("sem:queries_with_partial_match", 1);
                    }
                }
                SemResult::Bad(kind, detail) => {
                    parsed_everywhere = false;
                    // shrink: find a smallest sub-query that still disagrees in the same way
                    let (min_node, min_text, min_detail, plain) =
                        shrink(&node, &text, detail, &kind, qp, &searcher, &corpus.docs, conj, false);
                    let mf: Vec<String> = features(&min_node).into_iter().collect();
                    let sig = if kind.starts_with("lenient") || kind.starts_with("panic-lenient") {
                        // not shrunk (the lenient parser is not re-run on derived texts)
                        format!("sem:{kind}")
                    } else if kind == "mismatch" && has_duplicate_siblings(&min_node) {
                        // the grammar drops a repeated operand and then unwraps the one-element
                        // clause that is left, which lifts its `+`/`-` out of the parentheses:
                        // `(+a +a) b` is read as `+a b`; the literals involved do not matter
                        "sem:mismatch:repeated-operand-in-parentheses".to_string()
                    } else if kind == "mismatch" && prefix_gap_defect(&min_node, &min_detail) {
                        // the parser did its part (the parsed query carries the positions of the
                        // kept tokens), the phrase-prefix scorer then aligns the prefix one
                        // position after the last phrase term instead of at its own position
                        "sem:mismatch:phrase-prefix:two-or-more-terms+removed-token-directly-before-the-prefix:parsed-positions-as-expected"
                            .to_string()
                    } else if kind.starts_with("panic") {
                        // the panic site is the signature; the shrunk query is the witness
                        format!("sem:{kind}")
                    } else {
                        format!(
                            "sem:{kind}:{}:{}",
                            mf.join("+"),
                            match plain {
                                Some(m) => m.label(),
                                None => "only-with-the-original-noise",
                            }
                        )
                    };
                    rep.violation(
                        sig,
                        json!({"mode": mode, "query": min_text, "query_debug": format!("{min_text:?}"),
                               "abstract": format!("{min_node:?}"), "detail": min_detail,
                               "original_query": text, "schema": if fast {"indexed+fast"} else {"indexed-only"},
                               "docs": corpus.docs.iter().take(12).map(|d| d.brief()).collect::<Vec<_>>()}),
                    );
                }
            }
        }
        if parsed_everywhere {
            let fs: Vec<String> = feats.into_iter().collect();
            rep.nontrivial(fs.join("+"));
        }
        if case < 2 && qi < 2 {
            rep.sample(json!({"stream": "sem", "query": text, "abstract": format!("{node:?}"),
                "expected_disj": expected_ids(&node, &corpus.docs, false), "expected_conj": expected_ids(&node, &corpus.docs, true),
                "docs": corpus.docs.len()}));
        }
    }
}

/// Is this shrunk mismatch the known phrase-prefix defect? The query is a single prefix phrase of
/// the shape `prefix_after_removed_token`, and the parsed query (its Debug rendering, once per
/// targeted field) lists exactly the positions the kept tokens have in the literal.
fn prefix_gap_defect(min_node: &Node, min_detail: &Value) -> bool {
    static RE: OnceLock<regex::Regex> = OnceLock::new();
    let Some(expected) = prefix_after_removed_token(min_node) else { return false };
    let Some(parsed) = min_detail.get("parsed").and_then(|v| v.as_str()) else { return false };
    if !parsed.contains("PhrasePrefixQuery") {
        return false;
    }
    let re = RE.get_or_init(|| regex::Regex::new(r"\((\d+), Term\(").expect("static regex"));
    let got: Vec<usize> = re.captures_iter(parsed).filter_map(|c| c[1].parse().ok()).collect();
    !got.is_empty() && got.len() % expected.len() == 0 && got.chunks(expected.len()).all(|c| c == expected.as_slice())
}

/// greedy shrink of a failing abstract query; returns (node, text, detail, reproduced_with_plain_print)
#[allow(clippy::too_many_arguments)]
fn shrink(
    node: &Node,
    text: &str,
    detail: Value,
    kind: &str,
    qp: &QueryParser,
    searcher: &tantivy::Searcher,
    docs: &[MDoc],
    conj: bool,
    check_lenient: bool,
) -> (Node, String, Value, Option<PrintMode>) {
    let fails_in = |n: &Node, mode: PrintMode| -> Option<(String, Value)> {
        let t = print_query(n, &mut Rng::new(7), mode);
        let exp = expected_ids(n, docs, conj);
        match sem_check(qp, searcher, &t, &exp, check_lenient) {
            SemResult::Bad(k, d) if k == kind => Some((t, d)),
            _ => None,
        }
    };
    // which deterministic rendering reproduces it?
    let modes = [PrintMode::Plain, PrintMode::Boosted, PrintMode::Parens, PrintMode::Quoted, PrintMode::Spaced];
    // a boost on every clause at once can hide what a boost on one clause does: as a last resort
    // the clauses are boosted one at a time
    let boost_one = |n: &Node| (0..BOOST_ONE_MAX).find_map(|k| fails_in(n, PrintMode::BoostOne(k)).map(|r| (PrintMode::BoostOne(k), r)));
    let Some((mode, (mut cur_text, mut cur_detail))) =
        modes.iter().find_map(|m| fails_in(node, *m).map(|r| (*m, r))).or_else(|| boost_one(node))
    else {
        return (node.clone(), text.to_string(), detail, None);
    };
    let fails = |n: &Node| match mode {
        // the position of the boosted clause changes as the query shrinks
        PrintMode::BoostOne(_) => boost_one(n).map(|(_, r)| r),
        m => fails_in(n, m),
    };
    let mut cur = node.clone();
    let mut budget = 800;
    'outer: loop {
        for cand in simplifications(&cur) {
            budget -= 1;
            if budget <= 0 {
                break 'outer;
            }
            if let Some((t, d)) = fails(&cand) {
                cur = cand;
                cur_text = t;
                cur_detail = d;
                continue 'outer;
            }
        }
        break;
    }
    (cur, cur_text, cur_detail, Some(mode))
}

// ---------------------------------------------------------------------------------------------
// totality workers: the parsers run in child processes, because a hang, unbounded memory growth or
// a stack overflow cannot be caught inside the process

struct RemoteOutcome {
    violations: Vec<(String, Value)>,
    grammar_strict_ok: bool,
    qp_strict_ok: u32,
    qp_err_kinds: Vec<String>,
    lenient_err_kinds: Vec<String>,
    slowest_ms: u64,
}

enum Remote {
    Done(RemoteOutcome),
    Failed { how: &'static str, api: String, detail: Value },
    Unreproduced(String),
    Slow(String),
    Harness(String),
}

/// address-space cap of a worker: an allocation loop ends in an abort instead of eating the host
fn limit_memory(bytes: u64) {
    let lim = libc::rlimit { rlim_cur: bytes as libc::rlim_t, rlim_max: bytes as libc::rlim_t };
    // SAFETY: plain setrlimit call with a valid struct
    unsafe {
        libc::setrlimit(libc::RLIMIT_AS, &lim);
        let core = libc::rlimit { rlim_cur: 0, rlim_max: 0 };
        libc::setrlimit(libc::RLIMIT_CORE, &core);
    }
}

const WORKER_MEM: u64 = 384 << 20;
const ONE_SHOT_CPU_SECS: u64 = 30;

fn api_names() -> Vec<String> {
    let mut v = vec!["grammar-parse_query".to_string(), "grammar-parse_query_lenient".to_string()];
    for (name, _) in &env().parsers {
        v.push(format!("QueryParser-parse_query[{name}]"));
        v.push(format!("QueryParser-parse_query_lenient[{name}]"));
    }
    v
}

/// `--child-total`: loop { read "<len>\n<bytes>", check, answer with one JSON line }
fn child_total_main() -> ! {
    use std::io::{BufRead, Read};
    limit_memory(WORKER_MEM);
    let _ = env();
    let stdin = std::io::stdin();
    let mut rd = std::io::BufReader::new(stdin.lock());
    let stdout = std::io::stdout();
    loop {
        let mut line = String::new();
        match rd.read_line(&mut line) {
            Ok(0) | Err(_) => std::process::exit(0),
            Ok(_) => {}
        }
        let Ok(n) = line.trim().parse::<usize>() else { std::process::exit(3) };
        let mut buf = vec![0u8; n];
        if rd.read_exact(&mut buf).is_err() {
            std::process::exit(3);
        }
        let Ok(input) = String::from_utf8(buf) else { std::process::exit(3) };
        let mut rep = Report::new();
        let out = check_totality(&input, &mut rep);
        let answer = json!({
            "v": rep.violations.iter().map(|v| json!([v.sig, v.detail])).collect::<Vec<_>>(),
            "gs": out.grammar_strict_ok,
            "qs": out.qp_strict_ok,
            "qe": out.qp_err_kinds,
            "le": out.lenient_err_kinds,
            "ms": out.slowest.as_millis() as u64,
        });
        let mut o = stdout.lock();
        if writeln!(o, "{answer}").is_err() || o.flush().is_err() {
            std::process::exit(0);
        }
    }
}

/// `--child-one <api index>`: input on stdin, one call, exit 0
fn child_one_main(args: &[String]) -> ! {
    use std::io::Read;
    limit_memory(WORKER_MEM);
    // CPU time, not wall time, decides "hang": the host may be heavily loaded
    let cpu = libc::rlimit { rlim_cur: ONE_SHOT_CPU_SECS, rlim_max: ONE_SHOT_CPU_SECS + 5 };
    // SAFETY: plain setrlimit call with a valid struct
    unsafe {
        libc::setrlimit(libc::RLIMIT_CPU, &cpu);
    }
    let api: usize = args.first().and_then(|s| s.parse().ok()).unwrap_or(0);
    let mut input = String::new();
    if std::io::stdin().read_to_string(&mut input).is_err() {
        std::process::exit(3);
    }
    match api {
        0 => drop(qg::parse_query(&input)),
        1 => drop(qg::parse_query_lenient(&input)),
        k => {
            let (_, qp) = &env().parsers[((k - 2) / 2).min(env().parsers.len() - 1)];
            if k % 2 == 0 {
                drop(qp.parse_query(&input));
            } else {
                drop(qp.parse_query_lenient(&input));
            }
        }
    }
    std::process::exit(0);
}

struct Worker {
    child: std::process::Child,
    stdin: std::process::ChildStdin,
    stdout: std::process::ChildStdout,
    buf: Vec<u8>,
}

enum Reply {
    Line(String),
    Timeout,
    Died,
}

impl Worker {
    fn spawn() -> Result<Worker, String> {
        use std::process::{Command, Stdio};
        let exe = std::env::current_exe().map_err(|e| e.to_string())?;
        let mut child = Command::new(exe)
            .arg("--child-total")
            .stdin(Stdio::piped())
            .stdout(Stdio::piped())
            .stderr(Stdio::piped())
            .spawn()
            .map_err(|e| e.to_string())?;
        let stdin = child.stdin.take().ok_or("no stdin")?;
        let stdout = child.stdout.take().ok_or("no stdout")?;
        Ok(Worker { child, stdin, stdout, buf: vec![] })
    }

    fn request(&mut self, input: &str, timeout: Duration) -> Reply {
        use std::io::Read;
        use std::os::fd::AsRawFd;
        let header = format!("{}\n", input.len());
        if self.stdin.write_all(header.as_bytes()).is_err()
            || self.stdin.write_all(input.as_bytes()).is_err()
            || self.stdin.flush().is_err()
        {
            return Reply::Died;
        }
        let t0 = Instant::now();
        loop {
            if let Some(pos) = self.buf.iter().position(|b| *b == b'\n') {
                let line: Vec<u8> = self.buf.drain(..=pos).collect();
                return Reply::Line(String::from_utf8_lossy(&line).into_owned());
            }
            let left = timeout.saturating_sub(t0.elapsed());
            if left.is_zero() {
                return Reply::Timeout;
            }
            let mut pfd = libc::pollfd { fd: self.stdout.as_raw_fd(), events: libc::POLLIN, revents: 0 };
            // SAFETY: one valid pollfd
            let r = unsafe { libc::poll(&mut pfd, 1, left.as_millis().min(1000) as i32) };
            if r < 0 {
                continue;
            }
            if r == 0 {
                continue;
            }
            let mut chunk = [0u8; 65536];
            match self.stdout.read(&mut chunk) {
                Ok(0) => return Reply::Died,
                Ok(n) => self.buf.extend_from_slice(&chunk[..n]),
                Err(_) => return Reply::Died,
            }
        }
    }

    /// kills the child and returns (signal, stderr tail)
    fn bury(mut self) -> (Option<i32>, String) {
        use std::io::Read;
        use std::os::unix::process::ExitStatusExt;
        let _ = self.child.kill();
        let status = self.child.wait().ok();
        let mut err = String::new();
        if let Some(mut e) = self.child.stderr.take() {
            let _ = e.read_to_string(&mut err);
        }
        let tail: String = err.lines().rev().take(3).collect::<Vec<_>>().join(" | ").chars().take(300).collect();
        (status.and_then(|s| s.signal()), tail)
    }
}

fn pool() -> &'static std::sync::Mutex<Vec<Worker>> {
    static POOL: OnceLock<std::sync::Mutex<Vec<Worker>>> = OnceLock::new();
    POOL.get_or_init(|| std::sync::Mutex::new(vec![]))
}

fn shutdown_pool() {
    let workers: Vec<Worker> = std::mem::take(&mut *pool().lock().unwrap_or_else(|e| e.into_inner()));
    for w in workers {
        let _ = w.bury();
    }
}

fn patience(input: &str) -> Duration {
    Duration::from_secs(60 + input.len() as u64 / 5_000)
}

/// how a one-shot child running a single entry point on `input` ends
fn one_shot(api: usize, input: &str) -> ChildEnd {
    use std::os::unix::process::ExitStatusExt;
    use std::process::{Command, Stdio};
    let exe = match std::env::current_exe() {
        Ok(e) => e,
        Err(e) => return ChildEnd::Spawn(e.to_string()),
    };
    let mut child = match Command::new(exe)
        .arg("--child-one")
        .arg(api.to_string())
        .stdin(Stdio::piped())
        .stdout(Stdio::null())
        .stderr(Stdio::piped())
        .spawn()
    {
        Ok(c) => c,
        Err(e) => return ChildEnd::Spawn(e.to_string()),
    };
    if let Some(mut si) = child.stdin.take() {
        let _ = si.write_all(input.as_bytes());
    }
    let t0 = Instant::now();
    let limit = Duration::from_secs(600);
    loop {
        match child.try_wait() {
            Ok(Some(status)) => {
                let mut err = String::new();
                use std::io::Read;
                if let Some(mut e) = child.stderr.take() {
                    let _ = e.read_to_string(&mut err);
                }
                let tail: String = err.lines().rev().take(3).collect::<Vec<_>>().join(" | ").chars().take(300).collect();
                if let Some(sig) = status.signal() {
                    if sig == libc::SIGXCPU || sig == libc::SIGKILL {
                        // CPU limit reached (soft: SIGXCPU, hard: SIGKILL)
                        return ChildEnd::Timeout;
                    }
                    return ChildEnd::Signal(sig, tail);
                }
                return match status.code() {
                    Some(0) => ChildEnd::Ok(String::new()),
                    Some(c) => ChildEnd::Panic(format!("exit code {c}; {tail}")),
                    None => ChildEnd::Panic("no exit code".into()),
                };
            }
            Ok(None) => {
                if t0.elapsed() > limit {
                    let _ = child.kill();
                    let _ = child.wait();
                    return ChildEnd::Timeout;
                }
                std::thread::sleep(Duration::from_millis(3));
            }
            Err(e) => return ChildEnd::Spawn(e.to_string()),
        }
    }
}

fn failure_kind(end: &ChildEnd) -> Option<&'static str> {
    match end {
        // more than 30 s CPU without running out of memory: very slow or looping, cannot tell;
        // the property does not bound parse time, so this is recorded but is not a verdict
        ChildEnd::Timeout => Some("slow"),
        ChildEnd::Signal(_, tail) if tail.contains("memory allocation") => Some("no-result:unbounded-memory-growth"),
        ChildEnd::Signal(_, tail) if tail.contains("stack overflow") => Some("abort:stack-overflow"),
        ChildEnd::Signal(_, _) => Some("abort:killed-by-signal"),
        ChildEnd::Panic(_) => Some("abort:abnormal-exit"),
        ChildEnd::Ok(_) | ChildEnd::Spawn(_) => None,
    }
}

fn remote_check(input: &str) -> Remote {
    let taken = pool().lock().unwrap_or_else(|e| e.into_inner()).pop();
    let mut w = match taken {
        Some(w) => w,
        None => match Worker::spawn() {
            Ok(w) => w,
            Err(e) => return Remote::Harness(format!("spawn: {e}")),
        },
    };
    match w.request(input, patience(input)) {
        Reply::Line(line) => {
            pool().lock().unwrap_or_else(|e| e.into_inner()).push(w);
            let v: Value = match serde_json::from_str(&line) {
                Ok(v) => v,
                Err(e) => return Remote::Harness(format!("bad answer from worker: {e}")),
            };
            let strs = |k: &str| -> Vec<String> {
                v[k].as_array()
                    .map(|a| a.iter().filter_map(|x| x.as_str().map(String::from)).collect())
                    .unwrap_or_default()
            };
            Remote::Done(RemoteOutcome {
                violations: v["v"]
                    .as_array()
                    .map(|a| {
                        a.iter()
                            .filter_map(|p| Some((p.get(0)?.as_str()?.to_string(), p.get(1)?.clone())))
                            .collect()
                    })
                    .unwrap_or_default(),
                grammar_strict_ok: v["gs"].as_bool().unwrap_or(false),
                qp_strict_ok: v["qs"].as_u64().unwrap_or(0) as u32,
                qp_err_kinds: strs("qe"),
                lenient_err_kinds: strs("le"),
                slowest_ms: v["ms"].as_u64().unwrap_or(0),
            })
        }
        reply => {
            let timed_out = matches!(reply, Reply::Timeout);
            let (signal, stderr_tail) = w.bury();
            // attribute: which entry point alone reproduces it (grammar first: the QueryParser
            // entry points call the grammar)
            let names = api_names();
            let mut seen = vec![];
            for (k, name) in names.iter().enumerate() {
                let end = one_shot(k, input);
                if let ChildEnd::Spawn(e) = &end {
                    return Remote::Harness(format!("one-shot child: {e}"));
                }
                if let Some(kind) = failure_kind(&end) {
                    let api = name.split('[').next().unwrap_or(name).to_string();
                    if kind == "slow" {
                        return Remote::Slow(format!(
                            "{name} needs more than {ONE_SHOT_CPU_SECS} s CPU on a {} byte input",
                            input.len()
                        ));
                    }
                    return Remote::Failed {
                        how: kind,
                        api,
                        detail: json!({"entry_point": name, "how": format!("{end:?}"),
                            "worker": {"timed_out": timed_out, "signal": signal, "stderr": stderr_tail},
                            "entry_points_that_returned": seen,
                            "memory_cap_bytes": WORKER_MEM}),
                    };
                }
                seen.push(name.clone());
            }
            // the batch worker failed but no single call does (heavily loaded host, or state
            // carried between inputs): not a verdict
            Remote::Unreproduced(format!(
                "worker {} (signal {signal:?}, stderr {stderr_tail:?}) but every single entry point returned",
                if timed_out { "timed out" } else { "died" }
            ))
        }
    }
}

// ---------------------------------------------------------------------------------------------
// depth sweeps in child processes

const DEPTH_KINDS: &[&str] = &["parens", "open-parens", "not-chain", "boost", "occur-parens", "field-group"];
const DEPTH_APIS: &[&str] = &[
    "grammar-parse_query",
    "grammar-parse_query_lenient",
    "QueryParser-parse_query",
    "QueryParser-parse_query_lenient",
];

fn depth_input(kind: &str, n: usize) -> String {
    match kind {
        "parens" => format!("{}a{}", "(".repeat(n), ")".repeat(n)),
        "open-parens" => format!("{}a", "(".repeat(n)),
        "not-chain" => format!("{}a", "NOT ".repeat(n)),
        "boost" => format!("{}a{}", "(".repeat(n), ")^2".repeat(n)),
        "occur-parens" => format!("{}a{}", "+(".repeat(n), ")".repeat(n)),
        "field-group" => format!("{}a{}", "title:(".repeat(n), ")".repeat(n)),
        _ => "a".to_string(),
    }
}

/// `--child-depth <kind> <n> <api>`: parse once on the (8 MB) main thread and exit 0
fn child_main(args: &[String]) -> ! {
    let kind = args.first().map(|s| s.as_str()).unwrap_or("parens");
    let n: usize = args.get(1).and_then(|s| s.parse().ok()).unwrap_or(1);
    let api = args.get(2).map(|s| s.as_str()).unwrap_or("grammar-parse_query");
    let input = depth_input(kind, n);
    let say = |s: &str| {
        let mut o = std::io::stdout();
        let _ = writeln!(o, "{s}");
        let _ = o.flush();
    };
    match api {
        "grammar-parse_query" => {
            let r = qg::parse_query(&input);
            say(if r.is_ok() { "returned ok" } else { "returned err" });
            drop(r);
        }
        "grammar-parse_query_lenient" => {
            let r = qg::parse_query_lenient(&input);
            say(if r.1.is_empty() { "returned ok" } else { "returned err" });
            drop(r);
        }
        _ => {
            let fields = build_schema(false);
            let index = Index::create_in_ram(fields.schema.clone());
            register_tokenizers(&index);
            let qp = QueryParser::for_index(&index, vec![fields.title, fields.body]);
            if api == "QueryParser-parse_query" {
                let r = qp.parse_query(&input);
                say(if r.is_ok() { "returned ok" } else { "returned err" });
                drop(r);
            } else {
                let r = qp.parse_query_lenient(&input);
                say(if r.1.is_empty() { "returned ok" } else { "returned err" });
                drop(r);
            }
        }
    }
    say("dropped");
    std::process::exit(0);
}

#[derive(Debug, Clone, PartialEq)]
enum ChildEnd {
    Ok(String),
    Signal(i32, String),
    Panic(String),
    Timeout,
    Spawn(String),
}

fn run_child(kind: &str, n: usize, api: &str) -> ChildEnd {
    use std::os::unix::process::ExitStatusExt;
    use std::process::{Command, Stdio};
    let exe = match std::env::current_exe() {
        Ok(e) => e,
        Err(e) => return ChildEnd::Spawn(e.to_string()),
    };
    let mut child = match Command::new(exe)
        .arg("--child-depth")
        .arg(kind)
        .arg(n.to_string())
        .arg(api)
        .stdin(Stdio::null())
        .stdout(Stdio::piped())
        .stderr(Stdio::piped())
        .spawn()
    {
        Ok(c) => c,
        Err(e) => return ChildEnd::Spawn(e.to_string()),
    };
    let t0 = Instant::now();
    loop {
        match child.try_wait() {
            Ok(Some(status)) => {
                let mut out = String::new();
                let mut err = String::new();
                use std::io::Read;
                if let Some(mut o) = child.stdout.take() {
                    let _ = o.read_to_string(&mut out);
                }
                if let Some(mut e) = child.stderr.take() {
                    let _ = e.read_to_string(&mut err);
                }
                let phase = out.lines().last().unwrap_or("before-return").to_string();
                let err_tail: String = err.lines().last().unwrap_or("").chars().take(160).collect();
                if let Some(sig) = status.signal() {
                    return ChildEnd::Signal(sig, format!("last phase: {phase}; stderr: {err_tail}"));
                }
                return match status.code() {
                    Some(0) => ChildEnd::Ok(out.lines().next().unwrap_or("").to_string()),
                    Some(c) => ChildEnd::Panic(format!("exit code {c}; stderr: {err_tail}")),
                    None => ChildEnd::Panic("no exit code".into()),
                };
            }
            Ok(None) => {
                if t0.elapsed() > Duration::from_secs(60) {
                    // wall-clock alone is no verdict on a loaded (or briefly frozen) machine: a
                    // child that is still consuming CPU gets more time, one that makes no
                    // progress over 1.5 s is a hang
                    let ticks = |pid: u32| -> Option<u64> {
                        let st = std::fs::read_to_string(format!("/proc/{pid}/stat")).ok()?;
                        let rest = st.rsplit(") ").next()?;
                        let f: Vec<&str> = rest.split_whitespace().collect();
                        Some(f.get(11)?.parse::<u64>().ok()? + f.get(12)?.parse::<u64>().ok()?)
                    };
                    let a = ticks(child.id());
                    std::thread::sleep(Duration::from_millis(1500));
                    let b = ticks(child.id());
                    let progressing = matches!((a, b), (Some(x), Some(y)) if y > x);
                    if !progressing || t0.elapsed() > Duration::from_secs(600) {
                        let _ = child.kill();
                        let _ = child.wait();
                        return ChildEnd::Timeout;
                    }
                }
                std::thread::sleep(Duration::from_millis(2));
            }
            Err(e) => return ChildEnd::Spawn(e.to_string()),
        }
    }
}

fn depth_sweep(ctx: &Ctx) -> Report {
    let mut rep = Report::new();
    rep.cur_stream = "depth".to_string();
    let ladder = |kind: &str| -> Vec<usize> {
        // `NOT NOT ... a` takes quadratic time (duplicate-clause removal hashes every subtree), so
        // its ladder stops earlier
        match (ctx.quick(), kind == "not-chain") {
            (true, false) => vec![100, 1_000, 5_000, 20_000],
            (true, true) => vec![100, 1_000, 3_000, 6_000],
            (false, false) => vec![100, 300, 1_000, 2_500, 5_000, 10_000, 20_000, 50_000, 100_000],
            (false, true) => vec![100, 300, 1_000, 2_500, 5_000, 10_000],
        }
    };
    // one job per (kind, api): walk up the ladder, then bisect to the smallest failing depth
    let jobs: Vec<(&str, &str)> = DEPTH_KINDS
        .iter()
        .flat_map(|k| DEPTH_APIS.iter().map(move |a| (*k, *a)))
        .collect();
    let results: Vec<(String, String, usize, Option<(usize, usize, ChildEnd)>, u64)> = {
        let next = std::sync::atomic::AtomicUsize::new(0);
        let out = std::sync::Mutex::new(vec![]);
        std::thread::scope(|s| {
            for _ in 0..ctx.threads.clamp(1, 16) {
                s.spawn(|| loop {
                    let i = next.fetch_add(1, std::sync::atomic::Ordering::Relaxed);
                    if i >= jobs.len() {
                        break;
                    }
                    let (kind, api) = jobs[i];
                    let mut children = 0u64;
                    let mut last_ok = 0usize;
                    let mut fail: Option<(usize, ChildEnd)> = None;
                    for &d in &ladder(kind) {
                        children += 1;
                        match run_child(kind, d, api) {
                            ChildEnd::Ok(_) => last_ok = d,
                            other => {
                                fail = Some((d, other));
                                break;
                            }
                        }
                    }
                    let mut res = None;
                    if let Some((mut hi, mut end)) = fail {
                        let mut lo = last_ok;
                        // bisect (the threshold is monotone for all practical purposes)
                        while hi - lo > (hi / if ctx.quick() { 10 } else { 50 }).max(1) {
                            let mid = lo + (hi - lo) / 2;
                            children += 1;
                            match run_child(kind, mid, api) {
                                ChildEnd::Ok(_) => lo = mid,
                                other => {
                                    hi = mid;
                                    end = other;
                                }
                            }
                        }
                        res = Some((lo, hi, end));
                    }
                    out.lock().unwrap().push((kind.to_string(), api.to_string(), last_ok, res, children));
                });
            }
        });
        out.into_inner().unwrap()
    };
    // group per kind
    let mut per_kind: BTreeMap<String, Vec<Value>> = BTreeMap::new();
    let mut kind_sig: BTreeMap<String, BTreeSet<String>> = BTreeMap::new();
    for (kind, api, last_ok, res, children) in results {
        rep.evals(children);
        rep.count("depth:child_processes", children);
        rep.observe("depth:kinds", kind.clone());
        rep.observe("depth:apis", api.clone());
        match res {
            None => {
                rep.count("depth:kind_api_pairs_surviving_max_depth", 1);
                rep.nontrivial(format!("depth|{kind}|{api}|ok<={last_ok}"));
            }
            Some((lo, hi, end)) => {
                rep.nontrivial(format!("depth|{kind}|{api}|fails"));
                let class = match &end {
                    ChildEnd::Signal(_, _) => "abort:stack-overflow",
                    ChildEnd::Panic(_) => "panic-in-child",
                    ChildEnd::Timeout => "hang:no-result-within-60s",
                    ChildEnd::Spawn(e) => {
                        rep.harness_error(format!("cannot run child: {e}"));
                        continue;
                    }
                    ChildEnd::Ok(_) => continue,
                };
                kind_sig.entry(kind.clone()).or_default().insert(class.to_string());
                per_kind.entry(format!("{class}:{kind}")).or_default().push(json!({
                    "api": api, "largest_depth_that_returned": lo, "smallest_depth_that_failed": hi,
                    "how": format!("{end:?}"),
                    "input_shape": depth_input(&kind, 2),
                }));
            }
        }
    }
    for (sig, witnesses) in per_kind {
        let smallest = witnesses
            .iter()
            .filter_map(|w| w["smallest_depth_that_failed"].as_u64())
            .min();
        rep.violation(
            sig,
            json!({"smallest_failing_depth": smallest, "per_api": witnesses,
                   "note": "child process = same binary, parse on the 8 MB main thread; depth = number of nested levels"}),
        );
    }
    rep
}

// ---------------------------------------------------------------------------------------------

fn main() {
    let argv: Vec<String> = std::env::args().collect();
    if let Some(i) = argv.iter().position(|a| a == "--child-depth") {
        child_main(&argv[i + 1..]);
    }
    if argv.iter().any(|a| a == "--child-total") {
        child_total_main();
    }
    if let Some(i) = argv.iter().position(|a| a == "--child-one") {
        child_one_main(&argv[i + 1..]);
    }
    let ctx = Ctx::from_env("C16", "exploration");
    let thorough = !ctx.quick();
    let mut rep = Report::new();
    rep.max_samples = 10;
    let run_depth = match &ctx.replay {
        None => true,
        Some(r) => r.get("stream").and_then(|v| v.as_str()) == Some("depth"),
    };
    // debugging knob: C16_ONLY=depth|sem|total runs a single stream
    let only = std::env::var("C16_ONLY").ok();
    let want = |s: &str| only.as_deref().map(|o| o == s).unwrap_or(true);
    if run_depth && want("depth") {
        rep.merge(depth_sweep(&ctx));
    }
    // semantic stream first (it is the expensive one), then totality
    let per_corpus = ctx.scale(10, 25);
    let n_sem = ctx.scale(200, 4_000) as u64;
    if want("sem") {
        // on a loaded host the soft deadline must not be spent on one stream: the semantic stream
        // may use the first 45 % of it
        let mut ctx_sem = ctx.clone();
        ctx_sem.deadline = ctx.deadline * 45 / 100;
        rep.merge(run_cases(&ctx_sem, "sem", n_sem, |c, rng, rep| sem_case(c, rng, rep, per_corpus)));
        shutdown_pool();
    }
    if want("agree") {
        let n_agree = rw_core_size() * ctx.scale(2, 12) as u64;
        rep.merge(run_cases(&ctx, "agree", n_agree, agree_case));
        shutdown_pool();
    }
    let n_total = std::env::var("C16_TOTAL_N")
        .ok()
        .and_then(|v| v.parse().ok())
        .unwrap_or(ctx.scale(10_000, 300_000) as u64);
    if want("total") {
        rep.merge(run_cases(&ctx, "total", n_total, |c, rng, rep| total_case(c, rng, rep, thorough)));
        shutdown_pool();
    }
    // debugging knob: C16_DUMP=<file> writes every violation as one JSON line
    if let Ok(path) = std::env::var("C16_DUMP") {
        let mut out = String::new();
        for v in &rep.violations {
            out.push_str(&json!({"sig": v.sig, "stream": v.stream, "case": v.case, "detail": v.detail}).to_string());
            out.push('\n');
        }
        let _ = std::fs::write(path, out);
    }
    simple_finish(
        &ctx,
        rep,
        "agree: case = one query holding a reserved word (AND OR NOT IN TO) where a value stands: keyword x quoting (double / single quotes, each also with a redundant backslash, bare, bare with a backslash) x field form (none, text, blank before / after the colon, string, JSON path, escaped name, unknown) x 50 contexts (alone, parentheses, + / - / NOT, next to terms, operand of AND / OR on either side, boosts, member of a field group, set element, range bound); the first pass walks through all combinations with the exact keyword and single blanks, the following passes through the same combinations with random content (lower case, keyword next to a word, two keywords, padded, glued), suffix (* ~n) and whitespace; judged like the totality inputs (same workers, same four entry points x 4 QueryParser configurations); non-trivial = accepted by the strict grammar, distinct = keyword x quoting x field form x context. total: case = one generated string (classes: random UTF-8, lossy byte soup, metacharacter soup, valid queries, their mutations, every prefix of one, unbalanced quotes/brackets, splices, keyword/whitespace variants, long inputs up to 1 MB, nesting <= 200) fed - inside memory-capped worker processes, so that hangs, unbounded allocation and stack overflows are survivable and attributable - to grammar parse_query/parse_query_lenient and to 4 QueryParser configurations (strict + lenient); non-trivial = the string contains grammar metacharacters/keywords; distinct = input class x character-class skeleton (first 28). sem: case = one corpus (1-40 docs, 1-2 segments, every field type, typed fields INDEXED or INDEXED|FAST, three fields whose analyzer removes tokens - sw and the JSON field jt: stop words, lg: tokens of 6 bytes or more - next to the default tokenizer's 40-byte limit on title/body/js, documents embedding pooled sentences with removed tokens between kept ones - one sentence per analyzer always reads kept kept [kept] removed kept - and phrase / phrase~slop / phrase* / multi-token literals cut from them, about 5 % of the leaves being a prefix phrase cut over such a gap (two or more kept tokens, a removed token, then the prefix), plus one title-only document per subset of three focus words) with 10/25 abstract queries, each printed with random whitespace/escaping/quoting/case/redundant parentheses/boosts, parsed in disjunction and conjunction mode and compared (Count and DocSetCollector via the id fast field) with a naive evaluation on the model documents, failing queries are shrunk; non-trivial = accepted by both parsers with the expected match set; distinct = set of grammar features in the query. depth: child-process sweeps of 6 nesting shapes x 4 entry points on an 8 MB main-thread stack.",
        ctx.scale(500, 5_000),
        &[
            "documented grammar = doc comment of tantivy::query::QueryParser; only forms it defines are generated in the semantic stream (NOT only as a synonym of '-' inside an occur list, as the grammar crate's own tests define it; AND/OR chains whose operands carry '-' or '+' follow the grammar crate's tests: inside a conjunction '-' excludes and '+' changes nothing, a conjunction made only of excluded operands - e.g. the '-y' of 'x OR -y' - matches nothing, '+' is never written on a lone OR alternative; field groups 'field:( expr )' give their field to every unfielded term below them, through boosts and parentheses, and are generated on non-default fields only; field:* (exists) only at syntax-tree level and field:(group) only in the totality stream because QueryParser does not document them; a query made only of excluded clauses must be rejected with AllButQueryForbidden)",
            "meaning-preserving noise = blanks/tabs/newlines between operands and after ':' (only blanks before ':'), a literal blank after AND/OR/NOT, bare words with backslash escapes or single/double quotes with redundant escapes, ASCII case changes on tokenized text, redundant parentheses, boosts",
            "strict and lenient QueryParser results are compared after undoing LogicalAst::simplify (same-occur child clauses spliced into the parent), which only the strict path applies",
            "QueryParser-level agreement is checked only on inputs where the two grammar-level parsers already agree, so one grammar disagreement is reported once; a grammar disagreement is named after its cause when rewriting that detail (blank after '[' of a set, blank before a closing range bracket, blank after NOT, blanks between adjacent operands) makes the parsers agree while the strict tree stays the same, otherwise after its first symptom; an error of the lenient parser keeps a name starting with lenient-error only for the messages and causes recorded for the unchanged tree (a word starting with < or > in the strict tree, which the lenient grammar always reads as a range; regex literals; leftovers of glued operands), every other one is but-lenient-error:<message>",
            "phrase slop is only generated for phrases with two kept terms (|pos_a + gap - pos_b| <= slop, gap = distance of the two terms in the literal, 1 when adjacent; PhraseQuery::set_slop doc); text tokens follow the tokenizer of the field (split on non-alphanumeric, lower-cased); JSON literals are integers, bools or alphabetic words",
            "a literal is tokenised by the analyzer of its field; a token the analyzer removes (stop word, token of 40 / 6 bytes or more) leaves its position empty in the document and in the literal alike, so \"quick the fox\" on a stop-word field is quick, one position left out, fox (naive model: keeps(field, token), no tantivy code); only literals with at least one kept token are generated (what a literal without any token means is not documented), prefix phrases keep two tokens of which the prefix is the last, single terms / set elements / range bounds are kept tokens",
            "a worker without an answer is a verdict only if a fresh one-shot process running a single entry point reproduces it (30 s CPU limit, 384 MB address space); a child killed by a signal with 'stack overflow' on stderr is a stack overflow",
        ],
    );
}
