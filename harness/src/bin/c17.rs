//! C17 — a sorted index keeps every segment in sort order, with unchanged semantics.
use std::collections::{BTreeMap, BTreeSet};

use serde_json::{json, Value};
use tantivy::directory::RamDirectory;
use tantivy::{Order, Searcher};
use tvmon::dump::*;
use tvmon::hist::*;
use tvmon::report::*;
use tvmon::rng::Rng;

/// missing values first in ascending, last in descending order
fn check_sorted(vals: &[Option<i64>], order: Order) -> Option<String> {
    for (i, w) in vals.windows(2).enumerate() {
        let ok = match order {
            Order::Asc => match (w[0], w[1]) {
                (None, _) => true,
                (Some(_), None) => false,
                (Some(a), Some(b)) => a <= b,
            },
            Order::Desc => match (w[0], w[1]) {
                (_, None) => true,
                (None, Some(_)) => false,
                (Some(a), Some(b)) => a >= b,
            },
        };
        if !ok {
            return Some(format!(
                "position {i}: {:?} then {:?}; segment values {:?}",
                w[0],
                w[1],
                vals.iter().take(40).collect::<Vec<_>>()
            ));
        }
    }
    None
}

/// sort-field values in doc-id order for ALL docs of the segment (deleted ones included: the
/// statement is about the documents of the segment), read through the `val` fast field, of which
/// every sort field is an order-preserving twin
fn segment_orders(searcher: &Searcher) -> Result<Vec<(Vec<Option<i64>>, u32)>, String> {
    let mut out = vec![];
    for sr in searcher.segment_readers() {
        let c = sr.fast_fields().i64("val").map_err(|e| e.to_string())?;
        let vals: Vec<Option<i64>> = (0..sr.max_doc()).map(|d| c.first(d)).collect();
        out.push((vals, sr.num_deleted_docs()));
    }
    Ok(out)
}

fn all_canon(searcher: &Searcher, hs: &HSchema) -> Result<BTreeMap<u64, DocCanon>, (String, Value)> {
    let mut all = BTreeMap::new();
    for sr in searcher.segment_readers() {
        let d = dump_segment(sr, hs)?;
        for (id, c) in d.docs {
            if all.insert(id, c).is_some() {
                return Err(("dump:duplicate-id-across-segments".into(), json!({"id": id})));
            }
        }
    }
    Ok(all)
}

fn case(case: u64, rng: &mut Rng, rep: &mut Report) {
    let field = rng.pick(&SORT_FIELDS).to_string();
    let order = if rng.bool() { Order::Asc } else { Order::Desc };
    let cfg = ExecCfg {
        threads: *rng.pick(&[1usize, 1, 2, 4]),
        merge_policy: rng.chance(1, 3),
        sort: Some((field.clone(), order)),
        budget_per_thread: 15_000_000,
    };
    // a third of the cases write multi-block doc stores: the remap of the temporary store at
    // segment finalisation and the store side of sorted merges (block stacking on the disjoint
    // path, document-wise copy on the k-way path) then cross block borders
    let mut r2 = Rng::new(case ^ 0x17b1_0c4b_5107);
    let blocksize = if r2.chance(1, 3) { *r2.pick(&[24usize, 64, 160, 400]) } else { 0 };
    set_docstore_blocksize(blocksize);
    rep.observe("docstore_blocksize", if blocksize == 0 { "default".to_string() } else { blocksize.to_string() });
    // doc store written on the indexing thread (no compressor thread) in a quarter of the cases;
    // compressor none / zstd instead of lz4 in a third
    let variant = set_docstore_variant(r2.chance(1, 4), if r2.chance(1, 3) { 1 + r2.below(2) as u8 } else { 0 });
    rep.observe("docstore_variant", variant);
    let mut ex = match Exec::create(Box::new(RamDirectory::create()), cfg.clone(), None) {
        Ok(e) => e,
        Err(e) => {
            rep.violation("api-error:create", json!(e));
            return;
        }
    };
    rep.eval();
    let mut g = HistGen::new();
    let len = rng.urange(10, 50);
    let mut gcfg = GenCfg::standard(len).no_delete_all();
    gcfg.w[8] = 10; // merges matter here
    gcfg.w[11] = if rng.chance(1, 5) { 1 } else { 0 };
    let value_mode = rng.below(4);
    let mut ops = g.history(rng, &gcfg);
    // value multisets: duplicates, missing, extremes, disjoint ranges per transaction
    let mut txn = 0i64;
    for op in ops.iter_mut() {
        match op {
            Op::Commit | Op::PrepCommit { .. } => txn += 1,
            Op::Add(d) => match value_mode {
                0 => {}
                1 => d.val = d.val.map(|v| v.signum() * 3), // massive duplicates
                2 => d.val = d.val.map(|v| txn * 50 + v.rem_euclid(40)), // disjoint per txn
                _ => {
                    if rng.chance(1, 2) {
                        d.val = None // many missing
                    }
                }
            },
            _ => {}
        }
    }
    let mut distinct_vals = BTreeSet::new();
    let mut saw_missing = false;
    let mut saw_dup = false;
    let mut seg_checks = 0u64;
    let mut max_segs = 0usize;
    for (i, op) in ops.iter().enumerate() {
        // explicit merges are validated as content-preserving
        let pre = if matches!(op, Op::Merge { wait: true, .. }) {
            ex.reader.reload().ok();
            all_canon(&ex.reader.searcher(), &ex.hs).ok()
        } else {
            None
        };
        ex.step(op);
        rep.count(&format!("op:{}", op.kind()), 1);
        let observe = matches!(
            op,
            Op::Commit | Op::PrepCommit { .. } | Op::Rollback | Op::Reopen { .. } | Op::Merge { wait: true, .. }
        ) || i + 1 == ops.len();
        if !observe {
            continue;
        }
        let mut errs = ex.check_committed(true);
        let searcher = ex.reader.searcher();
        max_segs = max_segs.max(searcher.segment_readers().len());
        match segment_orders(&searcher) {
            Err(e) => errs.push(("api-error:fast-field".into(), json!(e))),
            Ok(segs) => {
                for (vals, ndel) in segs {
                    seg_checks += 1;
                    for v in &vals {
                        match v {
                            None => saw_missing = true,
                            Some(x) => {
                                if !distinct_vals.insert(*x) {
                                    saw_dup = true;
                                }
                            }
                        }
                    }
                    if let Some(e) = check_sorted(&vals, order) {
                        errs.push((
                            format!("segment-not-in-sort-order:{}", if ndel > 0 { "with-deletes" } else { "no-deletes" }),
                            json!({"field": field, "order": format!("{order:?}"), "detail": e, "after": op.kind()}),
                        ));
                    }
                }
            }
        }
        if let Some(pre) = pre {
            match all_canon(&searcher, &ex.hs) {
                Err((sig, d)) => errs.push((sig, d)),
                Ok(post) => {
                    rep.count("merges_compared_doc_by_doc", 1);
                    for (id, c) in &post {
                        match pre.get(id) {
                            None => errs.push(("merge:doc-appeared".into(), json!({"id": id}))),
                            Some(p) => {
                                if let Some(diff) = diff_doc(p, c) {
                                    let what = diff.split(':').next().unwrap_or("?").split(' ').next().unwrap_or("?").to_string();
                                    errs.push((format!("merge:doc-differs:{what}"), json!({"id": id, "diff": diff})));
                                    break;
                                }
                            }
                        }
                    }
                    if pre.len() != post.len() {
                        errs.push(("merge:doc-count-changed".into(), json!({"before": pre.len(), "after": post.len()})));
                    }
                }
            }
        }
        for (sig, d) in ex.problems.drain(..) {
            if !is_known("C02", &sig) {
                errs.push((format!("live:{sig}"), d));
            }
        }
        if !errs.is_empty() {
            for (sig, d) in errs {
                rep.violation(
                    sig,
                    json!({"case": case, "cfg": cfg.describe(), "detail": d,
                           "history": ops.iter().take(i + 1).map(|o| o.brief()).collect::<Vec<_>>()}),
                );
            }
            break;
        }
    }
    ex.drain_merges();
    rep.count("segment_order_checks", seg_checks);
    if distinct_vals.len() >= 2 && (saw_missing || saw_dup) && seg_checks > 0 {
        rep.nontrivial(format!(
            "{field}:{order:?}:vm{value_mode}:t{}:segs{}:{}",
            cfg.threads,
            max_segs.min(4),
            if cfg.merge_policy { "policy" } else { "nopolicy" }
        ));
    }
    rep.observe("sort_field", format!("{field}:{order:?}"));
    if case < 3 {
        rep.sample(json!({"cfg": cfg.describe(), "value_mode": value_mode, "ops": ops.iter().take(30).map(|o| o.brief()).collect::<Vec<_>>()}));
    }
}

fn main() {
    let ctx = Ctx::from_env("C17", "exploration");
    let rep = run_cases(&ctx, "sorted", ctx.scale(250, 15000) as u64, case);
    simple_finish(
        &ctx,
        rep,
        "case = one generated history (adds with duplicate / missing / extreme / per-transaction-disjoint sort values, deletes inside the transaction, commits, rollbacks, explicit and policy merges, reopen) on an index sorted by one of six order-equivalent fast fields (i64, u64, f64, date, str, bytes) ascending or descending; after every commit / rollback / reopen / merge every segment's documents must be monotone in the sort key with missing values first (asc) or last (desc), the searcher must equal the sequential model (all fields, term and range queries), and explicit merges must preserve every document's canonical dump (stored doc, field norm, fast fields, postings with positions). Non-trivial = >=2 distinct sort values and a missing or duplicate value; distinct = field x order x value mode x threads x segment count.",
        ctx.scale(40, 200),
        &["all sort fields are order-preserving functions of the model value `val`, so one monotonicity oracle serves all types"],
    );
}
