//! Model documents, corpus generator, schema and index building for C14.
use std::net::{Ipv4Addr, Ipv6Addr};

use tantivy::indexer::NoMergePolicy;
use tantivy::schema::{
    DateOptions, DateTimePrecision, Field, IndexRecordOption, NumericOptions, Schema,
    TextFieldIndexing, TextOptions, FAST, STRING,
};
use tantivy::{DateTime, Index, IndexWriter, Searcher, TantivyDocument};
use tvmon::rng::Rng;

#[derive(Clone, Copy, Debug, PartialEq, Eq, Hash, PartialOrd, Ord)]
pub enum Fd {
    Id = 0,
    Rank,
    Cat,
    Tag,
    Txt,
    Ff,
    Fi,
    Fu,
    Fdt,
    Fb,
    Fip,
    Fm,
    Im,
}
pub const NF: usize = 13;
pub const ALL_FIELDS: [Fd; NF] = [
    Fd::Id,
    Fd::Rank,
    Fd::Cat,
    Fd::Tag,
    Fd::Txt,
    Fd::Ff,
    Fd::Fi,
    Fd::Fu,
    Fd::Fdt,
    Fd::Fb,
    Fd::Fip,
    Fd::Fm,
    Fd::Im,
];

#[derive(Clone, Copy, Debug, PartialEq, Eq)]
pub enum Ty {
    Str,
    F64,
    I64,
    U64,
    Date,
    Bool,
    Ip,
}

impl Fd {
    pub fn idx(self) -> usize {
        self as usize
    }
    pub fn name(self) -> &'static str {
        match self {
            Fd::Id => "id",
            Fd::Rank => "rank",
            Fd::Cat => "cat",
            Fd::Tag => "tag",
            Fd::Txt => "txt",
            Fd::Ff => "f",
            Fd::Fi => "i",
            Fd::Fu => "u",
            Fd::Fdt => "d",
            Fd::Fb => "b",
            Fd::Fip => "ip",
            Fd::Fm => "fm",
            Fd::Im => "im",
        }
    }
    pub fn ty(self) -> Ty {
        match self {
            Fd::Id | Fd::Fu => Ty::U64,
            Fd::Rank | Fd::Fi | Fd::Im => Ty::I64,
            Fd::Cat | Fd::Tag | Fd::Txt => Ty::Str,
            Fd::Ff | Fd::Fm => Ty::F64,
            Fd::Fdt => Ty::Date,
            Fd::Fb => Ty::Bool,
            Fd::Fip => Ty::Ip,
        }
    }
    pub fn is_num_or_date(self) -> bool {
        matches!(self.ty(), Ty::F64 | Ty::I64 | Ty::U64 | Ty::Date)
    }
    pub fn is_num(self) -> bool {
        matches!(self.ty(), Ty::F64 | Ty::I64 | Ty::U64)
    }
    /// fields that may hold several values per document
    pub fn multi(self) -> bool {
        matches!(self, Fd::Txt | Fd::Fm | Fd::Im)
    }
}

#[derive(Clone, Debug, PartialEq)]
pub enum V {
    S(String),
    F(f64),
    I(i64),
    U(u64),
    D(i64),
    B(bool),
    Ip(u128),
}

impl V {
    /// the f64 view used by metric / histogram aggregations (documented: all values -> f64)
    pub fn num(&self) -> Option<f64> {
        match self {
            V::F(f) => Some(*f),
            V::I(i) => Some(*i as f64),
            V::U(u) => Some(*u as f64),
            V::D(ns) => Some(*ns as f64),
            _ => None,
        }
    }
    /// order preserving u64 image of the value (what top_hits reports in `sort`)
    pub fn u64repr(&self) -> u64 {
        match self {
            V::U(u) => *u,
            V::I(i) | V::D(i) => (*i as u64) ^ (1u64 << 63),
            V::F(f) => {
                let bits = f.to_bits();
                if bits >> 63 == 0 {
                    bits ^ (1u64 << 63)
                } else {
                    !bits
                }
            }
            V::B(b) => *b as u64,
            _ => 0,
        }
    }
}

pub fn rfc3339(ns: i64) -> String {
    use time::format_description::well_known::Rfc3339;
    time::OffsetDateTime::from_unix_timestamp_nanos(ns as i128)
        .ok()
        .and_then(|d| d.format(&Rfc3339).ok())
        .unwrap_or_else(|| format!("<unformattable {ns}>"))
}

pub fn ip_text(ip: u128) -> String {
    let v6 = Ipv6Addr::from(ip);
    match v6.to_ipv4_mapped() {
        Some(v4) => v4.to_string(),
        None => v6.to_string(),
    }
}

#[derive(Clone, Debug, Default)]
pub struct Doc {
    pub v: Vec<Vec<V>>, // NF entries
}

impl Doc {
    pub fn get(&self, f: Fd) -> &[V] {
        &self.v[f.idx()]
    }
}

#[derive(Clone, Debug)]
pub struct Corpus {
    pub docs: Vec<Doc>,
    pub cat_pool: usize,
    pub descr: String,
}

impl Corpus {
    /// min / max of the f64 view of a field over the corpus
    pub fn span(&self, f: Fd) -> Option<(f64, f64)> {
        let mut r: Option<(f64, f64)> = None;
        for d in &self.docs {
            for v in d.get(f) {
                if let Some(x) = v.num() {
                    r = Some(match r {
                        None => (x, x),
                        Some((a, b)) => (a.min(x), b.max(x)),
                    });
                }
            }
        }
        r
    }
    pub fn distinct(&self, f: Fd) -> usize {
        let mut s = std::collections::BTreeSet::new();
        for d in &self.docs {
            for v in d.get(f) {
                s.insert(format!("{v:?}"));
            }
        }
        s.len()
    }
    /// average number of occurrences of a value of the field (0 without values)
    pub fn repetition(&self, f: Fd) -> f64 {
        let total: usize = self.docs.iter().map(|d| d.get(f).len()).sum();
        let distinct = self.distinct(f);
        if distinct == 0 {
            0.0
        } else {
            total as f64 / distinct as f64
        }
    }
    /// some value of the field occurs at least `min_run` times and its f64 image needs many
    /// mantissa bits (ns timestamps, large integers, non-dyadic fractions): sums of such a run
    /// are rounded, which is where variance formulas lose their sign
    pub fn has_wide_run(&self, f: Fd, min_run: usize) -> bool {
        let mut counts: std::collections::BTreeMap<u64, usize> = std::collections::BTreeMap::new();
        for d in &self.docs {
            for v in d.get(f) {
                if let Some(x) = v.num() {
                    *counts.entry(x.to_bits()).or_default() += 1;
                }
            }
        }
        counts.iter().any(|(bits, c)| {
            let x = f64::from_bits(*bits);
            *c >= min_run && x.is_finite() && (bits & ((1u64 << 52) - 1)).trailing_zeros() < 20
        })
    }
    /// single-valued numeric / date fields without any value in the whole corpus
    pub fn absent_numeric_fields(&self) -> Vec<Fd> {
        [Fd::Ff, Fd::Fdt, Fd::Fi, Fd::Fu]
            .into_iter()
            .filter(|f| self.docs.iter().all(|d| d.get(*f).is_empty()))
            .collect()
    }
    /// single-valued numeric / date fields with a wide run of at least 30 documents
    pub fn wide_run_fields(&self) -> Vec<Fd> {
        [Fd::Ff, Fd::Fdt, Fd::Fi, Fd::Fu]
            .into_iter()
            .filter(|f| self.has_wide_run(*f, 30))
            .collect()
    }
    pub fn max_multiplicity(&self, f: Fd) -> usize {
        self.docs.iter().map(|d| d.get(f).len()).max().unwrap_or(0)
    }
}

#[derive(Clone, Copy, Debug)]
enum Den {
    Full,
    Opt(u64),
    Absent,
}

fn pick_den(rng: &mut Rng) -> Den {
    match rng.weighted(&[40, 50, 8]) {
        0 => Den::Full,
        1 => Den::Opt(*rng.pick(&[10u64, 50, 90])),
        _ => Den::Absent,
    }
}
fn present(rng: &mut Rng, d: Den) -> bool {
    match d {
        Den::Full => true,
        Den::Opt(p) => rng.chance(p, 100),
        Den::Absent => false,
    }
}

const WORDS: [&str; 40] = [
    "alpha", "bravo", "charlie", "delta", "echo", "foxtrot", "golf", "hotel", "india", "juliet",
    "kilo", "lima", "mike", "november", "oscar", "papa", "quebec", "romeo", "sierra", "tango",
    "uniform", "victor", "whiskey", "xray", "yankee", "zulu", "one", "two", "three", "four",
    "five", "six", "seven", "eight", "nine", "ten", "red", "green", "blue", "black",
];

/// a corpus size just beyond a multiple of the sub-aggregation flush threshold (2048 documents):
/// a one-segment index then feeds its sub aggregations by a full flush followed by a short one
fn flush_boundary_size(rng: &mut Rng) -> usize {
    let over = match rng.below(7) {
        0 | 1 | 2 => 1,
        3 => 2,
        4 => 3,
        5 => rng.urange(4, 8),
        _ => rng.urange(1, 48),
    };
    *rng.pick(&[2048usize, 2048, 2048, 4096]) + over
}

pub fn gen_corpus(rng: &mut Rng, big_ok: bool, force_big: bool) -> Corpus {
    let small = [0usize, 1, 2, 3, 5, 8, 13, 17, 30, 40, 64, 65, 100, 129, 200, 300, 513];
    let big = [2047usize, 2048, 2049, 2500, 4100, 6000];
    let n = if force_big {
        flush_boundary_size(rng)
    } else if big_ok && rng.chance(1, 9) {
        if rng.chance(1, 3) {
            flush_boundary_size(rng)
        } else {
            *rng.pick(&big)
        }
    } else if rng.chance(1, 5) {
        rng.urange(0, 400)
    } else {
        *rng.pick(&small)
    };
    let cat_pool = *rng.pick(&[1usize, 2, 3, 7, 20, 99, 100, 101, 150]);
    let cat_mode = rng.weighted(&[45, 35, 20]); // full / optional / multi (distinct values)
    let cat_den = *rng.pick(&[30u64, 70, 95]);
    let tag_pool = match rng.weighted(&[3, 3, 2]) {
        0 => (n / 2).max(3),
        1 => (n * 3).max(5),
        _ => 50,
    };
    let tag_mode = rng.weighted(&[50, 30, 15, 5]); // optional / multi / full / absent
    let vocab = rng.urange(3, WORDS.len());
    let txt_max = rng.urange(0, 5);
    let dens: Vec<Den> = (0..NF).map(|_| pick_den(rng)).collect();
    // value styles
    let f_style = rng.weighted(&[40, 15, 8, 20, 10]);
    let f_step = *rng.pick(&[0.25f64, 0.5, 1.0, 2.5, 10.0]);
    let f_jit = rng.chance(1, 3);
    let i_style = rng.weighted(&[35, 25, 15, 15, 8]);
    let u_style = rng.weighted(&[35, 25, 25, 7, 6, 8]);
    // some instant between 2014 and 2020 (ms)
    let d_any: i64 = 1_400_000_000_000 + rng.irange(0, 200_000_000_000);
    let d_base: i64 = *rng.pick(&[1_546_300_800_000i64, 0, 1_420_070_400_000, d_any]);
    let d_unit: i64 = *rng.pick(&[1i64, 1000, 60_000, 3_600_000, 86_400_000]);
    let d_span: i64 = *rng.pick(&[3i64, 20, 50]);
    let b_p = *rng.pick(&[10u64, 50, 90, 100]);
    let ip_pool = rng.urange(1, 30) as u64;
    let const_f = rng.irange(-20, 20) as f64 * f_step;
    let const_i = rng.irange(-100, 100);

    let mut docs = Vec::with_capacity(n);
    for id in 0..n {
        let mut v: Vec<Vec<V>> = vec![vec![]; NF];
        v[Fd::Id.idx()].push(V::U(id as u64));
        v[Fd::Rank.idx()].push(V::I(rng.irange(-3, 3)));
        // cat
        let cat = |rng: &mut Rng| V::S(format!("c{}", rng.usize_below(cat_pool)));
        match cat_mode {
            0 => v[Fd::Cat.idx()].push(cat(rng)),
            1 => {
                if rng.chance(cat_den, 100) {
                    v[Fd::Cat.idx()].push(cat(rng))
                }
            }
            _ => {
                let k = rng.urange(0, 3);
                for _ in 0..k {
                    let c = cat(rng);
                    if !v[Fd::Cat.idx()].contains(&c) {
                        v[Fd::Cat.idx()].push(c);
                    }
                }
            }
        }
        // tag (zipf-ish, high cardinality)
        let tag = |rng: &mut Rng| {
            let x = rng.f64();
            V::S(format!("t{:05}", (x * x * tag_pool as f64) as usize))
        };
        match tag_mode {
            0 => {
                if rng.chance(80, 100) {
                    v[Fd::Tag.idx()].push(tag(rng))
                }
            }
            1 => {
                for _ in 0..rng.urange(0, 3) {
                    let t = tag(rng);
                    if !v[Fd::Tag.idx()].contains(&t) {
                        v[Fd::Tag.idx()].push(t);
                    }
                }
            }
            2 => v[Fd::Tag.idx()].push(tag(rng)),
            _ => {}
        }
        // txt tokens (duplicates allowed)
        if txt_max > 0 && present(rng, dens[Fd::Txt.idx()]) {
            for _ in 0..rng.urange(1, txt_max) {
                v[Fd::Txt.idx()].push(V::S(WORDS[rng.usize_below(vocab)].to_string()));
            }
        }
        let gen_f = |rng: &mut Rng| -> f64 {
            let x = match f_style {
                0 => rng.irange(-40, 40) as f64 * f_step,
                1 => rng.irange(-5, 5) as f64,
                2 => const_f,
                3 => (rng.irange(-1_000_000, 1_000_000) as f64) / 8.0,
                _ => rng.irange(1_000, 1_000_000_000) as f64 + 0.5,
            };
            if f_jit && rng.chance(1, 3) {
                x + 0.1
            } else {
                x
            }
        };
        let gen_i = |rng: &mut Rng| -> i64 {
            match i_style {
                0 => rng.irange(-50, 50),
                1 => rng.irange(-50, 50) * 10,
                2 => rng.irange(0, 1000),
                3 => rng.irange(-1_000_000, 1_000_000),
                _ => const_i,
            }
        };
        if present(rng, dens[Fd::Ff.idx()]) {
            v[Fd::Ff.idx()].push(V::F(gen_f(rng)));
        }
        if present(rng, dens[Fd::Fi.idx()]) {
            v[Fd::Fi.idx()].push(V::I(gen_i(rng)));
        }
        if present(rng, dens[Fd::Fu.idx()]) {
            let u = match u_style {
                0 => rng.range(0, 100),
                1 => rng.range(0, 60) * 5,
                2 => rng.range(0, 1_000_000),
                3 => (1u64 << 63) - 3 + rng.range(0, 6),
                4 => u64::MAX - rng.range(0, 4),
                // identifiers: many distinct values above the dense-storage bound of terms
                _ => 10_000_000 + rng.range(0, 400),
            };
            v[Fd::Fu.idx()].push(V::U(u));
        }
        if present(rng, dens[Fd::Fdt.idx()]) {
            let ms = d_base + rng.irange(-d_span, d_span) * d_unit;
            v[Fd::Fdt.idx()].push(V::D(ms * 1_000_000));
        }
        if present(rng, dens[Fd::Fb.idx()]) {
            v[Fd::Fb.idx()].push(V::B(rng.chance(b_p, 100)));
        }
        if present(rng, dens[Fd::Fip.idx()]) {
            let k = rng.below(ip_pool);
            let ip = if k % 5 == 4 {
                Ipv6Addr::new(0x2001, 0xdb8, 0, 0, 0, 0, 0, k as u16)
            } else {
                Ipv4Addr::new(10, (k / 7) as u8, 0, (k % 250) as u8).to_ipv6_mapped()
            };
            v[Fd::Fip.idx()].push(V::Ip(u128::from(ip)));
        }
        if present(rng, dens[Fd::Fm.idx()]) {
            for _ in 0..rng.urange(0, 3) {
                v[Fd::Fm.idx()].push(V::F(gen_f(rng)));
            }
        }
        if present(rng, dens[Fd::Im.idx()]) {
            for _ in 0..rng.urange(0, 3) {
                v[Fd::Im.idx()].push(V::I(rng.irange(-6, 6)));
            }
        }
        docs.push(Doc { v });
    }
    Corpus {
        docs,
        cat_pool,
        descr: format!(
            "n={n} cat_pool={cat_pool} cat_mode={cat_mode} tag_mode={tag_mode} f_style={f_style} \
             i_style={i_style} u_style={u_style} d_base={d_base} d_unit={d_unit}"
        ),
    }
}

pub struct Sch {
    pub schema: Schema,
    pub f: Vec<Field>,
}

pub fn build_schema() -> Sch {
    let mut b = Schema::builder();
    let num_fast = NumericOptions::default().set_fast();
    let num_fast_idx = NumericOptions::default().set_fast().set_indexed();
    let txt_opts = TextOptions::default()
        .set_indexing_options(
            TextFieldIndexing::default()
                .set_tokenizer("default")
                .set_index_option(IndexRecordOption::Basic),
        )
        .set_fast(Some("default"));
    let date_opts = DateOptions::default()
        .set_fast()
        .set_precision(DateTimePrecision::Nanoseconds);
    let mut f = Vec::new();
    for fd in ALL_FIELDS {
        let field = match fd {
            Fd::Id => b.add_u64_field("id", num_fast_idx.clone()),
            Fd::Rank => b.add_i64_field("rank", num_fast.clone()),
            Fd::Cat => b.add_text_field("cat", STRING | FAST),
            Fd::Tag => b.add_text_field("tag", STRING | FAST),
            Fd::Txt => b.add_text_field("txt", txt_opts.clone()),
            Fd::Ff => b.add_f64_field("f", num_fast.clone()),
            Fd::Fi => b.add_i64_field("i", num_fast_idx.clone()),
            Fd::Fu => b.add_u64_field("u", num_fast.clone()),
            Fd::Fdt => b.add_date_field("d", date_opts.clone()),
            Fd::Fb => b.add_bool_field("b", num_fast_idx.clone()),
            Fd::Fip => b.add_ip_addr_field("ip", FAST),
            Fd::Fm => b.add_f64_field("fm", num_fast.clone()),
            Fd::Im => b.add_i64_field("im", num_fast.clone()),
        };
        f.push(field);
    }
    Sch {
        schema: b.build(),
        f,
    }
}

fn to_tdoc(s: &Sch, d: &Doc) -> TantivyDocument {
    let mut t = TantivyDocument::default();
    for fd in ALL_FIELDS {
        let field = s.f[fd.idx()];
        if fd == Fd::Txt {
            let toks: Vec<&str> = d
                .get(fd)
                .iter()
                .filter_map(|v| if let V::S(x) = v { Some(x.as_str()) } else { None })
                .collect();
            if !toks.is_empty() {
                t.add_text(field, toks.join(" "));
            }
            continue;
        }
        for v in d.get(fd) {
            match v {
                V::S(x) => t.add_text(field, x),
                V::F(x) => t.add_f64(field, *x),
                V::I(x) => t.add_i64(field, *x),
                V::U(x) => t.add_u64(field, *x),
                V::D(ns) => t.add_date(field, DateTime::from_timestamp_nanos(*ns)),
                V::B(x) => t.add_bool(field, *x),
                V::Ip(x) => t.add_ip_addr(field, Ipv6Addr::from(*x)),
            }
        }
    }
    t
}

/// One index = list of segments = list of doc indices.
pub type Layout = Vec<Vec<usize>>;

pub struct Built {
    pub index: Index,
    pub searcher: Searcher,
    pub layout: Layout,
}

pub fn build_index(s: &Sch, corpus: &Corpus, layout: &Layout) -> Result<Built, String> {
    let index = Index::create_in_ram(s.schema.clone());
    {
        let mut w: IndexWriter = index
            .writer_with_num_threads(1, 15_000_000)
            .map_err(|e| format!("writer: {e}"))?;
        w.set_merge_policy(Box::new(NoMergePolicy));
        for seg in layout {
            if seg.is_empty() {
                continue;
            }
            for &di in seg {
                w.add_document(to_tdoc(s, &corpus.docs[di]))
                    .map_err(|e| format!("add_document: {e}"))?;
            }
            w.commit().map_err(|e| format!("commit: {e}"))?;
        }
        w.wait_merging_threads()
            .map_err(|e| format!("wait_merging_threads: {e}"))?;
    }
    let reader = index.reader().map_err(|e| format!("reader: {e}"))?;
    let searcher = reader.searcher();
    Ok(Built {
        index,
        searcher,
        layout: layout.iter().filter(|s| !s.is_empty()).cloned().collect(),
    })
}

/// Splits `docs` (already ordered) into `k` contiguous chunks with random cut points.
pub fn split_contiguous(rng: &mut Rng, docs: &[usize], k: usize) -> Layout {
    let n = docs.len();
    let mut cuts: Vec<usize> = (0..k.saturating_sub(1)).map(|_| rng.urange(0, n)).collect();
    cuts.sort();
    let mut out = vec![];
    let mut prev = 0;
    for c in cuts {
        out.push(docs[prev..c].to_vec());
        prev = c;
    }
    out.push(docs[prev..].to_vec());
    out
}

/// fields that have no value at all in at least one non-empty segment of the layouts
pub fn absent_fields(corpus: &Corpus, layouts: &[&Layout]) -> Vec<Fd> {
    let mut out = vec![];
    for fd in ALL_FIELDS {
        let mut absent = false;
        for l in layouts {
            for seg in l.iter() {
                if seg.is_empty() {
                    continue;
                }
                if seg.iter().all(|&d| corpus.docs[d].get(fd).is_empty()) {
                    absent = true;
                }
            }
        }
        if absent {
            out.push(fd);
        }
    }
    out
}
