//! Helpers of the C07 check: the naive model inverted index + segment builder (`model`) the read-back
//! comparison (`verify`), the generator of terms with equal in-memory hash (`collide`) and the plans
//! that put doc-id deltas, term frequencies and positions on the length boundaries of the
//! variable-length integer encoding (`vintedge`).
pub mod collide;
pub mod model;
pub mod verify;
pub mod vintedge;
