//! C03, stream `exists`: the ExistsQuery family.
//!
//! Own schema: one fast field of every kind the schema language has (u64 / i64 / f64 / bool /
//! date / ip / bytes, raw and tokenized str, facet) and two JSON fast fields (`js`: raw strings,
//! dots in keys kept; `jx`: tokenized strings, `expand_dots`). Every field is generated with a
//! per-commit-group cardinality profile (none / full / optional dense / optional sparse / one
//! document / multi / multi sparse), so that the column of the same field is empty, full, optional
//! or multivalued depending on the segment, and a JSON path (with json_subpaths) resolves to
//! 0..12 columns of mixed cardinality in one segment.
//!
//! Oracle: "the document has a non-null value for the field", resp. for a JSON path "a non-null
//! leaf at exactly that path, or - json_subpaths - below it", computed from the model documents
//! (a walk over the model JSON value; no tantivy code). Queries: the exists query alone and under
//! must / must_not / should / const / boost, through every collector path of the main stream.
#![allow(dead_code)]

use std::collections::{BTreeMap, BTreeSet};

use serde_json::{json, Value};
use tantivy::indexer::NoMergePolicy;
use tantivy::query::{AllQuery, BooleanQuery, BoostQuery, ConstScoreQuery, ExistsQuery, Occur, Query, TermQuery};
use tantivy::schema::{
    BytesOptions, DateOptions, FacetOptions, Field, IndexRecordOption, IpAddrOptions, JsonObjectOptions,
    NumericOptions, OwnedValue, Schema, TextOptions, FAST, INDEXED, STRING, TEXT,
};
use tantivy::{DateTime, Index, IndexReader, IndexWriter, ReloadPolicy, TantivyDocument, Term};
use tvmon::report::*;
use tvmon::rng::Rng;

use super::qshared::{id_table, Oc, Val, NTY, TY_NAMES, T_B, T_BY, T_D, T_F, T_I, T_IP, T_U};
use super::{err_class, filter_by, filter_i, filter_wrapper_only, judge, mismatch_class, panel, push_violation, Obs, View};

// ---------------------------------------------------------------------------------------------
// model

/// model JSON value (what the document holds; the oracle walks it)
#[derive(Clone, Debug, PartialEq)]
pub enum JV {
    Null,
    Str(String),
    U(u64),
    I(i64),
    F(f64),
    B(bool),
    /// whole seconds
    D(i64),
    Arr(Vec<JV>),
    Obj(Vec<(String, JV)>),
}

impl JV {
    fn json(&self) -> Value {
        match self {
            JV::Null => Value::Null,
            JV::Str(s) => json!(s),
            JV::U(v) => json!(v),
            JV::I(v) => json!(v),
            JV::F(v) => json!(v),
            JV::B(v) => json!(v),
            JV::D(v) => json!({"$date_secs": v}),
            JV::Arr(a) => Value::Array(a.iter().map(|x| x.json()).collect()),
            JV::Obj(o) => Value::Object(o.iter().map(|(k, v)| (k.clone(), v.json())).collect()),
        }
    }
    fn owned(&self) -> OwnedValue {
        match self {
            JV::Null => OwnedValue::Null,
            JV::Str(s) => OwnedValue::Str(s.clone()),
            JV::U(v) => OwnedValue::U64(*v),
            JV::I(v) => OwnedValue::I64(*v),
            JV::F(v) => OwnedValue::F64(*v),
            JV::B(v) => OwnedValue::Bool(*v),
            JV::D(v) => OwnedValue::Date(DateTime::from_timestamp_secs(*v)),
            JV::Arr(a) => OwnedValue::Array(a.iter().map(|x| x.owned()).collect()),
            JV::Obj(o) => OwnedValue::Object(o.iter().map(|(k, v)| (k.clone(), v.owned())).collect()),
        }
    }
    /// column kind a leaf lands in (numbers of one path share a column)
    fn col_kind(&self) -> &'static str {
        match self {
            JV::Str(_) => "str",
            JV::U(_) | JV::I(_) | JV::F(_) => "num",
            JV::B(_) => "bool",
            JV::D(_) => "date",
            _ => "-",
        }
    }
}

/// non-null leaves of a JSON value with their path (arrays are transparent; with `expand` a dot
/// inside a key separates two path segments)
fn leaves<'a>(v: &'a JV, path: &mut Vec<String>, expand: bool, out: &mut Vec<(Vec<String>, &'a JV)>) {
    match v {
        JV::Null => {}
        JV::Arr(a) => {
            for x in a {
                leaves(x, path, expand, out);
            }
        }
        JV::Obj(o) => {
            for (k, x) in o {
                let n = path.len();
                if expand {
                    path.extend(k.split('.').map(|s| s.to_string()));
                } else {
                    path.push(k.clone());
                }
                leaves(x, path, expand, out);
                path.truncate(n);
            }
        }
        leaf => out.push((path.clone(), leaf)),
    }
}

pub const N_JSON: usize = 2;
pub const JSON_NAMES: [&str; N_JSON] = ["js", "jx"];
/// `jx` has expand_dots enabled
pub const JSON_EXPAND: [bool; N_JSON] = [false, true];
pub const KIND: &[&str] = &["kall", "khalf", "kquart", "kone", "knone"];

#[derive(Clone, Debug)]
pub struct XDoc {
    pub id: u64,
    /// words of the text field `kind`
    pub kind: Vec<u8>,
    pub vals: Vec<Vec<Val>>,
    pub s_raw: Vec<String>,
    pub s_tok: Vec<String>,
    pub facet: Vec<String>,
    /// objects added to each JSON field (a field may receive several objects)
    pub js: [Vec<JV>; N_JSON],
}

impl XDoc {
    fn json(&self) -> Value {
        json!({"id": self.id,
            "kind": self.kind.iter().map(|&k| KIND[k as usize]).collect::<Vec<_>>(),
            "typed": self.vals.iter().enumerate().filter(|x| !x.1.is_empty()).map(|(ty, vs)| json!([TY_NAMES[ty], vs.iter().map(|v| v.json()).collect::<Vec<_>>()])).collect::<Vec<_>>(),
            "s_raw": self.s_raw, "s_tok": self.s_tok, "facet": self.facet,
            "js": self.js[0].iter().map(|x| x.json()).collect::<Vec<_>>(),
            "jx": self.js[1].iter().map(|x| x.json()).collect::<Vec<_>>()})
    }
}

/// what an exists query is asked about
#[derive(Clone, Debug, PartialEq, Eq, PartialOrd, Ord)]
pub enum Target {
    Id,
    Typed(usize),
    SRaw,
    STok,
    Facet,
    /// JSON field index, path segments as the user means them (a segment may contain a dot)
    Json(usize, Vec<String>),
}

impl Target {
    fn kind(&self, subpaths: bool) -> String {
        match self {
            Target::Id => "id(u64,full)".into(),
            Target::Typed(ty) => format!("typed:{}", TY_NAMES[*ty]),
            Target::SRaw => "str-raw".into(),
            Target::STok => "str-tokenized".into(),
            Target::Facet => "facet".into(),
            Target::Json(j, p) => format!(
                "json:{}:{}{}",
                JSON_NAMES[*j],
                if p.is_empty() { "root" } else { "path" },
                if subpaths { "+subpaths" } else { "" }
            ),
        }
    }
    /// the field name handed to ExistsQuery::new
    fn field_name(&self, escape_join: bool) -> String {
        match self {
            Target::Id => "id".into(),
            Target::Typed(ty) => format!("{}_fast", TY_NAMES[*ty]),
            Target::SRaw => "s_raw".into(),
            Target::STok => "s_tok".into(),
            Target::Facet => "facet".into(),
            Target::Json(j, p) => {
                let mut s = JSON_NAMES[*j].to_string();
                for (i, seg) in p.iter().enumerate() {
                    // `escape_join` (expand_dots field only): a\.b must mean the same as a.b
                    s.push_str(if i > 0 && escape_join && JSON_EXPAND[*j] { "\\." } else { "." });
                    s.push_str(&seg.replace('.', "\\."));
                }
                s
            }
        }
    }
}

/// ORACLE: does the document have a (non-null) value for the target?
pub fn has_value(d: &XDoc, t: &Target, subpaths: bool) -> bool {
    match t {
        Target::Id => true,
        Target::Typed(ty) => !d.vals[*ty].is_empty(),
        Target::SRaw => !d.s_raw.is_empty(),
        Target::STok => !d.s_tok.is_empty(),
        Target::Facet => !d.facet.is_empty(),
        Target::Json(j, p) => {
            let expand = JSON_EXPAND[*j];
            let want: Vec<String> = if expand {
                p.iter().flat_map(|s| s.split('.').map(|x| x.to_string())).collect()
            } else {
                p.clone()
            };
            let mut out = vec![];
            for obj in &d.js[*j] {
                leaves(obj, &mut vec![], expand, &mut out);
            }
            out.iter().any(|(path, _)| {
                *path == want || (subpaths && path.len() > want.len() && path[..want.len()] == want[..])
            })
        }
    }
}

// ---------------------------------------------------------------------------------------------
// queries

#[derive(Clone, Debug)]
pub enum XQ {
    Exists { t: Target, subpaths: bool, escape_join: bool },
    Kind(u8),
    All,
    Const(Box<XQ>),
    Boost(Box<XQ>),
    Bool(Vec<(Oc, XQ)>),
}

impl XQ {
    fn eval(&self, d: &XDoc) -> bool {
        match self {
            XQ::Exists { t, subpaths, .. } => has_value(d, t, *subpaths),
            XQ::Kind(k) => d.kind.contains(k),
            XQ::All => true,
            XQ::Const(q) | XQ::Boost(q) => q.eval(d),
            XQ::Bool(cs) => {
                let mut n_must = 0;
                let mut any_should = false;
                for (o, q) in cs {
                    let r = q.eval(d);
                    match o {
                        Oc::Must => {
                            n_must += 1;
                            if !r {
                                return false;
                            }
                        }
                        Oc::MustNot => {
                            if r {
                                return false;
                            }
                        }
                        Oc::Should => any_should |= r,
                    }
                }
                // documented: without a must clause at least one should clause has to match
                // (a query made of must_not clauses only matches nothing)
                n_must > 0 || any_should
            }
        }
    }
    fn build(&self, fs: &XFields) -> Box<dyn Query> {
        match self {
            XQ::Exists { t, subpaths, escape_join } => Box::new(ExistsQuery::new(t.field_name(*escape_join), *subpaths)),
            XQ::Kind(k) => Box::new(TermQuery::new(Term::from_field_text(fs.kind, KIND[*k as usize]), IndexRecordOption::Basic)),
            XQ::All => Box::new(AllQuery),
            XQ::Const(q) => Box::new(ConstScoreQuery::new(q.build(fs), 0.5)),
            XQ::Boost(q) => Box::new(BoostQuery::new(q.build(fs), 2.0)),
            XQ::Bool(cs) => Box::new(BooleanQuery::new(
                cs.iter()
                    .map(|(o, q)| {
                        (
                            match o {
                                Oc::Must => Occur::Must,
                                Oc::Should => Occur::Should,
                                Oc::MustNot => Occur::MustNot,
                            },
                            q.build(fs),
                        )
                    })
                    .collect::<Vec<_>>(),
            )),
        }
    }
    fn shape(&self) -> String {
        match self {
            XQ::Exists { t, subpaths, .. } => format!("exists({})", t.kind(*subpaths)),
            XQ::Kind(_) => "term".into(),
            XQ::All => "all".into(),
            XQ::Const(q) => format!("const({})", q.shape()),
            XQ::Boost(q) => format!("boost({})", q.shape()),
            XQ::Bool(cs) => format!(
                "bool[{}]",
                cs.iter()
                    .map(|(o, q)| format!("{}{}", match o { Oc::Must => "+", Oc::Should => "", Oc::MustNot => "-" }, q.shape()))
                    .collect::<Vec<_>>()
                    .join(" ")
            ),
        }
    }
    fn json(&self) -> Value {
        match self {
            XQ::Exists { t, subpaths, escape_join } => json!({"Exists": {"field": t.field_name(*escape_join), "json_subpaths": subpaths}}),
            XQ::Kind(k) => json!({"Term": ["kind", KIND[*k as usize]]}),
            XQ::All => json!("All"),
            XQ::Const(q) => json!({"ConstScore": q.json()}),
            XQ::Boost(q) => json!({"Boost": q.json()}),
            XQ::Bool(cs) => json!({"Bool": cs.iter().map(|(o, q)| json!([format!("{o:?}"), q.json()])).collect::<Vec<_>>()}),
        }
    }
    fn children(&self) -> Vec<&XQ> {
        match self {
            XQ::Const(q) | XQ::Boost(q) => vec![q],
            XQ::Bool(cs) => cs.iter().map(|c| &c.1).collect(),
            _ => vec![],
        }
    }
    /// value-free name for signatures
    fn sig(&self) -> String {
        match self {
            XQ::Exists { t, subpaths, .. } => format!("exists:{}", t.kind(*subpaths)),
            XQ::Kind(_) => "term".into(),
            XQ::All => "all".into(),
            XQ::Const(_) => "const(exists)".into(),
            XQ::Boost(_) => "boost(exists)".into(),
            XQ::Bool(cs) => {
                let mut f = String::from("bool-over-exists");
                if cs.iter().any(|c| c.0 == Oc::Must) {
                    f.push_str("+must");
                }
                if cs.iter().any(|c| c.0 == Oc::MustNot) {
                    f.push_str("+not");
                }
                if cs.iter().any(|c| c.0 == Oc::Should) {
                    f.push_str("+should");
                }
                f
            }
        }
    }
}

// ---------------------------------------------------------------------------------------------
// schema / index

#[derive(Clone)]
pub struct XFields {
    pub schema: Schema,
    pub id: Field,
    pub kind: Field,
    pub typed: Vec<Field>,
    pub s_raw: Field,
    pub s_tok: Field,
    pub facet: Field,
    pub js: [Field; N_JSON],
}

impl XFields {
    pub fn new() -> XFields {
        let mut b = Schema::builder();
        let id = b.add_u64_field("id", INDEXED | FAST);
        let kind = b.add_text_field("kind", TEXT);
        let mut typed = vec![];
        for ty in 0..NTY {
            // same names as the fast-only variants of the main schema (the collector panel filters
            // on `i_fast` and `by_fast`)
            let name = format!("{}_fast", TY_NAMES[ty]);
            typed.push(match ty {
                T_U => b.add_u64_field(&name, NumericOptions::default().set_fast()),
                T_I => b.add_i64_field(&name, NumericOptions::default().set_fast()),
                T_F => b.add_f64_field(&name, NumericOptions::default().set_fast()),
                T_B => b.add_bool_field(&name, NumericOptions::default().set_fast()),
                T_D => b.add_date_field(&name, DateOptions::default().set_fast()),
                T_IP => b.add_ip_addr_field(&name, IpAddrOptions::default().set_fast()),
                _ => b.add_bytes_field(&name, BytesOptions::default().set_fast()),
            });
        }
        let s_raw = b.add_text_field("s_raw", STRING | FAST);
        let s_tok = b.add_text_field("s_tok", TextOptions::default().set_fast(Some("default")));
        let facet = b.add_facet_field("facet", FacetOptions::default());
        let js = b.add_json_field("js", JsonObjectOptions::default().set_fast(None));
        let jx = b.add_json_field("jx", JsonObjectOptions::default().set_fast(Some("default")).set_expand_dots_enabled());
        XFields { schema: b.build(), id, kind, typed, s_raw, s_tok, facet, js: [js, jx] }
    }
    fn to_doc(&self, d: &XDoc) -> TantivyDocument {
        let mut t = TantivyDocument::new();
        t.add_u64(self.id, d.id);
        if !d.kind.is_empty() {
            t.add_text(self.kind, d.kind.iter().map(|&k| KIND[k as usize]).collect::<Vec<_>>().join(" "));
        }
        for ty in 0..NTY {
            for v in &d.vals[ty] {
                v.add_to(&mut t, self.typed[ty]);
            }
        }
        for s in &d.s_raw {
            t.add_text(self.s_raw, s);
        }
        for s in &d.s_tok {
            t.add_text(self.s_tok, s);
        }
        for f in &d.facet {
            t.add_facet(self.facet, f.as_str());
        }
        for j in 0..N_JSON {
            for obj in &d.js[j] {
                t.add_field_value(self.js[j], &obj.owned());
            }
        }
        t
    }
}

// ---------------------------------------------------------------------------------------------
// corpus

/// how many values a document gets for a field / JSON slot within one commit group
#[derive(Clone, Copy, Debug, PartialEq, Eq)]
pub enum Prof {
    None,
    Full,
    OptDense,
    OptSparse,
    One,
    Multi,
    MultiSparse,
    /// every document exactly two values (multivalued column without a single-valued document)
    MultiAll,
}

const PROFS: [Prof; 8] = [Prof::None, Prof::Full, Prof::OptDense, Prof::OptSparse, Prof::One, Prof::Multi, Prof::MultiSparse, Prof::MultiAll];

impl Prof {
    fn pick(rng: &mut Rng) -> Prof {
        PROFS[rng.weighted(&[2, 2, 4, 3, 1, 4, 3, 1])]
    }
    /// number of values of the `i`-th document of a group of `n` (the `lucky` one for `One`)
    fn count(self, rng: &mut Rng, i: usize, lucky: usize) -> usize {
        match self {
            Prof::None => 0,
            Prof::Full => 1,
            Prof::OptDense => rng.chance(7, 10) as usize,
            Prof::OptSparse => rng.chance(1, 12) as usize,
            Prof::One => (i == lucky) as usize,
            Prof::Multi => *rng.pick(&[0usize, 0, 1, 1, 2, 3]),
            Prof::MultiSparse => {
                if rng.chance(1, 8) {
                    rng.urange(2, 3)
                } else {
                    0
                }
            }
            Prof::MultiAll => 2,
        }
    }
}

#[derive(Clone, Copy, Debug, PartialEq, Eq)]
pub enum SlotKind {
    Num,
    Str,
    Bool,
    Date,
}

#[derive(Clone, Debug)]
pub struct Slot {
    pub path: Vec<String>,
    pub kind: SlotKind,
    /// per commit group
    pub prof: Vec<Prof>,
}

#[derive(Clone, Debug)]
pub struct XCorpus {
    pub docs: Vec<XDoc>,
    pub groups: Vec<usize>,
    pub deletes: Vec<(usize, u64)>,
    pub deleted_ids: BTreeSet<u64>,
    pub slots: [Vec<Slot>; N_JSON],
    /// per flat field (NTY typed, s_raw, s_tok, facet), per group
    pub flat_prof: Vec<Vec<Prof>>,
}

const KEYS1: &[&str] = &["a", "ab", "b", "a.b", "c", "k"];
const KEYS2: &[&str] = &["x", "xy", "y", "x.y", "b"];
const KEYS3: &[&str] = &["z", "w"];
const WORDS: &[&str] = &["red", "blue", "green sky", "x", "a b c", "zed"];

fn per_group(rng: &mut Rng, ngroups: usize) -> Vec<Prof> {
    let base = Prof::pick(rng);
    (0..ngroups).map(|_| if rng.chance(1, 3) { Prof::pick(rng) } else { base }).collect()
}

fn typed_val(ty: usize, rng: &mut Rng) -> Val {
    match ty {
        T_U => Val::U(*rng.pick(&[0u64, 1, 7, 1000, u64::MAX])),
        T_I => Val::I(*rng.pick(&[0i64, -1, 5, i64::MIN, i64::MAX])),
        T_F => Val::F(*rng.pick(&[0.0f64, -1.5, 2.25, 1e300, f64::MIN_POSITIVE])),
        T_B => Val::B(rng.bool()),
        T_D => Val::D(*rng.pick(&[0i64, -1, 1_600_000_000, 4_000_000_000])),
        T_IP => Val::Ip(*rng.pick(&[0u128, 1, 0xFFFF_0000_0001, u128::MAX])),
        _ => Val::By(rng.pick(&[vec![], vec![0u8], vec![1, 2], vec![255]]).clone()),
    }
}

fn slot_val(kind: SlotKind, raw_strings: bool, rng: &mut Rng) -> JV {
    match kind {
        SlotKind::Num => match rng.below(4) {
            0 => JV::U(*rng.pick(&[0u64, 3, 1 << 40, u64::MAX])),
            1 => JV::I(*rng.pick(&[-1i64, -77, i64::MIN, 12])),
            2 => JV::F(*rng.pick(&[0.5f64, -2.25, 1e100])),
            _ => JV::U(rng.below(10)),
        },
        SlotKind::Str => {
            // the empty string is a value of a raw (untokenized) str column; a tokenized column
            // only gets strings that yield at least one token
            if raw_strings && rng.chance(1, 12) {
                JV::Str(String::new())
            } else {
                JV::Str(rng.pick(WORDS).to_string())
            }
        }
        SlotKind::Bool => JV::B(rng.bool()),
        SlotKind::Date => JV::D(*rng.pick(&[0i64, 1_600_000_000, -5, 4_000_000_000])),
    }
}

#[derive(Default)]
struct Node {
    leaves: Vec<JV>,
    kids: Vec<(String, Node)>,
}

impl Node {
    fn insert(&mut self, path: &[String], v: JV) {
        match path.split_first() {
            None => self.leaves.push(v),
            Some((k, rest)) => {
                if let Some(i) = self.kids.iter().position(|c| &c.0 == k) {
                    self.kids[i].1.insert(rest, v);
                } else {
                    let mut n = Node::default();
                    n.insert(rest, v);
                    self.kids.push((k.clone(), n));
                }
            }
        }
    }
    /// a JSON value holding exactly these leaves at these paths (arrays where a path has several
    /// values or both values and sub-objects; optionally decorated with nulls / empty containers)
    fn to_jv(&self, rng: &mut Rng) -> JV {
        let obj = |rng: &mut Rng, kids: &[(String, Node)]| -> JV {
            let mut o: Vec<(String, JV)> = kids.iter().map(|(k, n)| (k.clone(), n.to_jv(rng))).collect();
            if rng.chance(1, 10) {
                let junk = match rng.below(4) {
                    0 => JV::Null,
                    1 => JV::Arr(vec![]),
                    2 => JV::Obj(vec![]),
                    _ => JV::Arr(vec![JV::Null, JV::Obj(vec![("z".into(), JV::Null)])]),
                };
                // a key that no slot uses, or - harder - a key that other documents fill
                let key = if rng.bool() { "nul".to_string() } else { rng.pick(KEYS2).to_string() };
                if !o.iter().any(|(k, _)| *k == key) {
                    o.push((key, junk));
                }
            }
            rng.shuffle(&mut o);
            JV::Obj(o)
        };
        let kids_jv = |rng: &mut Rng| -> Vec<JV> {
            // one object, or the same keys spread over an array of objects
            if self.kids.len() >= 2 && rng.chance(1, 5) {
                let cut = rng.urange(1, self.kids.len() - 1);
                vec![obj(rng, &self.kids[..cut]), obj(rng, &self.kids[cut..])]
            } else {
                vec![obj(rng, &self.kids)]
            }
        };
        match (self.leaves.is_empty(), self.kids.is_empty()) {
            (true, true) => JV::Obj(vec![]),
            (false, true) => {
                if self.leaves.len() == 1 && !rng.chance(1, 6) {
                    self.leaves[0].clone()
                } else {
                    let mut a = self.leaves.clone();
                    if rng.chance(1, 8) {
                        a.push(JV::Null);
                        rng.shuffle(&mut a);
                    }
                    JV::Arr(a)
                }
            }
            (true, false) => {
                let mut k = kids_jv(rng);
                if k.len() == 1 {
                    k.pop().unwrap()
                } else {
                    JV::Arr(k)
                }
            }
            (false, false) => {
                let mut a = self.leaves.clone();
                a.extend(kids_jv(rng));
                rng.shuffle(&mut a);
                JV::Arr(a)
            }
        }
    }
}

pub fn gen_corpus(rng: &mut Rng) -> XCorpus {
    let ng = *rng.pick(&[1usize, 1, 1, 2, 2, 3, 4]);
    let groups: Vec<usize> = (0..ng)
        .map(|_| match rng.below(10) {
            0 => *rng.pick(&[1usize, 2, 3]),
            1 | 2 => rng.urange(4, 30),
            3 | 4 => *rng.pick(&[63usize, 64, 65, 66, 127, 128, 129]),
            5 | 6 | 7 => rng.urange(70, 300),
            _ => rng.urange(300, 700),
        })
        .collect();
    let total: usize = groups.iter().sum();
    let n_flat = NTY + 3;
    let flat_prof: Vec<Vec<Prof>> = (0..n_flat).map(|_| per_group(rng, ng)).collect();
    let mut slots: [Vec<Slot>; N_JSON] = [vec![], vec![]];
    for j in 0..N_JSON {
        let n = *rng.pick(&[0usize, 1, 2, 3, 3, 4, 4, 5, 5, 6, 7, 8, 10]);
        // few distinct first-level keys, so that a path prefix gathers many columns
        let k1: Vec<&str> = (0..rng.urange(1, 3)).map(|_| *rng.pick(KEYS1)).collect();
        for _ in 0..n {
            let depth = 1 + rng.weighted(&[3, 5, 2]);
            let mut path = vec![rng.pick(&k1).to_string()];
            if depth >= 2 {
                path.push(rng.pick(KEYS2).to_string());
            }
            if depth >= 3 {
                path.push(rng.pick(KEYS3).to_string());
            }
            let kind = *rng.pick(&[SlotKind::Num, SlotKind::Num, SlotKind::Str, SlotKind::Str, SlotKind::Bool, SlotKind::Date]);
            let mut prof = per_group(rng, ng);
            // a full column short-circuits the whole query to "all documents": keep it rarer
            // than the other profiles inside JSON so that the other routes are reached
            for p in prof.iter_mut() {
                if *p == Prof::Full && rng.chance(2, 3) {
                    *p = *rng.pick(&[Prof::OptDense, Prof::Multi, Prof::MultiSparse, Prof::OptSparse]);
                }
            }
            slots[j].push(Slot { path, kind, prof });
        }
    }
    let mut docs = Vec::with_capacity(total);
    let mut start = 0usize;
    for (g, &sz) in groups.iter().enumerate() {
        let lucky = rng.usize_below(sz);
        let one_doc = rng.usize_below(sz);
        for i in 0..sz {
            let id = (start + i) as u64;
            let mut kind = vec![0u8];
            if rng.bool() {
                kind.push(1);
            }
            if rng.chance(1, 4) {
                kind.push(2);
            }
            if i == one_doc {
                kind.push(3);
            }
            let mut vals: Vec<Vec<Val>> = vec![];
            for ty in 0..NTY {
                let n = flat_prof[ty][g].count(rng, i, lucky);
                vals.push((0..n).map(|_| typed_val(ty, rng)).collect());
            }
            let n = flat_prof[NTY][g].count(rng, i, lucky);
            let s_raw: Vec<String> = (0..n)
                .map(|_| if rng.chance(1, 12) { String::new() } else { rng.pick(WORDS).to_string() })
                .collect();
            let n = flat_prof[NTY + 1][g].count(rng, i, lucky);
            let s_tok: Vec<String> = (0..n).map(|_| rng.pick(WORDS).to_string()).collect();
            let n = flat_prof[NTY + 2][g].count(rng, i, lucky);
            let facet: Vec<String> = (0..n).map(|_| rng.pick(&["/a", "/a/b", "/c", "/c/d/e"]).to_string()).collect();
            let mut js: [Vec<JV>; N_JSON] = [vec![], vec![]];
            for j in 0..N_JSON {
                let mut pairs: Vec<(Vec<String>, JV)> = vec![];
                for s in &slots[j] {
                    let n = s.prof[g].count(rng, i, lucky);
                    for _ in 0..n {
                        pairs.push((s.path.clone(), slot_val(s.kind, j == 0, rng)));
                    }
                }
                if pairs.is_empty() {
                    // no value: mostly the field is absent, sometimes an object without leaves
                    match rng.below(12) {
                        0 => js[j].push(JV::Obj(vec![])),
                        1 => js[j].push(JV::Obj(vec![(rng.pick(KEYS1).to_string(), JV::Null)])),
                        2 => js[j].push(JV::Obj(vec![(rng.pick(KEYS1).to_string(), JV::Obj(vec![(rng.pick(KEYS2).to_string(), JV::Arr(vec![]))]))])),
                        _ => {}
                    }
                    continue;
                }
                // one object, or the values spread over two objects added to the same field
                let split = pairs.len() >= 2 && rng.chance(1, 8);
                let cut = if split { rng.urange(1, pairs.len() - 1) } else { pairs.len() };
                for part in [&pairs[..cut], &pairs[cut..]] {
                    if part.is_empty() {
                        continue;
                    }
                    let mut root = Node::default();
                    for (p, v) in part {
                        root.insert(p, v.clone());
                    }
                    // the root is always an object (leaves never sit at the root: paths are >= 1 long)
                    match root.to_jv(rng) {
                        JV::Arr(objs) => js[j].extend(objs),
                        o => js[j].push(o),
                    }
                }
            }
            docs.push(XDoc { id, kind, vals, s_raw, s_tok, facet, js });
        }
        start += sz;
    }
    // deletes: none in half of the corpora (block collection needs a segment without deletes)
    let mut deletes = vec![];
    let mut deleted_ids = BTreeSet::new();
    if rng.bool() {
        let frac = *rng.pick(&[2u64, 10, 40, 90]);
        let mut start = 0usize;
        for (g, &sz) in groups.iter().enumerate() {
            // sometimes only one of the segments gets deletes
            let here = rng.chance(3, 4);
            for i in start..start + sz {
                if here && rng.below(100) < frac {
                    deletes.push((rng.urange(g, groups.len()), i as u64));
                    deleted_ids.insert(i as u64);
                }
            }
            start += sz;
        }
        if deleted_ids.len() == total {
            let keep = rng.below(total as u64);
            deleted_ids.remove(&keep);
            deletes.retain(|d| d.1 != keep);
        }
    }
    XCorpus { docs, groups, deletes, deleted_ids, slots, flat_prof }
}

impl XCorpus {
    fn describe(&self) -> Value {
        json!({"groups": self.groups, "deleted": self.deleted_ids.len(),
            "json_slots": (0..N_JSON).map(|j| json!({"field": JSON_NAMES[j], "slots": self.slots[j].iter().map(|s| json!([s.path.join("/"), format!("{:?}", s.kind), s.prof.iter().map(|p| format!("{p:?}")).collect::<Vec<_>>()])).collect::<Vec<_>>()})).collect::<Vec<_>>()})
    }
    fn class_key(&self) -> String {
        format!(
            "{}{}",
            match self.groups.len() {
                1 => "1seg",
                _ => "multi",
            },
            if self.deleted_ids.is_empty() { "" } else { "+del" }
        )
    }
}

pub struct XBuilt {
    pub fields: XFields,
    pub index: Index,
    pub writer: IndexWriter,
    pub reader: IndexReader,
}

pub fn build_index(c: &XCorpus) -> Result<XBuilt, String> {
    let fields = XFields::new();
    let index = Index::create_in_ram(fields.schema.clone());
    let mut writer: IndexWriter = index.writer_with_num_threads(1, 30_000_000).map_err(|e| format!("writer: {e}"))?;
    writer.set_merge_policy(Box::new(NoMergePolicy));
    let mut start = 0usize;
    for (g, &sz) in c.groups.iter().enumerate() {
        for d in &c.docs[start..start + sz] {
            writer.add_document(fields.to_doc(d)).map_err(|e| format!("add: {e}"))?;
        }
        for (when, id) in &c.deletes {
            if *when == g {
                writer.delete_term(Term::from_field_u64(fields.id, *id));
            }
        }
        writer.commit().map_err(|e| format!("commit: {e}"))?;
        start += sz;
    }
    if c.deletes.iter().any(|d| d.0 == c.groups.len()) {
        for (when, id) in &c.deletes {
            if *when == c.groups.len() {
                writer.delete_term(Term::from_field_u64(fields.id, *id));
            }
        }
        writer.commit().map_err(|e| format!("commit: {e}"))?;
    }
    let reader: IndexReader = index.reader_builder().reload_policy(ReloadPolicy::Manual).try_into().map_err(|e| format!("reader: {e}"))?;
    reader.reload().map_err(|e| format!("reload: {e}"))?;
    Ok(XBuilt { fields, index, writer, reader })
}

// ---------------------------------------------------------------------------------------------
// query generation

/// every exists question worth asking on this corpus: each flat field, and for the JSON fields the
/// root, every prefix of every generated path, and near misses (a key that is a string prefix of
/// another one, a path below a leaf, an unknown key)
fn targets(c: &XCorpus, rng: &mut Rng) -> Vec<(Target, bool, bool)> {
    let mut out: Vec<(Target, bool, bool)> = vec![];
    out.push((Target::Id, false, false));
    for ty in 0..NTY {
        out.push((Target::Typed(ty), rng.chance(1, 4), false));
    }
    out.push((Target::SRaw, false, false));
    out.push((Target::STok, rng.bool(), false));
    out.push((Target::Facet, false, false));
    for j in 0..N_JSON {
        let mut paths: BTreeSet<Vec<String>> = BTreeSet::new();
        paths.insert(vec![]);
        for s in &c.slots[j] {
            for k in 1..=s.path.len() {
                paths.insert(s.path[..k].to_vec());
            }
            // the expanded spelling of a dotted key (and, without expand_dots, the question that
            // must NOT see the dotted key)
            let flat: Vec<String> = s.path.iter().flat_map(|x| x.split('.').map(|y| y.to_string())).collect();
            for k in 1..=flat.len() {
                paths.insert(flat[..k].to_vec());
            }
            if rng.chance(1, 3) {
                let mut p = s.path.clone();
                p.push(rng.pick(&["x", "q"]).to_string());
                paths.insert(p);
            }
        }
        paths.insert(vec!["a".into()]);
        paths.insert(vec!["ab".into()]);
        paths.insert(vec!["zz".into()]);
        paths.insert(vec!["a".into(), "x".into()]);
        for p in paths {
            for sub in [false, true] {
                let escape_join = p.len() >= 2 && rng.chance(1, 4);
                out.push((Target::Json(j, p.clone()), sub, escape_join));
            }
        }
    }
    out
}

fn gen_queries(c: &XCorpus, rng: &mut Rng, n_composite: usize) -> Vec<XQ> {
    let ts = targets(c, rng);
    let ex = |t: &(Target, bool, bool)| XQ::Exists { t: t.0.clone(), subpaths: t.1, escape_join: t.2 };
    let mut qs: Vec<XQ> = ts.iter().map(ex).collect();
    // composites prefer the JSON questions (the flat ones are also covered by the main stream)
    let json_ts: Vec<&(Target, bool, bool)> = ts.iter().filter(|t| matches!(t.0, Target::Json(..))).collect();
    let pick = |rng: &mut Rng| -> XQ {
        if rng.chance(3, 4) {
            ex(*rng.pick(&json_ts))
        } else {
            ex(rng.pick(&ts))
        }
    };
    let kind = |rng: &mut Rng| XQ::Kind(*rng.pick(&[0u8, 1, 1, 2, 2, 3, 4]));
    for _ in 0..n_composite {
        let e = pick(rng);
        let q = match rng.below(12) {
            0 => XQ::Bool(vec![(Oc::Must, kind(rng)), (Oc::Must, e)]),
            1 => XQ::Bool(vec![(Oc::Must, kind(rng)), (Oc::MustNot, e)]),
            2 => XQ::Bool(vec![(Oc::Must, e), (Oc::MustNot, kind(rng))]),
            3 => XQ::Bool(vec![(Oc::Should, e), (Oc::Should, kind(rng))]),
            4 => XQ::Bool(vec![(Oc::Must, e), (Oc::Must, pick(rng))]),
            5 => XQ::Bool(vec![(Oc::Should, e), (Oc::Should, pick(rng)), (Oc::Should, pick(rng))]),
            6 => XQ::Bool(vec![(Oc::Must, XQ::All), (Oc::MustNot, e)]),
            7 => XQ::Bool(vec![(Oc::Must, e), (Oc::MustNot, pick(rng))]),
            8 => {
                if rng.bool() {
                    XQ::Const(Box::new(e))
                } else {
                    XQ::Boost(Box::new(e))
                }
            }
            9 => XQ::Bool(vec![(Oc::Must, kind(rng)), (Oc::Must, XQ::Bool(vec![(Oc::Should, e), (Oc::Should, pick(rng))]))]),
            10 => XQ::Bool(vec![(Oc::Must, kind(rng)), (Oc::Should, e), (Oc::MustNot, pick(rng))]),
            _ => XQ::Bool(vec![(Oc::Must, kind(rng)), (Oc::MustNot, XQ::Bool(vec![(Oc::Should, e), (Oc::Should, pick(rng))]))]),
        };
        qs.push(q);
    }
    qs
}

// ---------------------------------------------------------------------------------------------
// running

struct XLayout<'a> {
    view: View,
    fields: &'a XFields,
    live: Vec<&'a XDoc>,
    corpus: &'a XCorpus,
    name: &'static str,
}

#[derive(PartialEq, Clone, Debug)]
enum XCat {
    Ok,
    Panic(String),
    HarnessPanic(String),
    Error(String),
    Mismatch,
}

struct XOutcome {
    cat: XCat,
    obs: Vec<(&'static str, Result<Obs, String>)>,
    verdict: Option<super::Verdict>,
    expected: BTreeSet<u64>,
    panic: Option<PanicInfo>,
}

fn outcome(l: &XLayout, q: &XQ, full: bool) -> XOutcome {
    let expected: BTreeSet<u64> = l.live.iter().filter(|d| q.eval(d)).map(|d| d.id).collect();
    let mut out = XOutcome { cat: XCat::Ok, obs: vec![], verdict: None, expected, panic: None };
    let tq = q.build(l.fields);
    match guarded(|| panel(&l.view, tq.as_ref(), full)) {
        Err(p) => {
            out.cat = if p.in_harness() { XCat::HarnessPanic(format!("{}: {}", p.location, p.message)) } else { XCat::Panic(p.sig()) };
            out.panic = Some(p);
        }
        Ok(obs) => {
            let docs = &l.corpus.docs;
            let by_values = |name: &str, id: u64| -> bool {
                let Some(d) = docs.get(id as usize) else { return false };
                if name.starts_with("filteri") {
                    d.vals[T_I].iter().any(|v| matches!(v, Val::I(x) if filter_i(*x)))
                } else if name.starts_with("filterby") {
                    d.vals[T_BY].iter().any(|v| matches!(v, Val::By(b) if filter_by(b)))
                } else {
                    true
                }
            };
            let v = judge(&obs, &out.expected, &out.expected, &by_values);
            out.cat = if v.ok() {
                XCat::Ok
            } else if !v.errors.is_empty() {
                let classes: BTreeSet<String> = v.errors.iter().map(|e| err_class(&e.1)).collect();
                XCat::Error(classes.into_iter().collect::<Vec<_>>().join("+"))
            } else {
                XCat::Mismatch
            };
            out.obs = obs;
            out.verdict = Some(v);
        }
    }
    out
}

fn same_cat(a: &XCat, b: &XCat) -> bool {
    match (a, b) {
        (XCat::Error(_), XCat::Error(_)) => true,
        _ => a == b,
    }
}

fn minimal_failing<'q>(l: &XLayout, q: &'q XQ, cat: &XCat) -> &'q XQ {
    for c in q.children() {
        if same_cat(&outcome(l, c, false).cat, cat) {
            return minimal_failing(l, c, cat);
        }
    }
    q
}

/// For the evidence: the columns a target resolves to in one segment (documents `ids`, deleted
/// ones included: their values stay in the columns), as (number of non-empty columns, any full,
/// any multivalued, a document whose values are all in multivalued columns).
fn column_profile(c: &XCorpus, ids: &[u64], t: &Target, subpaths: bool) -> String {
    // column key -> per-document value counts
    let mut cols: BTreeMap<String, BTreeMap<u64, usize>> = BTreeMap::new();
    for &id in ids {
        let d = &c.docs[id as usize];
        let mut add = |key: String, n: usize| {
            if n > 0 {
                *cols.entry(key).or_default().entry(id).or_insert(0) += n;
            }
        };
        match t {
            Target::Id => add("id".into(), 1),
            Target::Typed(ty) => add("f".into(), d.vals[*ty].len()),
            Target::SRaw => add("s".into(), d.s_raw.len()),
            Target::STok => add("s".into(), d.s_tok.iter().map(|s| s.split(' ').count()).sum()),
            Target::Facet => add("s".into(), d.facet.len()),
            Target::Json(j, p) => {
                let expand = JSON_EXPAND[*j];
                let want: Vec<String> = if expand { p.iter().flat_map(|s| s.split('.').map(|x| x.to_string())).collect() } else { p.clone() };
                let mut out = vec![];
                for obj in &d.js[*j] {
                    leaves(obj, &mut vec![], expand, &mut out);
                }
                for (path, leaf) in out {
                    if path == want || (subpaths && path.len() > want.len() && path[..want.len()] == want[..]) {
                        let n = match leaf {
                            JV::Str(s) if *j == 1 => s.split(' ').count(),
                            _ => 1,
                        };
                        add(format!("{}|{}", path.join("\u{1}"), leaf.col_kind()), n);
                    }
                }
            }
        }
    }
    let n = cols.len();
    let full = cols.values().any(|m| m.len() == ids.len() && m.values().all(|&k| k == 1));
    let is_multi = |m: &BTreeMap<u64, usize>| m.values().any(|&k| k > 1);
    let multi = cols.values().any(is_multi);
    let only_multi_doc = ids.iter().any(|id| {
        let mut any = false;
        let mut all_multi = true;
        for m in cols.values() {
            if m.contains_key(id) {
                any = true;
                all_multi &= is_multi(m);
            }
        }
        any && all_multi
    });
    format!(
        "cols:{}{}{}{}",
        match n {
            0 => "0",
            1 => "1",
            2 => "2",
            3 => "3",
            4 => "4",
            5..=8 => "5-8",
            _ => ">8",
        },
        if full { "+full" } else { "" },
        if multi { "+multivalued" } else { "" },
        if only_multi_doc { "+doc-only-in-multivalued" } else { "" }
    )
}

fn report_failure(rep: &mut Report, l: &XLayout, q: &XQ, o: &XOutcome) {
    let min = minimal_failing(l, q, &o.cat);
    let ctx = if std::ptr::eq(min, q) { "alone" } else { "inside-composite" };
    let base = json!({"query": q.json(), "minimal_failing_subquery": min.json(), "corpus": l.corpus.describe(), "layout": l.name});
    let with = |extra: Value| -> Value {
        let mut b = base.clone();
        if let (Some(b), Some(e)) = (b.as_object_mut(), extra.as_object()) {
            for (k, v) in e {
                b.insert(k.clone(), v.clone());
            }
        }
        b
    };
    match &o.cat {
        XCat::Ok => {}
        XCat::HarnessPanic(m) => rep.harness_error(format!("panic in harness at {m}")),
        XCat::Panic(sig) => {
            let p = o.panic.as_ref().unwrap();
            push_violation(rep, sig.clone(), with(json!({"panic_location": p.location, "panic_message": p.message})));
        }
        XCat::Error(classes) => {
            let first = o.verdict.as_ref().and_then(|v| v.errors.first().map(|e| e.1.clone())).unwrap_or_default();
            push_violation(rep, format!("api-error[{}][{}]", min.sig(), classes), with(json!({"error": first})));
        }
        XCat::Mismatch => {
            let v = o.verdict.as_ref().unwrap();
            let (which, ids) = mismatch_class(v);
            if let Some(w) = filter_wrapper_only(v) {
                push_violation(
                    rep,
                    format!("mismatch[{w}][{which}]"),
                    with(json!({"expected_matches": o.expected.len(), "contradictions": v.detail,
                        "segments": l.view.searcher.segment_readers().iter().map(|r| json!({"max_doc": r.max_doc(), "has_deletes": r.has_deletes()})).collect::<Vec<_>>()})),
                );
                return;
            }
            let docs: Vec<Value> = ids
                .iter()
                .filter_map(|id| l.corpus.docs.get(*id as usize))
                .map(|d| json!({"doc": d.json(), "deleted": l.corpus.deleted_ids.contains(&d.id)}))
                .collect();
            // where the witness documents sit: the columns the minimal exists question resolves
            // to in their segment
            let mut profile = Value::Null;
            if let XQ::Exists { t, subpaths, .. } = min {
                if let Some(id) = ids.first() {
                    if let Some(seg) = l.view.table.iter().find(|s| s.contains(id)) {
                        profile = json!(column_profile(l.corpus, seg, t, *subpaths));
                    }
                }
            }
            let _ = ctx;
            push_violation(
                rep,
                format!("mismatch[{}][{which}]", min.sig()),
                with(json!({"expected_matches": o.expected.len(), "contradictions": v.detail, "witness_docs": docs,
                    "columns_in_the_witness_segment": profile})),
            );
        }
    }
}

fn check_pair(rep: &mut Report, l: &XLayout, q: &XQ, sample: bool) {
    rep.eval();
    rep.count("pairs", 1);
    rep.count("exists_stream_pairs", 1);
    let o = outcome(l, q, true);
    rep.count("collector_runs", o.obs.len() as u64);
    for (name, _) in &o.obs {
        rep.observe("collector_path", *name);
    }
    match q {
        XQ::Exists { t, subpaths, .. } => {
            rep.observe("exists_target", t.kind(*subpaths));
            for seg in &l.view.table {
                rep.observe("exists_columns_in_segment", column_profile(l.corpus, seg, t, *subpaths));
            }
        }
        _ => rep.observe("exists_composite", q.sig()),
    }
    if l.view.block_collection_reached(&o.expected) {
        rep.count("pairs_with_more_than_64_hits_in_a_segment_without_deletes", 1);
    }
    let n_live = l.live.len();
    if !o.expected.is_empty() && o.expected.len() < n_live {
        rep.nontrivial(format!("x|{}|{}|{}", q.shape(), l.corpus.class_key(), l.name));
        rep.count("nontrivial_pairs", 1);
    }
    if sample {
        rep.sample(json!({"stream": "exists", "corpus": l.corpus.describe(), "layout": l.name, "query": q.json(),
            "expected_matches": o.expected.len(), "live_docs": n_live}));
    }
    if o.cat != XCat::Ok {
        report_failure(rep, l, q, &o);
    }
}

pub fn run_case(case: u64, rng: &mut Rng, rep: &mut Report, quick: bool) {
    let corpus = gen_corpus(rng);
    rep.count("exists_stream_corpora", 1);
    rep.count("documents_indexed", corpus.docs.len() as u64);
    for ps in &corpus.flat_prof {
        for p in ps {
            rep.observe("exists_field_profile", format!("{p:?}"));
        }
    }
    for j in 0..N_JSON {
        rep.observe("exists_json_slots", corpus.slots[j].len().to_string());
    }
    let mut built = match guarded(|| build_index(&corpus)) {
        Ok(Ok(b)) => b,
        Ok(Err(e)) => {
            rep.violation("api-error:index-build", json!({"stream": "exists", "error": e, "corpus": corpus.describe()}));
            return;
        }
        Err(p) => {
            if p.in_harness() {
                rep.harness_error(format!("panic in harness at {}: {}", p.location, p.message));
            } else {
                rep.violation(p.sig(), json!({"panic_location": p.location, "panic_message": p.message, "corpus": corpus.describe()}));
            }
            return;
        }
    };
    let queries = gen_queries(&corpus, rng, if quick { 30 } else { 60 });
    let live: Vec<&XDoc> = corpus.docs.iter().filter(|d| !corpus.deleted_ids.contains(&d.id)).collect();
    for round in 0..2 {
        let searcher = built.reader.searcher();
        let table = match id_table(&searcher) {
            Ok(t) => t,
            Err(e) => {
                rep.violation("api-error:id-column", json!({"stream": "exists", "error": e}));
                return;
            }
        };
        let mut alive_ids = BTreeSet::new();
        let mut total_docs = 0usize;
        for (ord, sr) in searcher.segment_readers().iter().enumerate() {
            total_docs += sr.max_doc() as usize;
            for d in 0..sr.max_doc() {
                if sr.alive_bitset().map(|b| b.is_alive(d)).unwrap_or(true) {
                    alive_ids.insert(table[ord][d as usize]);
                }
            }
            rep.observe(
                "exists_segment_shape",
                format!(
                    "docs:{}|deletes:{}",
                    match sr.max_doc() {
                        0..=64 => "<=64",
                        65..=128 => "65-128",
                        _ => ">128",
                    },
                    sr.has_deletes()
                ),
            );
        }
        let want: BTreeSet<u64> = live.iter().map(|d| d.id).collect();
        if alive_ids != want {
            rep.violation(
                "setup:live-documents-differ-from-model",
                json!({"stream": "exists", "corpus": corpus.describe(), "searcher_alive": alive_ids.len(), "model_live": want.len()}),
            );
            return;
        }
        let layout = XLayout {
            view: View::new(searcher, table, total_docs),
            fields: &built.fields,
            live: live.clone(),
            corpus: &corpus,
            name: if round == 0 { "as-committed" } else { "merged-all" },
        };
        for (i, q) in queries.iter().enumerate() {
            check_pair(rep, &layout, q, case < 1 && round == 0 && i == 20);
        }
        let nseg = layout.view.searcher.segment_readers().len();
        drop(layout);
        // the same documents in one segment (also rewrites a single segment that has deletes)
        if round == 1 || (nseg < 2 && corpus.deleted_ids.is_empty()) {
            break;
        }
        let ids = match built.index.searchable_segment_ids() {
            Ok(i) => i,
            Err(e) => {
                rep.violation("api-error:merge", json!({"stream": "exists", "error": e.to_string()}));
                return;
            }
        };
        if ids.is_empty() {
            break;
        }
        match guarded(|| built.writer.merge(&ids).wait()) {
            Ok(Ok(_)) => {
                rep.count("merges", 1);
                if let Err(e) = built.reader.reload() {
                    rep.violation("api-error:reload", json!({"stream": "exists", "error": e.to_string()}));
                    return;
                }
            }
            Ok(Err(e)) => {
                rep.violation("api-error:merge", json!({"stream": "exists", "error": e.to_string(), "corpus": corpus.describe()}));
                return;
            }
            Err(p) => {
                if p.in_harness() {
                    rep.harness_error(format!("panic in harness at {}: {}", p.location, p.message));
                } else {
                    rep.violation(p.sig(), json!({"panic_location": p.location, "panic_message": p.message, "corpus": corpus.describe(), "during": "merge"}));
                }
                return;
            }
        }
    }
}

