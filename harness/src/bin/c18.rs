//! C18 — at most one writer per index; the lock follows the writer's lifetime.
use std::process::{Command, Stdio};
use std::sync::{Arc, Barrier, Mutex};

use serde_json::json;
use tantivy::directory::{MmapDirectory, RamDirectory};
use tantivy::indexer::IndexWriterOptions;
use tantivy::{Directory, Index, IndexWriter, TantivyError};
use tvmon::hist::*;
use tvmon::mondir::{FaultMode, MonCfg, MonDir, OpKind, OpPred};
use tvmon::report::*;
use tvmon::rng::Rng;

#[derive(Clone, Copy, Debug, PartialEq)]
enum DirKind {
    Mon,
    Ram,
    Mmap,
}

#[derive(Clone, Copy, Debug)]
enum Step {
    CreateValid { handle: usize },
    CreateBadBudget { handle: usize },
    CreateZeroThreads { handle: usize },
    Burst { n: usize },
    Commit,
    Rollback,
    Drop,
    WaitMerges,
    KillWorker,
    FailedRollback,
    CrossProcess,
}

fn opts(threads: usize, budget: usize) -> IndexWriterOptions {
    IndexWriterOptions::builder()
        .num_worker_threads(threads)
        .memory_budget_per_thread(budget)
        .build()
}

fn is_lock_failure(e: &TantivyError) -> bool {
    matches!(e, TantivyError::LockFailure(..))
}

fn lifecycle_case(case: u64, rng: &mut Rng, rep: &mut Report, xproc: bool) {
    // cross-process attempts fork: they run in a single-threaded stream, because a fork in one
    // thread briefly duplicates the flock()ed descriptors of writers owned by other threads
    let dk = if xproc { DirKind::Mmap } else { *rng.pick(&[DirKind::Mon, DirKind::Mon, DirKind::Ram, DirKind::Mmap]) };
    let tmp = if dk == DirKind::Mmap { tempfile::tempdir().ok() } else { None };
    let mon = MonDir::new(MonCfg { monitors: true, ..Default::default() });
    let dir: Box<dyn Directory> = match dk {
        DirKind::Mon => Box::new(mon.clone()),
        DirKind::Ram => Box::new(RamDirectory::create()),
        DirKind::Mmap => match MmapDirectory::open(tmp.as_ref().unwrap().path()) {
            Ok(d) => Box::new(d),
            Err(e) => {
                rep.harness_error(format!("mmap: {e}"));
                return;
            }
        },
    };
    let hs = hschema();
    let index_a = match Index::create(dir.box_clone(), hs.schema.clone(), Default::default()) {
        Ok(i) => i,
        Err(e) => {
            rep.violation("api-error:create", json!(e.to_string()));
            return;
        }
    };
    let index_b = match Index::open(dir.box_clone()) {
        Ok(i) => i,
        Err(e) => {
            rep.violation("api-error:open-second-handle", json!(e.to_string()));
            return;
        }
    };
    let handles = [index_a, index_b];
    rep.eval();
    let nsteps = rng.urange(5, 40);
    let mut writer: Option<IndexWriter> = None;
    // the live writer can no longer index (worker killed / failed rollback) but still exists
    let mut broken = false;
    let mut next_id = 1u64;
    let mut refused = 0u64;
    let mut created_after_release = 0u64;
    let mut released_since_last_create = false;
    let mut trace: Vec<String> = vec![];
    let mut kinds_seen = std::collections::BTreeSet::new();
    let fail = |rep: &mut Report, sig: &str, trace: &Vec<String>, detail: serde_json::Value| {
        rep.violation(
            sig.to_string(),
            json!({"case": case, "dir": format!("{dk:?}"), "trace": trace, "detail": detail}),
        );
    };
    for _ in 0..nsteps {
        let step = match rng.below(16) {
            0..=3 => Step::CreateValid { handle: rng.usize_below(2) },
            4 => Step::CreateBadBudget { handle: rng.usize_below(2) },
            5 => Step::CreateZeroThreads { handle: rng.usize_below(2) },
            6 => Step::Burst { n: rng.urange(2, 8) },
            7 | 8 => Step::Commit,
            9 => Step::Rollback,
            10 | 11 => Step::Drop,
            12 => Step::WaitMerges,
            13 => {
                if dk == DirKind::Mon { Step::KillWorker } else { Step::Commit }
            }
            14 => {
                if dk == DirKind::Mon { Step::FailedRollback } else { Step::Rollback }
            }
            _ => {
                if xproc { Step::CrossProcess } else { Step::Drop }
            }
        };
        trace.push(format!("{step:?}"));
        kinds_seen.insert(format!("{step:?}").split(|c| c == ' ' || c == '{').next().unwrap().to_string());
        rep.count(&format!("step:{}", format!("{step:?}").split(|c| c == ' ' || c == '{').next().unwrap()), 1);
        match step {
            Step::CreateValid { handle } => {
                let r = handles[handle].writer_with_options::<tantivy::TantivyDocument>(opts(1, 15_000_000));
                match (writer.is_some(), r) {
                    (true, Ok(_w2)) => {
                        fail(rep, "two-live-writers", &trace, json!({"handle": handle}));
                        return;
                    }
                    (true, Err(e)) => {
                        refused += 1;
                        if !is_lock_failure(&e) {
                            fail(rep, "refusal-is-not-a-lock-error", &trace, json!(e.to_string()));
                        }
                        // the live writer must be undisturbed
                        if !broken {
                            let w = writer.as_mut().unwrap();
                            let d = MDoc { id: next_id, grp: 0, val: None, body: vec![], tag: 0, pad: 0 };
                            next_id += 1;
                            let r = w.add_document(d.to_doc(&hs)).and_then(|_| w.commit());
                            if let Err(e) = r {
                                fail(rep, "refused-creation-disturbed-the-live-writer", &trace, json!(e.to_string()));
                                return;
                            }
                        }
                    }
                    (false, Ok(w)) => {
                        if released_since_last_create {
                            created_after_release += 1;
                        }
                        released_since_last_create = false;
                        writer = Some(w);
                        broken = false;
                    }
                    (false, Err(e)) => {
                        fail(rep, "creation-refused-although-no-writer-is-alive", &trace, json!(e.to_string()));
                        return;
                    }
                }
            }
            Step::CreateBadBudget { handle } | Step::CreateZeroThreads { handle } => {
                let o = if matches!(step, Step::CreateBadBudget { .. }) { opts(1, 1_000) } else { opts(0, 15_000_000) };
                let r = handles[handle].writer_with_options::<tantivy::TantivyDocument>(o);
                match r {
                    Ok(_) => {
                        fail(rep, "invalid-writer-options-accepted", &trace, json!(null));
                        return;
                    }
                    Err(e) => {
                        if writer.is_none() && !matches!(e, TantivyError::InvalidArgument(_)) {
                            fail(rep, "invalid-options-error-kind", &trace, json!(e.to_string()));
                        }
                        if writer.is_none() {
                            // the failed construction must have released the lock
                            released_since_last_create = true;
                        }
                    }
                }
            }
            Step::Burst { n } => {
                let barrier = Arc::new(Barrier::new(n));
                let got: Arc<Mutex<Vec<Result<IndexWriter, TantivyError>>>> = Arc::new(Mutex::new(vec![]));
                std::thread::scope(|s| {
                    for t in 0..n {
                        let barrier = barrier.clone();
                        let got = got.clone();
                        let idx = handles[t % 2].clone();
                        s.spawn(move || {
                            barrier.wait();
                            let r = idx.writer_with_options::<tantivy::TantivyDocument>(opts(1, 15_000_000));
                            got.lock().unwrap().push(r);
                        });
                    }
                });
                let mut results = std::mem::take(&mut *got.lock().unwrap());
                let oks = results.iter().filter(|r| r.is_ok()).count();
                let want = if writer.is_some() { 0 } else { 1 };
                if oks != want {
                    fail(rep, "concurrent-creation-burst-wrong-number-of-writers", &trace, json!({"threads": n, "ok": oks, "expected": want}));
                    return;
                }
                for r in &results {
                    if let Err(e) = r {
                        if !is_lock_failure(e) {
                            fail(rep, "refusal-is-not-a-lock-error", &trace, json!(e.to_string()));
                        }
                        refused += 1;
                    }
                }
                if want == 1 {
                    let pos = results.iter().position(|r| r.is_ok()).unwrap();
                    writer = Some(results.swap_remove(pos).unwrap());
                    broken = false;
                    if released_since_last_create {
                        created_after_release += 1;
                    }
                    released_since_last_create = false;
                }
            }
            Step::Commit => {
                if let Some(w) = writer.as_mut() {
                    let d = MDoc { id: next_id, grp: 0, val: None, body: vec![], tag: 0, pad: 0 };
                    next_id += 1;
                    let r = w.add_document(d.to_doc(&hs)).and_then(|_| w.commit());
                    if r.is_err() && !broken {
                        fail(rep, "live-writer-cannot-commit", &trace, json!(r.err().map(|e| e.to_string())));
                        return;
                    }
                }
            }
            Step::Rollback => {
                if let Some(w) = writer.as_mut() {
                    match w.rollback() {
                        Ok(_) => broken = false,
                        Err(e) => {
                            fail(rep, "rollback-failed-without-fault", &trace, json!(e.to_string()));
                            return;
                        }
                    }
                }
            }
            Step::Drop => {
                if writer.take().is_some() {
                    released_since_last_create = true;
                }
                broken = false;
            }
            Step::WaitMerges => {
                if let Some(w) = writer.take() {
                    let r = w.wait_merging_threads();
                    if r.is_err() && !broken {
                        fail(rep, "wait_merging_threads-failed", &trace, json!(r.err().map(|e| e.to_string())));
                    }
                    released_since_last_create = true;
                    broken = false;
                }
            }
            Step::KillWorker => {
                if let Some(w) = writer.as_mut() {
                    // the next write of an indexing worker fails: the worker dies
                    mon.add_fault(OpPred::kind(OpKind::Write).role("worker"), 0, FaultMode::Once, std::io::ErrorKind::Other);
                    let d = MDoc { id: next_id, grp: 0, val: None, body: vec![1], tag: 0, pad: 0 };
                    next_id += 1;
                    let _ = w.add_document(d.to_doc(&hs));
                    let r = w.commit();
                    mon.clear_faults();
                    if r.is_err() {
                        broken = true;
                        rep.count("writers_killed_by_worker_failure", 1);
                    }
                }
            }
            Step::FailedRollback => {
                if let Some(w) = writer.as_mut() {
                    mon.add_fault(OpPred::kind(OpKind::AtomicRead).path("meta.json"), 0, FaultMode::Once, std::io::ErrorKind::Other);
                    let r = w.rollback();
                    mon.clear_faults();
                    if r.is_err() {
                        broken = true;
                        rep.count("rollbacks_failed_by_fault", 1);
                    }
                }
            }
            Step::CrossProcess => {
                let path = tmp.as_ref().unwrap().path().to_string_lossy().to_string();
                let exe = std::env::current_exe().expect("exe");
                let out = Command::new(exe)
                    .args(["--child", &path])
                    .stdout(Stdio::piped())
                    .stderr(Stdio::null())
                    .output();
                match out {
                    Err(e) => rep.note(format!("cross-process spawn failed: {e}")),
                    Ok(o) => {
                        let s = String::from_utf8_lossy(&o.stdout).to_string();
                        let got_writer = s.contains("CHILD-OK");
                        let lock_err = s.contains("CHILD-LOCKFAILURE");
                        rep.count("cross_process_attempts", 1);
                        if writer.is_some() && got_writer {
                            fail(rep, "two-live-writers:cross-process", &trace, json!(s));
                            return;
                        }
                        if writer.is_some() && !lock_err {
                            fail(rep, "refusal-is-not-a-lock-error:cross-process", &trace, json!(s));
                        }
                        if writer.is_none() && !got_writer {
                            fail(rep, "creation-refused-although-no-writer-is-alive:cross-process", &trace, json!(s));
                            return;
                        }
                        if writer.is_some() {
                            refused += 1;
                        }
                    }
                }
            }
        }
    }
    drop(writer);
    // final: after everything is dropped a writer can be opened from either handle
    for h in &handles {
        match h.writer_with_options::<tantivy::TantivyDocument>(opts(1, 15_000_000)) {
            Ok(w) => drop(w),
            Err(e) => {
                fail(rep, "creation-refused-although-no-writer-is-alive", &trace, json!({"final": true, "err": e.to_string()}));
                break;
            }
        }
    }
    if dk == DirKind::Mon {
        let (.., acq, refs) = mon.counters();
        rep.count("writer_lock_acquisitions_seen_by_MonDir", acq);
        rep.count("writer_lock_refusals_seen_by_MonDir", refs);
        if !mon.held_locks().is_empty() {
            fail(rep, "lock-still-held-after-all-writers-dropped", &trace, json!(mon.held_locks()));
        }
    }
    rep.count("creations_refused", refused);
    rep.count("creations_after_release", created_after_release);
    if refused >= 1 && created_after_release >= 1 {
        let k: Vec<String> = kinds_seen.into_iter().collect();
        rep.nontrivial(format!("{dk:?}|{}", k.join(",")));
    }
    if case < 3 {
        rep.sample(json!({"dir": format!("{dk:?}"), "trace": trace, "refused": refused, "created_after_release": created_after_release}));
    }
}


/// Churn: several threads keep trying to create a writer, hold it for a moment and drop it.
/// The number of writers alive at the same time, counted by the threads themselves, must never
/// exceed one. Every successful creation increments the counter AFTER it got the writer and
/// decrements it BEFORE dropping it, so a count of two means two writers really coexisted.
fn churn_case(case: u64, rng: &mut Rng, rep: &mut Report) {
    use std::sync::atomic::{AtomicI64, AtomicU64, Ordering};
    let dk = *rng.pick(&[DirKind::Mon, DirKind::Ram, DirKind::Mmap, DirKind::Mmap]);
    let tmp = if dk == DirKind::Mmap { tempfile::tempdir().ok() } else { None };
    let mon = MonDir::new(MonCfg::default());
    let dir: Box<dyn Directory> = match dk {
        DirKind::Mon => Box::new(mon.clone()),
        DirKind::Ram => Box::new(RamDirectory::create()),
        DirKind::Mmap => match MmapDirectory::open(tmp.as_ref().unwrap().path()) {
            Ok(d) => Box::new(d),
            Err(e) => {
                rep.harness_error(format!("mmap: {e}"));
                return;
            }
        },
    };
    let hs = hschema();
    let index = match Index::create(dir.box_clone(), hs.schema.clone(), Default::default()) {
        Ok(i) => i,
        Err(e) => {
            rep.violation("api-error:create", json!(e.to_string()));
            return;
        }
    };
    rep.eval();
    let nthreads = rng.urange(3, 8);
    let attempts = rng.urange(60, 200);
    let live = AtomicI64::new(0);
    let max_live = AtomicI64::new(0);
    let created = AtomicU64::new(0);
    let refused = AtomicU64::new(0);
    let other_errors: Mutex<Vec<String>> = Mutex::new(vec![]);
    let seeds: Vec<u64> = (0..nthreads).map(|_| rng.next_u64()).collect();
    std::thread::scope(|s| {
        for t in 0..nthreads {
            let (live, max_live, created, refused, other_errors) = (&live, &max_live, &created, &refused, &other_errors);
            // half of the threads use their own Index handle on the same directory
            let idx = if t % 2 == 0 {
                index.clone()
            } else {
                match Index::open(dir.box_clone()) {
                    Ok(i) => i,
                    Err(_) => index.clone(),
                }
            };
            let seed = seeds[t];
            s.spawn(move || {
                let mut r = Rng::new(seed);
                for _ in 0..attempts {
                    match idx.writer_with_options::<tantivy::TantivyDocument>(opts(1, 15_000_000)) {
                        Ok(w) => {
                            let now = live.fetch_add(1, Ordering::SeqCst) + 1;
                            max_live.fetch_max(now, Ordering::SeqCst);
                            created.fetch_add(1, Ordering::Relaxed);
                            match r.below(3) {
                                0 => {}
                                1 => std::thread::yield_now(),
                                _ => std::thread::sleep(std::time::Duration::from_micros(r.range(10, 200))),
                            }
                            live.fetch_sub(1, Ordering::SeqCst);
                            drop(w);
                        }
                        Err(e) => {
                            if is_lock_failure(&e) {
                                refused.fetch_add(1, Ordering::Relaxed);
                            } else {
                                other_errors.lock().unwrap().push(e.to_string());
                            }
                        }
                    }
                    if r.chance(1, 3) {
                        std::thread::yield_now();
                    }
                }
            });
        }
    });
    // The same churn one level down, on the lock every writer creation goes through
    // (`Directory::acquire_lock(&INDEX_WRITER_LOCK)`): attempts are cheap here, so the window
    // between opening / creating the lock file and locking it is hit thousands of times.
    let lock_live = AtomicI64::new(0);
    let lock_max_live = AtomicI64::new(0);
    let lock_acquired = AtomicU64::new(0);
    let lock_refused = AtomicU64::new(0);
    let lock_threads = rng.urange(4, 24);
    let lock_attempts = rng.urange(300, 1500);
    let lock_seeds: Vec<u64> = (0..lock_threads).map(|_| rng.next_u64()).collect();
    std::thread::scope(|s| {
        for t in 0..lock_threads {
            let (lock_live, lock_max_live, lock_acquired, lock_refused, other_errors) =
                (&lock_live, &lock_max_live, &lock_acquired, &lock_refused, &other_errors);
            let d = dir.box_clone();
            let seed = lock_seeds[t];
            s.spawn(move || {
                let mut r = Rng::new(seed);
                for _ in 0..lock_attempts {
                    match d.acquire_lock(&tantivy::directory::INDEX_WRITER_LOCK) {
                        Ok(guard) => {
                            let now = lock_live.fetch_add(1, Ordering::SeqCst) + 1;
                            lock_max_live.fetch_max(now, Ordering::SeqCst);
                            lock_acquired.fetch_add(1, Ordering::Relaxed);
                            if r.chance(1, 4) {
                                std::thread::yield_now();
                            }
                            lock_live.fetch_sub(1, Ordering::SeqCst);
                            drop(guard);
                        }
                        Err(tantivy::directory::error::LockError::LockBusy) => {
                            lock_refused.fetch_add(1, Ordering::Relaxed);
                        }
                        Err(e) => other_errors.lock().unwrap().push(format!("acquire_lock: {e:?}")),
                    }
                    if r.chance(1, 8) {
                        std::thread::yield_now();
                    }
                }
            });
        }
    });
    rep.count("churn_lock_acquisitions", lock_acquired.load(Ordering::Relaxed));
    rep.count("churn_lock_refusals", lock_refused.load(Ordering::Relaxed));
    let lml = lock_max_live.load(Ordering::SeqCst);
    if lml > 1 {
        rep.violation(
            "churn:writer-lock-held-twice",
            json!({"case": case, "dir": format!("{dk:?}"), "threads": lock_threads, "max_live": lml,
                   "acquisitions": lock_acquired.load(Ordering::Relaxed)}),
        );
    }
    let ml = max_live.load(Ordering::SeqCst);
    let c = created.load(Ordering::Relaxed);
    rep.count("churn_creations", c);
    rep.count("churn_refusals", refused.load(Ordering::Relaxed));
    if ml > 1 {
        rep.violation(
            "churn:two-live-writers",
            json!({"case": case, "dir": format!("{dk:?}"), "threads": nthreads, "max_live": ml, "creations": c}),
        );
    }
    for e in other_errors.lock().unwrap().iter().take(3) {
        rep.violation("churn:refusal-is-not-a-lock-error", json!({"case": case, "dir": format!("{dk:?}"), "err": e}));
    }
    if c >= 2 && refused.load(Ordering::Relaxed) >= 1 {
        rep.nontrivial(format!("churn:{dk:?}:t{nthreads}"));
    }
}

/// A writer that is busy inside a long call - waiting for its merges, committing, rolling back -
/// is alive for the whole duration of the call: creation attempts made meanwhile (same Index
/// handle and a second handle on the same directory) are refused with a lock error; once the
/// call has returned and the writer is gone, a writer can be created.
fn busy_writer_case(case: u64, rng: &mut Rng, rep: &mut Report) {
    use std::time::Duration;
    let mon = MonDir::new(MonCfg::default());
    let hs = hschema();
    let index = match Index::create(mon.clone(), hs.schema.clone(), Default::default()) {
        Ok(i) => i,
        Err(e) => {
            rep.violation("api-error:create", json!(e.to_string()));
            return;
        }
    };
    rep.eval();
    let mut writer: IndexWriter = match index.writer_with_options(opts(1, 15_000_000)) {
        Ok(w) => w,
        Err(e) => {
            rep.violation("api-error:writer", json!(e.to_string()));
            return;
        }
    };
    writer.set_merge_policy(Box::new(tantivy::merge_policy::NoMergePolicy));
    let mut next_id = 1u64;
    let nseg = rng.urange(2, 3);
    for _ in 0..nseg {
        for _ in 0..rng.urange(1, 5) {
            let d = MDoc { id: next_id, grp: next_id % 3, val: Some(1), body: vec![1, 2], tag: 1, pad: 0 };
            next_id += 1;
            if writer.add_document(d.to_doc(&hs)).is_err() {
                return;
            }
        }
        if let Err(e) = writer.commit() {
            rep.violation("api-error:commit", json!(e.to_string()));
            return;
        }
    }
    let which = rng.below(3);
    let what = ["wait_merging_threads", "commit", "rollback"][which as usize];
    // park the call at a storage operation in its middle
    let gate = match which {
        0 => {
            let ids = index.searchable_segment_ids().unwrap_or_default();
            let g = mon.add_gate(OpPred::kind(OpKind::OpenWrite).role("merge"), rng.below(4));
            let _ = writer.merge(&ids);
            if !mon.wait_parked(g, Duration::from_secs(5)) {
                mon.release_all_gates();
                rep.count("busy:gate_not_reached", 1);
                return;
            }
            g
        }
        1 => {
            let d = MDoc { id: next_id, grp: 0, val: Some(1), body: vec![1], tag: 1, pad: 0 };
            let _ = writer.add_document(d.to_doc(&hs));
            mon.add_gate(OpPred::kind(OpKind::AtomicWrite).role("updater").path("meta.json"), 0)
        }
        _ => mon.add_gate(OpPred::kind(OpKind::AtomicRead).path("meta.json"), 0),
    };
    let busy = std::thread::Builder::new()
        .name("tvmon-busy-writer".into())
        .spawn(move || -> Result<Option<IndexWriter>, String> {
            match which {
                0 => writer.wait_merging_threads().map(|_| None).map_err(|e| e.to_string()),
                1 => writer.commit().map(|_| Some(writer)).map_err(|e| e.to_string()),
                _ => writer.rollback().map(|_| Some(writer)).map_err(|e| e.to_string()),
            }
        })
        .expect("spawn");
    let parked = which == 0 || mon.wait_parked(gate, Duration::from_secs(5));
    let mut created_meanwhile = 0u32;
    let mut refused = 0u32;
    let mut other = vec![];
    if parked {
        let second = Index::open(mon.clone()).ok();
        for i in 0..rng.urange(3, 12) {
            let idx = if i % 2 == 0 { Some(&index) } else { second.as_ref() };
            let Some(idx) = idx else { continue };
            match idx.writer_with_options::<tantivy::TantivyDocument>(opts(1, 15_000_000)) {
                Ok(w) => {
                    created_meanwhile += 1;
                    drop(w);
                }
                Err(e) if is_lock_failure(&e) => refused += 1,
                Err(e) => other.push(e.to_string()),
            }
            std::thread::sleep(Duration::from_millis(rng.range(0, 3)));
        }
    }
    mon.release_gate(gate);
    mon.release_all_gates();
    let res = busy.join();
    rep.count(if parked { "busy:call_parked_in_the_middle" } else { "busy:gate_not_reached" }, 1);
    if created_meanwhile > 0 {
        rep.violation(
            format!("busy:second-writer-created-while-the-first-was-inside-{what}"),
            json!({"case": case, "created": created_meanwhile, "refused": refused}),
        );
    }
    for e in other.iter().take(2) {
        rep.violation("busy:refusal-is-not-a-lock-error", json!({"case": case, "call": what, "err": e}));
    }
    let survivor = match res {
        Ok(Ok(w)) => w,
        Ok(Err(e)) => {
            rep.violation(format!("busy:{what}-failed"), json!({"case": case, "err": e}));
            None
        }
        Err(_) => {
            rep.violation(format!("busy:{what}-panicked"), json!({"case": case}));
            None
        }
    };
    // commit / rollback keep the writer: still exactly one
    if let Some(w) = survivor {
        if let Ok(w2) = index.writer_with_options::<tantivy::TantivyDocument>(opts(1, 15_000_000)) {
            drop(w2);
            rep.violation(format!("busy:second-writer-created-after-{what}-returned-while-the-first-is-alive"), json!({"case": case}));
        }
        drop(w);
    }
    match index.writer_with_options::<tantivy::TantivyDocument>(opts(1, 15_000_000)) {
        Ok(w) => drop(w),
        Err(e) => rep.violation(format!("busy:no-writer-can-be-created-after-{what}-and-drop"), json!({"case": case, "err": e.to_string()})),
    }
    if parked && refused > 0 {
        rep.nontrivial(format!("busy:{what}:nseg={nseg}"));
    }
}

fn child(path: &str) -> ! {
    let r = Index::open_in_dir(path).and_then(|i| i.writer_with_num_threads::<tantivy::TantivyDocument>(1, 15_000_000));
    match r {
        Ok(w) => {
            println!("CHILD-OK");
            drop(w);
        }
        Err(e) => {
            if is_lock_failure(&e) {
                println!("CHILD-LOCKFAILURE");
            } else {
                println!("CHILD-OTHER-ERROR {e}");
            }
        }
    }
    std::process::exit(0);
}

fn main() {
    let argv: Vec<String> = std::env::args().collect();
    if argv.len() >= 3 && argv[1] == "--child" {
        child(&argv[2]);
    }
    let ctx = Ctx::from_env("C18", "exploration");
    let mut rep = run_cases(&ctx, "lifecycle", ctx.scale(300, 20000) as u64, |c, r, rep| lifecycle_case(c, r, rep, false));
    rep.merge(run_cases(&ctx, "churn", ctx.scale(40, 2000) as u64, churn_case));
    rep.merge(run_cases(&ctx, "busy", ctx.scale(60, 3000) as u64, busy_writer_case));
    let mut ctx1 = ctx.clone();
    ctx1.threads = 1;
    rep.merge(run_cases(&ctx1, "xproc", ctx.scale(12, 300) as u64, |c, r, rep| lifecycle_case(c, r, rep, true)));
    simple_finish(
        &ctx,
        rep,
        "case = one generated writer lifecycle of 5-40 steps over {create valid / invalid budget / zero threads on either of two Index handles of one directory, concurrent creation burst from 2-8 threads at a barrier, commit, rollback, drop, wait_merging_threads, worker killed by an injected fault, rollback failing by an injected fault, creation attempt from another process} on MonDir, RamDirectory and MmapDirectory, checked against a one-boolean model (a writer is alive or not). Non-trivial = at least one creation was refused and at least one succeeded after a release; distinct = directory kind x set of step kinds.",
        ctx.scale(30, 200),
        &["a writer whose worker died or whose rollback failed still counts as alive until it is dropped"],
    );
}
