// out-of-order / duplicate insertion stream (included into c15.rs)

/// What happened when a non-increasing key was offered.
#[allow(dead_code)]
enum Offer {
    RejectedErr(String),
    RejectedPanic(String),
    /// insert returned Ok and the rest of the build (remaining keys + finish) also succeeded
    Accepted,
    /// insert returned Ok but a later insert / finish refused
    RejectedLater(String),
}

fn bad_key(rng: &mut Rng, keys: &[Vec<u8>], p: usize) -> (Vec<u8>, &'static str) {
    let prev = &keys[p - 1];
    match rng.below(6) {
        0 | 1 => (prev.clone(), "duplicate-of-previous"),
        2 => (keys[rng.usize_below(p)].clone(), "earlier-key"),
        3 if !prev.is_empty() => {
            let l = rng.usize_below(prev.len());
            (prev[..l].to_vec(), "proper-prefix-of-previous")
        }
        4 if !prev.is_empty() => {
            // same length, last differing byte smaller
            let mut k = prev.clone();
            let i = rng.usize_below(k.len());
            if k[i] > 0 {
                k[i] -= 1;
                (k, "smaller-sibling")
            } else {
                (prev.clone(), "duplicate-of-previous")
            }
        }
        _ => {
            if prev.is_empty() {
                (vec![], "duplicate-of-previous")
            } else {
                (vec![], "empty-key-late")
            }
        }
    }
}

fn offer_sst<T: ValGen>(
    keys: &[Vec<u8>],
    vals: &[T::Value],
    block_len: Option<usize>,
    p: usize,
    bad: &[u8],
) -> Result<Offer, String>
where
    T::Value: PartialEq + Debug + Clone,
{
    let mut b = Dictionary::<T>::builder(Vec::new()).map_err(|e| format!("builder: {e}"))?;
    if let Some(bl) = block_len {
        b.set_block_len(bl);
    }
    for i in 0..p {
        b.insert(&keys[i], &vals[i]).map_err(|e| format!("valid insert: {e}"))?;
    }
    // the value offered with the bad key is the legal next value, so only the key is at fault
    let r = guarded(|| {
        let r = b.insert(bad, &vals[p]);
        (r, b)
    });
    let (r, mut b) = match r {
        Err(pi) => return Ok(Offer::RejectedPanic(pi.message)),
        Ok(x) => x,
    };
    if let Err(e) = r {
        return Ok(Offer::RejectedErr(e.to_string()));
    }
    let rest = guarded(move || -> Result<Vec<u8>, String> {
        for i in p + 1..keys.len() {
            b.insert(&keys[i], &vals[i]).map_err(|e| e.to_string())?;
        }
        b.finish().map_err(|e| e.to_string())
    });
    Ok(match rest {
        Err(pi) => Offer::RejectedLater(format!("panic: {}", pi.message)),
        Ok(Err(e)) => Offer::RejectedLater(e),
        Ok(Ok(_)) => Offer::Accepted,
    })
}

fn offer_fst(keys: &[Vec<u8>], vals: &[TermInfo], p: usize, bad: &[u8]) -> Result<Offer, String> {
    let mut b = TermDictionaryBuilder::create(Vec::new()).map_err(|e| format!("create: {e}"))?;
    for i in 0..p {
        b.insert(&keys[i], &vals[i]).map_err(|e| format!("valid insert: {e}"))?;
    }
    let r = guarded(|| {
        let r = b.insert(bad, &vals[p]);
        (r, b)
    });
    let (r, mut b) = match r {
        Err(pi) => return Ok(Offer::RejectedPanic(pi.message)),
        Ok(x) => x,
    };
    if let Err(e) = r {
        return Ok(Offer::RejectedErr(e.to_string()));
    }
    let rest = guarded(move || -> Result<Vec<u8>, String> {
        for i in p + 1..keys.len() {
            b.insert(&keys[i], &vals[i]).map_err(|e| e.to_string())?;
        }
        b.finish().map_err(|e| e.to_string())
    });
    Ok(match rest {
        Err(pi) => Offer::RejectedLater(format!("panic: {}", pi.message)),
        Ok(Err(e)) => Offer::RejectedLater(e),
        Ok(Ok(_)) => Offer::Accepted,
    })
}

fn ooo_generic<T: ValGen>(case: u64, rng: &mut Rng, rep: &mut Report)
where T::Value: PartialEq + Debug + Clone {
    // one more value than keys is not needed: the bad key replaces keys[p]
    let n = *rng.pick(&[2usize, 2, 3, 5, 20, 60, 200, 600]);
    let (keys, class) = gen_keys(rng, n);
    if keys.len() < 2 {
        return;
    }
    let n = keys.len();
    let vals = T::gen(rng, n);
    let block_len = *rng.pick(&[Some(16usize), Some(16), Some(20), Some(64), Some(300), None]);
    // learn where the writer cuts blocks on the valid prefix (same inputs => same cuts)
    let edges: Vec<usize> = match build_sst::<T>(&keys, &vals, block_len)
        .ok()
        .and_then(|b| Dictionary::<T>::from_bytes(OwnedBytes::new(b)).ok())
    {
        Some(d) => block_first_ordinals(&d),
        None => {
            viol(rep, "sst:api-error:build", json!({"where": "ooo reference build"}));
            return;
        }
    };
    // position of the bad key: first key of a block, last key of a block, 1, n-1, random
    let inner_edges: Vec<usize> = edges.iter().copied().filter(|&e| e >= 1 && e < n).collect();
    let (p, pos_class) = match rng.below(6) {
        0 | 1 | 2 if !inner_edges.is_empty() => (*rng.pick(&inner_edges), "first-key-of-a-block"),
        3 if !inner_edges.is_empty() => {
            let e = *rng.pick(&inner_edges);
            if e >= 2 { (e - 1, "last-key-of-a-block") } else { (1, "second-key") }
        }
        4 => (1, "second-key"),
        5 => (n - 1, "last-key"),
        _ => (rng.urange(1, n - 1), "random"),
    };
    let (bad, bad_class) = bad_key(rng, &keys, p);
    debug_assert!(bad <= keys[p - 1]);
    rep.eval();
    rep.count("ooo_offers", 1);
    rep.observe("ooo_position", format!("sst:{pos_class}"));
    rep.observe("ooo_bad_key", format!("sst:{bad_class}"));
    let witness = json!({"target": "sstable", "value_type": T::NAME, "key_class": class, "n": n,
        "block_len": block_len, "position": p, "position_class": pos_class, "bad_key_class": bad_class,
        "previous_key": brief(&keys[p - 1]), "offered_key": brief(&bad),
        "blocks_flushed_before": edges.iter().filter(|&&e| e >= 1 && e <= p).count()});
    match offer_sst::<T>(&keys, &vals, block_len, p, &bad) {
        Err(e) => viol(rep, "sst:api-error:build", json!({"error": e, "witness": witness})),
        Ok(Offer::RejectedErr(_)) => rep.observe("ooo_outcome", "sst:rejected-by-Err"),
        Ok(Offer::RejectedPanic(m)) => {
            let kind = if m.contains("Keys should be increasing") {
                "sst:rejected-by-panic(keys should be increasing)"
            } else if m.contains("left[..] < right") {
                "sst:rejected-by-panic(index key shortening assert)"
            } else {
                "sst:rejected-by-panic(other)"
            };
            rep.observe("ooo_outcome", kind)
        }
        Ok(Offer::RejectedLater(_)) => rep.observe("ooo_outcome", "sst:rejected-later"),
        Ok(Offer::Accepted) => {
            // the one shape we know of gets its own key: "" offered again right after "" as
            // the very first key (previous_key is empty, so the writer believes nothing precedes)
            let sig = if bad.is_empty() && keys[p - 1].is_empty() {
                "sst:builder-silently-accepts-duplicate-empty-key"
            } else {
                "sst:builder-silently-accepts-non-increasing-key"
            };
            viol(rep, sig, witness);
        }
    }
    if edges.iter().any(|&e| e >= 1 && e <= p) {
        rep.nontrivial(format!("ooo|sst|{}|{}|{}|{}|bl{:?}|n{}|p{}", T::NAME, class, pos_class, bad_class, block_len, n, p));
    }
    let _ = case;
}

fn ooo_fst(rng: &mut Rng, rep: &mut Report) {
    let n = *rng.pick(&[2usize, 3, 5, 60, 257, 300, 520]);
    let (keys, class) = gen_keys(rng, n);
    if keys.len() < 2 {
        return;
    }
    let n = keys.len();
    let vals = gen_term_infos(rng, n);
    let (p, pos_class) = match rng.below(5) {
        0 if n > 256 => (256, "first-key-of-term-info-block"),
        1 => (1, "second-key"),
        2 => (n - 1, "last-key"),
        _ => (rng.urange(1, n - 1), "random"),
    };
    let (bad, bad_class) = bad_key(rng, &keys, p);
    rep.eval();
    rep.count("ooo_offers", 1);
    rep.observe("ooo_position", format!("fst:{pos_class}"));
    rep.observe("ooo_bad_key", format!("fst:{bad_class}"));
    let witness = json!({"target": "tantivy::termdict (fst)", "key_class": class, "n": n, "position": p,
        "bad_key_class": bad_class, "previous_key": brief(&keys[p - 1]), "offered_key": brief(&bad)});
    match offer_fst(&keys, &vals, p, &bad) {
        Err(e) => viol(rep, "fst:api-error:build", json!({"error": e, "witness": witness})),
        Ok(Offer::RejectedErr(_)) => rep.observe("ooo_outcome", "fst:rejected-by-Err"),
        Ok(Offer::RejectedPanic(_)) => rep.observe("ooo_outcome", "fst:rejected-by-panic"),
        Ok(Offer::RejectedLater(_)) => rep.observe("ooo_outcome", "fst:rejected-later"),
        Ok(Offer::Accepted) => viol(rep, "fst:builder-silently-accepts-non-increasing-key", witness),
    }
    if p >= 256 {
        rep.nontrivial(format!("ooo|fst|{}|{}|{}|n{}|p{}", class, pos_class, bad_class, n, p));
    }
}

fn ooo_case(case: u64, rng: &mut Rng, rep: &mut Report) {
    match rng.weighted(&[3, 3, 2, 1, 3]) {
        0 => ooo_generic::<VoidSSTable>(case, rng, rep),
        1 => ooo_generic::<MonotonicU64SSTable>(case, rng, rep),
        2 => ooo_generic::<RangeSSTable>(case, rng, rep),
        3 => ooo_generic::<VecU32ValueSSTable>(case, rng, rep),
        _ => ooo_fst(rng, rep),
    }
}
