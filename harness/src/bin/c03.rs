//! C03 — queries match exactly the documents their logical meaning prescribes.
//!
//! case = one generated corpus (model documents -> real index: 1..N segments, deletes, optional
//! sort, optional merge) on which many generated query trees are evaluated with every collector
//! path and compared with the naive evaluator of `qshared`.
//!
//! Second stream (`exists`, module `c03_util`): the ExistsQuery family on a schema with a fast
//! field of every kind and two JSON fast fields, same collector panel, own oracle.
#[path = "qshared/mod.rs"]
mod qshared;
/// ExistsQuery family (typed / str / facet / JSON fast fields, json_subpaths) - own schema and oracle
#[path = "c03_util/mod.rs"]
mod c03_util;

use std::collections::BTreeSet;

use qshared::*;
use serde_json::{json, Value};
use tantivy::collector::{BytesFilterCollector, Count, DocSetCollector, FilterCollector, MultiCollector, TopDocs};
use tantivy::query::Query;
use tantivy::{DocAddress, Order, Searcher};
use tvmon::report::*;
use tvmon::rng::Rng;

#[derive(Clone, Debug, PartialEq)]
pub enum Obs {
    /// ids returned, plus (for TopDocs) whether an address was returned twice
    Ids(BTreeSet<u64>, bool),
    Cnt(usize),
}

/// what the collector panel needs: a searcher, the id of every doc address, the number of
/// addresses (limit of the rankings). The schema must have the u64 fast field `id`.
pub struct View {
    pub searcher: Searcher,
    pub table: Vec<Vec<u64>>,
    pub total_docs: usize,
    /// id -> ordinal of its segment when that segment has no deleted document (u32::MAX else)
    clean_segment_of: Vec<u32>,
}

impl View {
    pub fn new(searcher: Searcher, table: Vec<Vec<u64>>, total_docs: usize) -> View {
        let n = table.iter().flatten().map(|&i| i as usize + 1).max().unwrap_or(0);
        let mut clean_segment_of = vec![u32::MAX; n];
        for (ord, sr) in searcher.segment_readers().iter().enumerate() {
            if !sr.has_deletes() {
                for &id in &table[ord] {
                    clean_segment_of[id as usize] = ord as u32;
                }
            }
        }
        View { searcher, table, total_docs, clean_segment_of }
    }
    /// Evidence: the expected hits of a query include more than 64 documents of one segment
    /// without deletes - there the collectors that need no score receive the hits in blocks
    /// (`collect_block`, several calls per segment) instead of one by one.
    pub fn block_collection_reached(&self, expected: &BTreeSet<u64>) -> bool {
        let mut per_seg: Vec<u32> = vec![0; self.table.len()];
        for id in expected {
            if let Some(&ord) = self.clean_segment_of.get(*id as usize) {
                if ord != u32::MAX {
                    per_seg[ord as usize] += 1;
                    if per_seg[ord as usize] > 64 {
                        return true;
                    }
                }
            }
        }
        false
    }
}

struct Layout<'a> {
    view: View,
    fields: &'a Fields,
    live: Vec<&'a MDoc>,
    corpus: &'a Corpus,
    name: &'static str,
}

fn filter3(id: u64) -> bool {
    id % 3 != 0
}
fn filter2(id: u64) -> bool {
    id % 2 == 0
}
/// predicate of the FilterCollector over the (none / full / optional / multivalued) i64 fast field
/// `i_fast`: documented meaning = at least one value of the document satisfies it
pub fn filter_i(v: i64) -> bool {
    v > 0
}
/// predicate of the BytesFilterCollector over the bytes fast field `by_fast` (the empty byte string
/// is a value and satisfies it)
pub fn filter_by(b: &[u8]) -> bool {
    b.len() != 1
}

/// Which documents pass the filter wrapper of a collector path: `by_values(name, id)` answers for
/// the paths filtered on field values (it looks the model document up), the id filters are here.
pub fn passes(name: &str, id: u64, by_values: &dyn Fn(&str, u64) -> bool) -> bool {
    if name.starts_with("filter3") {
        filter3(id)
    } else if name.starts_with("filter2") {
        filter2(id)
    } else if name.starts_with("filter") {
        by_values(name, id)
    } else {
        true
    }
}

fn ids_of<I: IntoIterator<Item = DocAddress>>(l: &View, it: I) -> Result<Obs, String> {
    let mut s = BTreeSet::new();
    let mut dup = false;
    for a in it {
        let id = addr_id(&l.table, a).ok_or_else(|| format!("address {a:?} outside the searcher"))?;
        if !s.insert(id) {
            dup = true;
        }
    }
    Ok(Obs::Ids(s, dup))
}

impl Layout<'_> {
    /// the filter wrappers over field values, answered from the model document (id = index)
    fn by_values(&self, name: &str, id: u64) -> bool {
        let Some(d) = self.corpus.docs.get(id as usize) else { return false };
        if name.starts_with("filteri") {
            d.vals[T_I].iter().any(|v| matches!(v, Val::I(x) if filter_i(*x)))
        } else if name.starts_with("filterby") {
            d.vals[T_BY].iter().any(|v| matches!(v, Val::By(b) if filter_by(b)))
        } else {
            true
        }
    }
}

/// every collector path; names are stable (they appear in signatures)
pub fn panel(l: &View, q: &dyn Query, full: bool) -> Vec<(&'static str, Result<Obs, String>)> {
    let s = &l.searcher;
    let limit = l.total_docs.max(1);
    let e = |e: tantivy::TantivyError| {
        let t = format!("{e:?}");
        t.chars().take(160).collect::<String>()
    };
    let mut out: Vec<(&'static str, Result<Obs, String>)> = vec![];
    out.push(("count", s.search(q, &Count).map(Obs::Cnt).map_err(e)));
    out.push(("query_count", q.count(s).map(Obs::Cnt).map_err(e)));
    out.push(("docset", s.search(q, &DocSetCollector).map_err(e).and_then(|r| ids_of(l, r))));
    out.push((
        "topdocs",
        s.search(q, &TopDocs::with_limit(limit).order_by_score())
            .map_err(e)
            .and_then(|r| ids_of(l, r.into_iter().map(|x| x.1))),
    ));
    // ranking by a fast field: the no-scoring route of a ranking collector (block collection)
    out.push((
        "topdocs_fastfield",
        s.search(q, &TopDocs::with_limit(limit).order_by_fast_field::<u64>("id", Order::Asc))
            .map_err(e)
            .and_then(|r| ids_of(l, r.into_iter().map(|x| x.1))),
    ));
    if !full {
        return out;
    }
    out.push((
        "filter2.topdocs_fastfield",
        s.search(
            q,
            &FilterCollector::new(
                "id".to_string(),
                filter2,
                TopDocs::with_limit(limit).order_by_fast_field::<u64>("id", Order::Desc),
            ),
        )
        .map_err(e)
        .and_then(|r| ids_of(l, r.into_iter().map(|x| x.1))),
    ));
    // the filter column is none / full / optional / multivalued depending on the corpus
    out.push((
        "filteri.topdocs_fastfield",
        s.search(
            q,
            &FilterCollector::new(
                "i_fast".to_string(),
                filter_i,
                TopDocs::with_limit(limit).order_by_fast_field::<u64>("id", Order::Asc),
            ),
        )
        .map_err(e)
        .and_then(|r| ids_of(l, r.into_iter().map(|x| x.1))),
    ));
    out.push((
        "filterby.count",
        s.search(q, &BytesFilterCollector::new("by_fast".to_string(), filter_by, Count)).map(Obs::Cnt).map_err(e),
    ));
    out.push((
        "filterby.topdocs",
        s.search(
            q,
            &BytesFilterCollector::new("by_fast".to_string(), filter_by, TopDocs::with_limit(limit).order_by_score()),
        )
        .map_err(e)
        .and_then(|r| ids_of(l, r.into_iter().map(|x| x.1))),
    ));
    {
        // FilterCollector over a MultiCollector of non-scoring collectors
        let mut mc = MultiCollector::new();
        let h1 = mc.add_collector(Count);
        let h2 = mc.add_collector(TopDocs::with_limit(limit).order_by_fast_field::<u64>("id", Order::Asc));
        match s.search(q, &FilterCollector::new("id".to_string(), filter3, mc)) {
            Ok(mut fruits) => {
                let r1 = h1.extract(&mut fruits);
                let r2 = h2.extract(&mut fruits);
                out.push(("filter3.multi.count", Ok(Obs::Cnt(r1))));
                out.push(("filter3.multi.topdocs_fastfield", ids_of(l, r2.into_iter().map(|x| x.1))));
            }
            Err(err) => out.push(("filter3.multi.count", Err(e(err)))),
        }
    }
    {
        let mut mc = MultiCollector::new();
        let h1 = mc.add_collector(DocSetCollector);
        let h2 = mc.add_collector(Count);
        match s.search(q, &mc) {
            Ok(mut fruits) => {
                let r1 = h1.extract(&mut fruits);
                let r2 = h2.extract(&mut fruits);
                out.push(("multi_noscore.docset", ids_of(l, r1)));
                out.push(("multi_noscore.count", Ok(Obs::Cnt(r2))));
            }
            Err(err) => out.push(("multi_noscore.docset", Err(e(err)))),
        }
    }
    {
        let mut mc = MultiCollector::new();
        let h0 = mc.add_collector(TopDocs::with_limit(limit).order_by_score());
        let h1 = mc.add_collector(DocSetCollector);
        let h2 = mc.add_collector(Count);
        match s.search(q, &mc) {
            Ok(mut fruits) => {
                let r0 = h0.extract(&mut fruits);
                let r1 = h1.extract(&mut fruits);
                let r2 = h2.extract(&mut fruits);
                out.push(("multi_score.topdocs", ids_of(l, r0.into_iter().map(|x| x.1))));
                out.push(("multi_score.docset", ids_of(l, r1)));
                out.push(("multi_score.count", Ok(Obs::Cnt(r2))));
            }
            Err(err) => out.push(("multi_score.topdocs", Err(e(err)))),
        }
    }
    out.push((
        "filter3.docset",
        s.search(q, &FilterCollector::new("id".to_string(), filter3, DocSetCollector))
            .map_err(e)
            .and_then(|r| ids_of(l, r)),
    ));
    out.push((
        "filter2.topdocs",
        s.search(
            q,
            &FilterCollector::new("id".to_string(), filter2, TopDocs::with_limit(limit).order_by_score()),
        )
        .map_err(e)
        .and_then(|r| ids_of(l, r.into_iter().map(|x| x.1))),
    ));
    out.push((
        "filter3.count",
        s.search(q, &FilterCollector::new("id".to_string(), filter3, Count)).map(Obs::Cnt).map_err(e),
    ));
    match s.search(q, &(TopDocs::with_limit(limit).order_by_score(), Count)) {
        Ok((top, cnt)) => {
            out.push(("tuple_score.topdocs", ids_of(l, top.into_iter().map(|x| x.1))));
            out.push(("tuple_score.count", Ok(Obs::Cnt(cnt))));
        }
        Err(err) => out.push(("tuple_score.topdocs", Err(e(err)))),
    }
    match s.search(q, &(DocSetCollector, Count)) {
        Ok((ds, cnt)) => {
            out.push(("tuple_noscore.docset", ids_of(l, ds)));
            out.push(("tuple_noscore.count", Ok(Obs::Cnt(cnt))));
        }
        Err(err) => out.push(("tuple_noscore.docset", Err(e(err)))),
    }
    out
}


/// (must, may) id sets of the live documents under `mode`
fn expected(l: &Layout, q: &Q, mode: Mode) -> (BTreeSet<u64>, BTreeSet<u64>) {
    let mut must = BTreeSet::new();
    let mut may = BTreeSet::new();
    for d in &l.live {
        let (t, f) = eval(q, d, mode);
        if t {
            may.insert(d.id);
            if !f {
                must.insert(d.id);
            }
        }
    }
    (must, may)
}

fn restrict(s: &BTreeSet<u64>, name: &str, by_values: &dyn Fn(&str, u64) -> bool) -> BTreeSet<u64> {
    if !name.starts_with("filter") {
        return s.clone();
    }
    s.iter().copied().filter(|&i| passes(name, i, by_values)).collect()
}

pub struct Verdict {
    /// collector names whose observation contradicts the oracle
    pub wrong: Vec<&'static str>,
    /// collector names that returned an error
    pub errors: Vec<(&'static str, String)>,
    /// unfiltered id observations disagree with each other / with the counts
    pub disagree: bool,
    pub dup: bool,
    pub detail: Vec<Value>,
}

pub fn judge(
    obs: &[(&'static str, Result<Obs, String>)],
    must: &BTreeSet<u64>,
    may: &BTreeSet<u64>,
    by_values: &dyn Fn(&str, u64) -> bool,
) -> Verdict {
    let mut v = Verdict { wrong: vec![], errors: vec![], disagree: false, dup: false, detail: vec![] };
    let mut sizes: BTreeSet<usize> = BTreeSet::new();
    let mut sets: Vec<&BTreeSet<u64>> = vec![];
    for (name, o) in obs {
        let filtered = name.starts_with("filter");
        let (mu, ma) = (restrict(must, name, by_values), restrict(may, name, by_values));
        match o {
            Err(e) => {
                v.errors.push((name, e.clone()));
                v.detail.push(json!({"collector": name, "error": e}));
            }
            Ok(Obs::Cnt(c)) => {
                if *c < mu.len() || *c > ma.len() {
                    v.wrong.push(name);
                    v.detail.push(json!({"collector": name, "count": c, "expected_count": if mu.len() == ma.len() { json!(mu.len()) } else { json!([mu.len(), ma.len()]) }}));
                }
                if !filtered {
                    sizes.insert(*c);
                }
            }
            Ok(Obs::Ids(s, dup)) => {
                if *dup {
                    v.dup = true;
                }
                let missing: Vec<u64> = mu.difference(s).copied().take(5).collect();
                let extra: Vec<u64> = s.difference(&ma).copied().take(5).collect();
                if *dup || !missing.is_empty() || !extra.is_empty() {
                    v.wrong.push(name);
                    v.detail.push(json!({"collector": name, "returned": s.len(), "expected": mu.len(),
                        "missing_ids": missing, "unexpected_ids": extra, "an_address_returned_twice": dup}));
                }
                if !filtered {
                    sizes.insert(s.len());
                    sets.push(s);
                }
            }
        }
    }
    if sizes.len() > 1 || sets.windows(2).any(|w| w[0] != w[1]) {
        v.disagree = true;
    }
    v
}

impl Verdict {
    pub fn ok(&self) -> bool {
        self.wrong.is_empty() && self.errors.is_empty() && !self.disagree && !self.dup
    }
}

#[derive(Clone, PartialEq, Debug)]
enum Cat {
    Ok,
    /// panic outside the harness: signature of the panic site
    Panic(String),
    HarnessPanic(String),
    /// an API call returned Err: error classes
    Error(String),
    /// every observation equals what the single-clause shortcut of BooleanWeight::scorer yields
    MinShould,
    Mismatch,
}

struct Outcome {
    cat: Cat,
    obs: Vec<(&'static str, Result<Obs, String>)>,
    verdict: Option<Verdict>,
    must: BTreeSet<u64>,
    may: BTreeSet<u64>,
    panic: Option<PanicInfo>,
}

fn same_cat(a: &Cat, b: &Cat) -> bool {
    match (a, b) {
        (Cat::Panic(x), Cat::Panic(y)) => x == y,
        (Cat::Error(_), Cat::Error(_)) => true,
        _ => a == b,
    }
}

/// is every observation what the single-clause shortcut (minimum_number_should_match ignored by
/// BooleanWeight::scorer) would produce on some path?  Only used to *name* a contradiction.
fn explained_by_shortcut(l: &Layout, q: &Q, obs: &[(&'static str, Result<Obs, String>)]) -> bool {
    let mut sens = (BTreeSet::new(), false, false);
    q.shortcut_sensitive(true, &mut sens);
    if sens.0.is_empty() {
        return false;
    }
    let alts = [expected(l, q, Mode::Proper), expected(l, q, Mode::ShortcutAll), expected(l, q, Mode::ShortcutNested)];
    obs.iter().all(|(name, o)| {
        alts.iter().any(|(mu, ma)| {
            let (mu, ma) = (restrict(mu, name, &|n, id| l.by_values(n, id)), restrict(ma, name, &|n, id| l.by_values(n, id)));
            match o {
                Ok(Obs::Cnt(c)) => mu.len() <= *c && *c <= ma.len(),
                Ok(Obs::Ids(s, dup)) => !dup && mu.is_subset(s) && s.is_subset(&ma),
                Err(_) => false,
            }
        })
    })
}

fn outcome(l: &Layout, q: &Q, full: bool) -> Outcome {
    let (must, may) = expected(l, q, Mode::Proper);
    let mut out = Outcome { cat: Cat::Ok, obs: vec![], verdict: None, must, may, panic: None };
    let tq = match q.build(l.fields) {
        Ok(t) => t,
        Err(e) => {
            out.cat = Cat::Error("build".into());
            out.obs.push(("build", Err(e)));
            return out;
        }
    };
    match guarded(|| panel(&l.view, tq.as_ref(), full)) {
        Err(p) => {
            out.cat = if p.in_harness() { Cat::HarnessPanic(format!("{}: {}", p.location, p.message)) } else { Cat::Panic(p.sig()) };
            out.panic = Some(p);
        }
        Ok(obs) => {
            let v = judge(&obs, &out.must, &out.may, &|n, id| l.by_values(n, id));
            out.cat = if v.ok() {
                Cat::Ok
            } else if !v.errors.is_empty() {
                let classes: BTreeSet<String> = v.errors.iter().map(|e| err_class(&e.1)).collect();
                Cat::Error(classes.into_iter().collect::<Vec<_>>().join("+"))
            } else if explained_by_shortcut(l, q, &obs) {
                Cat::MinShould
            } else {
                Cat::Mismatch
            };
            out.obs = obs;
            out.verdict = Some(v);
        }
    }
    out
}

fn children(q: &Q) -> Vec<&Q> {
    match q {
        Q::Boost(c, _) | Q::Const(c, _) => vec![c],
        Q::DisMax(qs, _) => qs.iter().collect(),
        Q::Bool { clauses, .. } => clauses.iter().map(|c| &c.1).collect(),
        _ => vec![],
    }
}

/// smallest sub-query that, run on its own through the four basic paths, fails the same way
fn minimal_failing<'q>(l: &Layout, q: &'q Q, cat: &Cat) -> &'q Q {
    for c in children(q) {
        if same_cat(&outcome(l, c, false).cat, cat) {
            return minimal_failing(l, c, cat);
        }
    }
    q
}

fn unwrap_wrappers(q: &Q) -> &Q {
    match q {
        Q::Boost(c, _) | Q::Const(c, _) => unwrap_wrappers(c),
        _ => q,
    }
}

fn is_union_like(q: &Q) -> bool {
    match unwrap_wrappers(q) {
        Q::DisMax(qs, _) => qs.len() >= 2,
        Q::Bool { clauses, .. } => clauses.iter().filter(|c| c.0 == Oc::Should).count() >= 2,
        _ => false,
    }
}

/// value-free, seed-stable name of the minimal failing node: leaf kind, or for a composite node
/// its constructor plus a few coarse structural features
fn composite_sig(min: &Q, l: &Layout) -> String {
    let big = l.view.searcher.segment_readers().iter().any(|r| r.max_doc() > 4096);
    match min {
        Q::Bool { clauses, msm } => {
            let mut f = String::from("bool");
            if clauses.iter().any(|c| c.0 == Oc::Must) {
                f.push_str("+must");
            }
            if clauses.iter().any(|c| c.0 == Oc::MustNot) {
                f.push_str("+not");
            }
            if clauses.iter().any(|c| c.0 == Oc::Should) {
                f.push_str("+should");
            }
            if msm.map(|m| m >= 2).unwrap_or(false) {
                f.push_str("+msm>=2");
            }
            if clauses.iter().any(|c| c.0 != Oc::MustNot && is_union_like(&c.1)) {
                f.push_str("+nested-union-leg");
            }
            if big {
                f.push_str("+segment>4096");
            }
            f
        }
        Q::DisMax(qs, _) => format!(
            "dismax{}{}",
            if qs.iter().any(is_union_like) { "+nested-union-leg" } else { "" },
            if big { "+segment>4096" } else { "" }
        ),
        _ => min.sig_kind(),
    }
}

/// collapses collector names to their path family (keeps signatures stable)
fn family(n: &str) -> &'static str {
    if n.ends_with("count") && !n.contains('.') {
        "weight-count"
    } else if n.contains("count") {
        "collected-count"
    } else if n.contains("topdocs_fastfield") {
        "ranked-by-fastfield"
    } else if n.contains("topdocs") {
        "scored"
    } else {
        "unscored"
    }
}

pub fn err_class(e: &str) -> String {
    let head: String = e.chars().take_while(|c| c.is_ascii_alphanumeric()).collect();
    if head.is_empty() {
        "error".into()
    } else {
        head
    }
}

fn check_pair(rep: &mut Report, l: &Layout, q: &Q, sample: bool) {
    rep.eval();
    rep.count("pairs", 1);
    let mut kinds = BTreeSet::new();
    q.kinds(&mut kinds);
    for k in &kinds {
        rep.observe("query_kind", k.clone());
    }
    rep.observe("tree_depth", q.depth().to_string());
    let (must, may) = expected(l, q, Mode::Proper);
    if must != may {
        rep.count("pairs_with_documentation_open_cases(slop)", 1);
    }
    if l.view.block_collection_reached(&must) {
        rep.count("pairs_with_more_than_64_hits_in_a_segment_without_deletes", 1);
    }
    let o = outcome(l, q, true);
    rep.count("collector_runs", o.obs.len() as u64);
    for (name, _) in &o.obs {
        rep.observe("collector_path", *name);
    }
    let n_live = l.live.len();
    if !must.is_empty() && may.len() < n_live {
        rep.nontrivial(format!("{}|{}|{}", q.shape(), l.corpus.class_key(), l.name));
        rep.count("nontrivial_pairs", 1);
    } else if may.is_empty() {
        rep.count("pairs_matching_nothing", 1);
    } else if must.len() == n_live {
        rep.count("pairs_matching_everything", 1);
    }
    if sample {
        rep.sample(json!({"corpus": l.corpus.describe(), "layout": l.name, "query": q.json(),
            "expected_matches": must.len(), "live_docs": n_live,
            "observed": o.obs.iter().map(|(n, o)| json!([n, match o { Ok(Obs::Cnt(c)) => json!(c), Ok(Obs::Ids(s, _)) => json!(s.len()), Err(e) => json!(e)}])).collect::<Vec<_>>()}));
    }
    if o.cat == Cat::Ok {
        return;
    }
    report_failure(rep, l, q, &o);
}

/// When only collector paths under a filter wrapper contradict the oracle (and the unfiltered ones
/// agree with it and with each other): the wrappers and wrapped collector families concerned.
pub fn filter_wrapper_only(v: &Verdict) -> Option<String> {
    if v.wrong.is_empty() || v.disagree || !v.wrong.iter().all(|n| n.starts_with("filter")) {
        return None;
    }
    let wrappers: BTreeSet<&str> = v
        .wrong
        .iter()
        .map(|n| if n.starts_with("filterby") { "BytesFilterCollector" } else { "FilterCollector" })
        .collect();
    let inner: BTreeSet<&str> = v.wrong.iter().map(|n| family(n)).collect();
    Some(format!(
        "filter-wrapper:{}:over={}",
        wrappers.into_iter().collect::<Vec<_>>().join("+"),
        inner.into_iter().collect::<Vec<_>>().join("+")
    ))
}

/// Direction of a contradiction + which collector families are wrong (value-free, for the
/// signature), and up to three ids of documents involved (for the witness).
pub fn mismatch_class(v: &Verdict) -> (String, Vec<u64>) {
    // direction of the contradiction (counts are compared with their own expectation,
    // which differs for the filtered collectors)
    let exp_range = |d: &Value| -> Option<(u64, u64)> {
        let e = d.get("expected_count")?;
        if let Some(n) = e.as_u64() {
            Some((n, n))
        } else {
            let a = e.as_array()?;
            Some((a.first()?.as_u64()?, a.get(1)?.as_u64()?))
        }
    };
    let missing = v.detail.iter().any(|d| {
        d.get("missing_ids").and_then(|x| x.as_array()).map(|a| !a.is_empty()).unwrap_or(false)
            || matches!((d.get("count").and_then(|c| c.as_u64()), exp_range(d)), (Some(c), Some((lo, _))) if c < lo)
    });
    let extra = v.detail.iter().any(|d| {
        d.get("unexpected_ids").and_then(|x| x.as_array()).map(|a| !a.is_empty()).unwrap_or(false)
            || matches!((d.get("count").and_then(|c| c.as_u64()), exp_range(d)), (Some(c), Some((_, hi))) if c > hi)
    });
    let dir = match (missing, extra) {
        (true, false) => "docs-missing",
        (false, true) => "docs-unexpected",
        (true, true) => "docs-missing-and-unexpected",
        _ => "open-zone",
    };
    let which = if v.dup {
        "duplicate-address".to_string()
    } else if v.disagree {
        let fam: BTreeSet<&str> = v.wrong.iter().map(|n| family(n)).collect();
        format!("{dir}:collectors-disagree:wrong={}", fam.into_iter().collect::<Vec<_>>().join("+"))
    } else {
        format!("{dir}:all-collectors-contradict-oracle")
    };
    let mut ids: Vec<u64> = vec![];
    for d in &v.detail {
        for k in ["missing_ids", "unexpected_ids"] {
            if let Some(a) = d.get(k).and_then(|x| x.as_array()) {
                ids.extend(a.iter().filter_map(|x| x.as_u64()));
            }
        }
    }
    ids.sort();
    ids.dedup();
    ids.truncate(3);
    (which, ids)
}

/// keeps at most a few witnesses per signature and thread, so that a frequent finding cannot
/// push rarer ones out of the (bounded) report
pub fn push_violation(rep: &mut Report, sig: String, detail: Value) {
    let n = rep.violations.iter().filter(|v| v.sig == sig).count();
    if n >= 3 {
        rep.count("violations_beyond_3_per_signature_and_thread", 1);
        return;
    }
    rep.violation(sig, detail);
}

fn report_failure(rep: &mut Report, l: &Layout, q: &Q, o: &Outcome) {
    let min = minimal_failing(l, q, &o.cat);
    let base = json!({"query": q.json(), "minimal_failing_subquery": min.json(), "corpus": l.corpus.describe(), "layout": l.name});
    let with = |extra: Value| -> Value {
        let mut b = base.clone();
        if let (Some(b), Some(e)) = (b.as_object_mut(), extra.as_object()) {
            for (k, v) in e {
                b.insert(k.clone(), v.clone());
            }
        }
        b
    };
    match &o.cat {
        Cat::Ok => {}
        Cat::HarnessPanic(m) => rep.harness_error(format!("panic in harness at {m}")),
        Cat::Panic(sig) => {
            let p = o.panic.as_ref().unwrap();
            push_violation(rep, sig.clone(), with(json!({"panic_location": p.location, "panic_message": p.message})));
        }
        Cat::MinShould => {
            let v = o.verdict.as_ref().unwrap();
            let mut sens = (BTreeSet::new(), false, false);
            q.shortcut_sensitive(true, &mut sens);
            let occ: Vec<&str> = sens.0.iter().copied().collect();
            let pos = match (sens.1, sens.2) {
                (true, false) => "top",
                (false, true) => "nested",
                _ => "top+nested",
            };
            let fam: BTreeSet<&str> = v.wrong.iter().map(|n| family(n)).collect();
            push_violation(
                rep,
                format!(
                    "minshould:single-clause-shortcut-ignores-minimum_should_match[{}][{}][wrong={}]",
                    occ.join("+"),
                    pos,
                    fam.into_iter().collect::<Vec<_>>().join("+")
                ),
                with(json!({"expected_matches": o.must.len(), "contradictions": v.detail})),
            );
        }
        Cat::Error(classes) => {
            let v = o.verdict.as_ref();
            let first = v.and_then(|v| v.errors.first().map(|e| e.1.clone())).or_else(|| o.obs.first().and_then(|x| x.1.clone().err())).unwrap_or_default();
            // class: RangeQuery routed to the fast-field path of a bool field is refused
            if let Q::RangeTyped { ty, .. } = min {
                if *ty == T_B && min.range_path() == Some("fastfield") && first.contains("Expected term with u64, i64, f64 or date") {
                    push_violation(rep, "range-bool-fastfield:api-error[InvalidArgument]".into(), with(json!({"error": first})));
                    return;
                }
            }
            push_violation(rep, format!("api-error[{}][{}]", composite_sig(min, l), classes), with(json!({"error": first})));
        }
        Cat::Mismatch => {
            let v = o.verdict.as_ref().unwrap();
            // class: sloppy phrase with >= 3 terms
            if let Q::Phrase { terms, slop } = min {
                if *slop > 0 && terms.len() >= 3 {
                    let mo = outcome(l, min, false);
                    let get = |name: &str| {
                        mo.obs.iter().find(|x| x.0 == name).and_then(|x| match &x.1 {
                            Ok(Obs::Ids(s, _)) => Some(s.clone()),
                            _ => None,
                        })
                    };
                    if let (Some(u), Some(sc)) = (get("docset"), get("topdocs")) {
                        let mut flags = vec![];
                        if !u.is_subset(&mo.may) {
                            flags.push("unscored-accepts-beyond-slop");
                        }
                        if !mo.must.is_subset(&u) {
                            flags.push("unscored-misses-within-slop");
                        }
                        if !sc.is_subset(&mo.may) {
                            flags.push("scored-accepts-beyond-slop");
                        }
                        if !mo.must.is_subset(&sc) {
                            flags.push("scored-misses-within-slop");
                        }
                        if flags.is_empty() && u != sc {
                            flags.push("scored-and-unscored-disagree-where-documentation-is-open");
                        }
                        if !flags.is_empty() {
                            let wit = |a: &BTreeSet<u64>, b: &BTreeSet<u64>| -> Vec<Value> {
                                a.difference(b)
                                    .take(2)
                                    .filter_map(|id| l.corpus.docs.iter().find(|d| d.id == *id))
                                    .map(|d| json!({"id": d.id, "body": d.json()["body"]}))
                                    .collect()
                            };
                            push_violation(
                                rep,
                                format!("phrase-slop-3+terms[{}]", flags.join("+")),
                                with(json!({"standalone": {"oracle_must": mo.must.len(), "oracle_may": mo.may.len(),
                                        "unscored(DocSetCollector)": u.len(), "scored(TopDocs)": sc.len(),
                                        "unscored_beyond_slop": wit(&u, &mo.may), "unscored_missed": wit(&mo.must, &u),
                                        "scored_beyond_slop": wit(&sc, &mo.may), "scored_missed": wit(&mo.must, &sc)},
                                    "contradictions": v.detail})),
                            );
                            return;
                        }
                    }
                }
            }
            let (which, ids) = mismatch_class(v);
            if let Some(w) = filter_wrapper_only(v) {
                // every unfiltered path agrees with the oracle: the query is evaluated correctly,
                // a filter wrapper hands on the wrong documents - named after the wrapper, not
                // after the query
                push_violation(
                    rep,
                    format!("mismatch[{w}][{which}]"),
                    with(json!({"expected_matches": if o.must == o.may { json!(o.must.len()) } else { json!([o.must.len(), o.may.len()]) },
                        "contradictions": v.detail, "segments": l.view.searcher.segment_readers().iter().map(|r| json!({"max_doc": r.max_doc(), "has_deletes": r.has_deletes()})).collect::<Vec<_>>()})),
                );
                return;
            }
            let docs: Vec<Value> = ids
                .iter()
                .filter_map(|id| l.corpus.docs.iter().find(|d| d.id == *id))
                .map(|d| json!({"doc": d.json(), "deleted": l.corpus.deleted_ids.contains(&d.id)}))
                .collect();
            push_violation(
                rep,
                format!("mismatch[{}][{which}]", composite_sig(min, l)),
                with(json!({"expected_matches": if o.must == o.may { json!(o.must.len()) } else { json!([o.must.len(), o.may.len()]) },
                    "contradictions": v.detail, "witness_docs": docs})),
            );
        }
    }
}


/// Watchdog: a generated case that never returns (a docset that stops making progress) must not
/// hang the check. After a generous wall-clock limit the run is reported INCONCLUSIVE (exit 2)
/// together with the cases still in flight; it is never reported as "held".
static IN_FLIGHT: std::sync::Mutex<Vec<u64>> = std::sync::Mutex::new(Vec::new());

struct InFlight(u64);
impl InFlight {
    fn enter(case: u64) -> InFlight {
        IN_FLIGHT.lock().unwrap_or_else(|e| e.into_inner()).push(case);
        InFlight(case)
    }
}
impl Drop for InFlight {
    fn drop(&mut self) {
        let mut g = IN_FLIGHT.lock().unwrap_or_else(|e| e.into_inner());
        if let Some(i) = g.iter().position(|c| *c == self.0) {
            g.remove(i);
        }
    }
}

fn start_watchdog(prop: &'static str, limit: std::time::Duration, seed: u64) {
    std::thread::spawn(move || {
        std::thread::sleep(limit);
        let cases = IN_FLIGHT.lock().unwrap_or_else(|e| e.into_inner()).clone();
        println!(
            "INCONCLUSIVE property={prop} watchdog: cases {cases:?} (stream main, seed {seed}) still running after {}s - a call into tantivy does not return (possible non-termination); replay one of them with --replay to investigate",
            limit.as_secs()
        );
        std::process::exit(2);
    });
}

fn run_case(case: u64, rng: &mut Rng, rep: &mut Report, quick: bool) {
    let _in_flight = InFlight::enter(case);
    let cfg = if quick {
        CorpusCfg { max_big: 4600, class_weights: [4, 5, 4, 2, 2] }
    } else {
        CorpusCfg { max_big: 10_000, class_weights: [4, 5, 4, 2, 2] }
    };
    let corpus = gen_corpus(rng, &cfg);
    rep.observe("corpus_class", corpus.class_key());
    rep.count("corpora", 1);
    rep.count("documents_indexed", corpus.docs.len() as u64);
    for ty in 0..NTY {
        rep.observe("cardinality", format!("{}:{}", TY_NAMES[ty], ["none", "full", "optional", "multi"][corpus.card[ty] as usize]));
    }
    let mut built = match guarded(|| build_index(&corpus)) {
        Ok(Ok(b)) => b,
        Ok(Err(e)) => {
            rep.violation("api-error:index-build", json!({"error": e, "corpus": corpus.describe()}));
            return;
        }
        Err(p) => {
            if p.in_harness() {
                rep.harness_error(format!("panic in harness at {}: {}", p.location, p.message));
            } else {
                rep.violation(p.sig(), json!({"panic_location": p.location, "panic_message": p.message, "corpus": corpus.describe()}));
            }
            return;
        }
    };
    let nq = if quick { 90 } else { 220 };
    let gen = QGen { corpus: &corpus, extra_kinds: false, max_depth: 4 };
    let queries: Vec<Q> = (0..nq)
        .map(|i| {
            let depth = match i % 10 {
                0 | 1 => 0,
                2 | 3 | 4 => 1,
                5 | 6 => 2,
                7 | 8 => 3,
                _ => 4,
            };
            if i % 5 == 3 {
                gen.template(rng)
            } else {
                gen.query(rng, depth)
            }
        })
        .collect();
    let live: Vec<&MDoc> = corpus.live().collect();
    let merge_plan = rng.below(4); // 0,1: none  2: all  3: the first two segments
    for round in 0..2 {
        let searcher = built.searcher();
        let nseg = searcher.segment_readers().len();
        let table = match id_table(&searcher) {
            Ok(t) => t,
            Err(e) => {
                rep.violation("api-error:id-column", json!({"error": e}));
                return;
            }
        };
        // the searcher must expose exactly the live documents (every later comparison relies on it)
        let mut alive_ids = BTreeSet::new();
        let mut total_docs = 0usize;
        for (ord, sr) in searcher.segment_readers().iter().enumerate() {
            total_docs += sr.max_doc() as usize;
            for d in 0..sr.max_doc() {
                if sr.alive_bitset().map(|b| b.is_alive(d)).unwrap_or(true) {
                    alive_ids.insert(table[ord][d as usize]);
                }
            }
            rep.observe(
                "segment_shape",
                format!(
                    "docs:{}|deletes:{}",
                    match sr.max_doc() {
                        1 => "1",
                        2..=126 => "2-126",
                        127..=129 => "127-129",
                        130..=4096 => "130-4096",
                        _ => ">4096",
                    },
                    sr.has_deletes()
                ),
            );
        }
        let want: BTreeSet<u64> = live.iter().map(|d| d.id).collect();
        if alive_ids != want {
            rep.violation(
                "setup:live-documents-differ-from-model",
                json!({"corpus": corpus.describe(), "searcher_alive": alive_ids.len(), "model_live": want.len()}),
            );
            return;
        }
        rep.observe("segments", nseg.min(5).to_string());
        let layout = Layout {
            view: View::new(searcher, table, total_docs),
            fields: &built.fields,
            live: live.clone(),
            corpus: &corpus,
            name: if round == 0 { "as-committed" } else if merge_plan == 2 { "merged-all" } else { "merged-two" },
        };
        for (i, q) in queries.iter().enumerate() {
            let t0 = std::time::Instant::now();
            check_pair(rep, &layout, q, case < 2 && round == 0 && i == 7);
            let el = t0.elapsed().as_secs_f64();
            if el > 5.0 {
                rep.note(format!("slow pair ({el:.1}s) case {case} corpus {} query {}", corpus.describe(), q.json()));
                if std::env::var("VERIF_VERBOSE").is_ok() {
                    eprintln!("slow pair ({el:.1}s) case {case} corpus {} query {}", corpus.describe(), q.json());
                }
            }
        }
        drop(layout);
        if round == 1 || merge_plan < 2 {
            break;
        }
        let n = if merge_plan == 2 { None } else { Some(2) };
        match guarded(|| built.merge(n)) {
            Ok(Ok(k)) if k >= 1 => {
                rep.count("merges", 1);
            }
            Ok(Ok(_)) => break,
            Ok(Err(e)) => {
                rep.violation("api-error:merge", json!({"error": e, "corpus": corpus.describe()}));
                return;
            }
            Err(p) => {
                if p.in_harness() {
                    rep.harness_error(format!("panic in harness at {}: {}", p.location, p.message));
                } else {
                    rep.violation(p.sig(), json!({"panic_location": p.location, "panic_message": p.message, "corpus": corpus.describe(), "during": "merge"}));
                }
                return;
            }
        }
    }
}

fn main() {
    let ctx = Ctx::from_env("C03", "exploration");
    let quick = ctx.quick();
    if ctx.replay.is_none() {
        start_watchdog("C03", std::time::Duration::from_secs(std::env::var("VERIF_WATCHDOG_SECS").ok().and_then(|v| v.parse().ok()).unwrap_or(if quick { 240 } else { 1500 })), ctx.seed);
    }
    let n = ctx.scale(64, 900) as u64;
    let t0 = std::time::Instant::now();
    let mut rep = run_cases(&ctx, "main", n, |case, rng, rep| run_case(case, rng, rep, quick));
    rep.count("wall_ms_stream_main", t0.elapsed().as_millis() as u64);
    let t0 = std::time::Instant::now();
    // the ExistsQuery family on its own schema (every fast field kind, JSON sub-paths)
    let nx = ctx.scale(160, 1600) as u64;
    rep.merge(run_cases(&ctx, "exists", nx, |case, rng, rep| c03_util::run_case(case, rng, rep, quick)));
    rep.count("wall_ms_stream_exists", t0.elapsed().as_millis() as u64);
    simple_finish(
        &ctx,
        rep,
        "evaluation = one (corpus layout, query tree) pair run through 23 collector paths (Count, Query::count, DocSetCollector, TopDocs by score and by fast field (limit>=num_docs), MultiCollector unscored/scored, FilterCollector on the id / on the none-full-optional-multivalued i64 field / BytesFilterCollector, each over DocSet / Count / TopDocs by score / TopDocs by fast field / a MultiCollector, tuple collectors) and compared with the naive evaluator over the model documents (ids through the `id` fast field); the counter pairs_with_more_than_64_hits_in_a_segment_without_deletes says how often the block-collection route of the no-score collectors was taken. Phrase and phrase-prefix queries also with position gaps and a non-zero first offset (offset constructors), mostly read off a document. Term-only boolean queries read with frequencies (block-max WAND intersection / union) have their own template. Stream `exists`: own schema with a fast field of every kind (u64 i64 f64 bool date ip bytes, raw / tokenized str, facet) and two JSON fast fields (raw strings; tokenized strings + expand_dots), per-segment cardinality profiles none / full / optional dense / sparse / one document / multi / multi sparse / multi all; ExistsQuery on every field, on the JSON root, every path prefix and near-miss paths with json_subpaths false / true (0..12 columns of mixed cardinality per question and segment, see exists_columns_in_segment), alone and under must / must_not / should / const / boost, oracle = the model document has a non-null leaf at (or, json_subpaths, below) the path; as committed (1..4 segments, deletes) and merged into one segment. Corpora: tiny/small/127-129-257 block/>4096/>8192-doc segments, 1..4 segments, deletes at any commit, optional sort_by_field, optional merge (all / first two) re-run on the same queries; terms in all/none/one/127/128/129/>4096/half of a segment. Non-trivial = the expected result is neither empty nor all live documents; distinct = query-kind tree shape x corpus class x layout.",
        ctx.scale(1000, 20_000),
        &[
            "exists stream: JSON keys are non-empty ascii without control characters; a dot inside a key is one path segment for `js` (queried escaped) and a separator for `jx` (expand_dots); strings of the tokenized JSON / str fast fields always yield at least one token; the empty string counts as a value of the raw str columns; ExistsQuery on the JSON field itself with json_subpaths = false matches nothing (documented on ExistsQuery)",
            "documents are lowercase ascii words joined by single spaces, so the default tokenizer yields exactly the generated tokens (DESIGN.md §4)",
            "phrase slop: a match is demanded when both the sum of adjacent gaps and the sum of per-term moves are <= slop, a non-match when the spread of (position - offset) exceeds slop; in between (documentation open) only agreement between collectors is demanded; repeated terms are not generated under slop",
            "fuzzy queries whose answer would differ between optimal-string-alignment and unrestricted Damerau distance are generated with transposition_cost_one = false",
            "f64 values exclude NaN and -0.0, dates are whole seconds, RangeQuery always has at least one bound (documented precondition)",
            "regex patterns use literals . * + ? | () [a-z] only and are checked with the regex crate anchored at both ends",
        ],
    );
}
