//! Comparison of an expected pattern (`Exp`) with the JSON tantivy produced.
use std::collections::BTreeSet;

use serde_json::Value;

use super::model::Ty;
use super::oracle::*;
use super::req::OrdT;

#[derive(Clone, Debug)]
pub struct Mis {
    /// path of aggregation kinds (digits stripped), e.g. `terms>hist>avg`
    pub path: String,
    /// what differs: doc_count / key / value / keys / bucket-set / order / ...
    pub what: String,
    pub detail: String,
    /// name of the top level aggregation in which the mismatch occurred
    pub top: String,
}

pub struct Cmp {
    pub out: Vec<Mis>,
    path: Vec<String>,
}

fn kind_of(name: &str) -> String {
    // aggregation names are `<kind>_<n>`; bucket keys and property names are kept out of paths
    match name.rsplit_once('_') {
        Some((k, n)) if !n.is_empty() && n.chars().all(|c| c.is_ascii_digit()) => k.to_string(),
        _ => String::new(),
    }
}

fn trunc(s: String) -> String {
    if s.len() > 600 {
        format!("{}…", s.chars().take(600).collect::<String>())
    } else {
        s
    }
}

impl Cmp {
    pub fn new() -> Cmp {
        Cmp {
            out: vec![],
            path: vec![],
        }
    }

    fn kpath(&self) -> String {
        let v: Vec<String> = self.path.iter().map(|n| kind_of(n)).filter(|k| !k.is_empty()).collect();
        v.join(">")
    }

    fn leaf(&self) -> String {
        self.path
            .iter()
            .rev()
            .find(|n| kind_of(n).is_empty() && !n.starts_with('['))
            .cloned()
            .unwrap_or_default()
    }

    fn mis(&mut self, what: &str, detail: String) {
        if self.out.len() < 8 {
            let top = self.path.iter().find(|n| !kind_of(n).is_empty()).cloned().unwrap_or_default();
            self.out.push(Mis {
                path: self.kpath(),
                what: what.to_string(),
                detail: trunc(format!("at {}: {}", self.path.join("/"), detail)),
                top,
            });
        }
    }

    fn what_for_leaf(&self) -> String {
        let l = self.leaf();
        if l.is_empty() {
            "value".to_string()
        } else if l.chars().any(|c| c.is_ascii_digit()) || l.len() > 28 {
            // bucket keys of keyed buckets / percentile names
            "keyed-entry".to_string()
        } else {
            l
        }
    }

    pub fn cmp(&mut self, exp: &Exp, got: &Value) {
        if self.out.len() >= 8 {
            return;
        }
        match exp {
            Exp::Null => {
                if !got.is_null() {
                    let w = self.what_for_leaf();
                    self.mis(&w, format!("expected null, got {got}"));
                }
            }
            Exp::Bool(b) => {
                if got.as_bool() != Some(*b) {
                    let w = self.what_for_leaf();
                    self.mis(&w, format!("expected {b}, got {got}"));
                }
            }
            Exp::Str(s) => {
                if got.as_str() != Some(s.as_str()) {
                    let w = self.what_for_leaf();
                    self.mis(&w, format!("expected {s:?}, got {got}"));
                }
            }
            Exp::Int(i) => {
                let ok = match got {
                    Value::Number(n) => {
                        if let Some(x) = n.as_i64() {
                            x as i128 == *i
                        } else if let Some(x) = n.as_u64() {
                            x as i128 == *i
                        } else {
                            let f = n.as_f64().unwrap_or(f64::NAN);
                            f == *i as f64 && f.abs() < 9.0e15
                        }
                    }
                    _ => false,
                };
                if !ok {
                    let w = self.what_for_leaf();
                    self.mis(&w, format!("expected {i}, got {got}"));
                }
            }
            Exp::Num(x) => {
                if got.as_f64() != Some(*x) {
                    let w = self.what_for_leaf();
                    self.mis(&w, format!("expected {x:?}, got {got}"));
                }
            }
            Exp::Approx { v, tol } => {
                let ok = got.as_f64().map(|g| (g - v).abs() <= *tol).unwrap_or(false);
                if !ok {
                    let w = self.what_for_leaf();
                    self.mis(&w, format!("expected {v:?} ± {tol:e}, got {got}"));
                }
            }
            Exp::Card(n) => {
                let nf = *n as f64;
                let tol = if *n <= 150 { 1.0 + 0.05 * nf } else { 2.0 + 0.12 * nf };
                let ok = got.as_f64().map(|g| (g - nf).abs() <= tol).unwrap_or(false);
                if !ok {
                    self.mis("cardinality", format!("true cardinality {n} (tolerance {tol}), got {got}"));
                }
            }
            Exp::Obj(m) => {
                let Some(g) = got.as_object() else {
                    let w = self.what_for_leaf();
                    self.mis(&w, format!("expected an object, got {got}"));
                    return;
                };
                let ek: BTreeSet<&String> = m.keys().collect();
                let gk: BTreeSet<&String> = g.keys().collect();
                if ek != gk {
                    let missing: Vec<&&String> = ek.difference(&gk).take(6).collect();
                    let extra: Vec<&&String> = gk.difference(&ek).take(6).collect();
                    self.mis("keys", format!("missing keys {missing:?}, unexpected keys {extra:?}"));
                    return;
                }
                for (k, e) in m {
                    self.path.push(k.clone());
                    self.cmp(e, &g[k]);
                    self.path.pop();
                }
            }
            Exp::Arr(a) => {
                let Some(g) = got.as_array() else {
                    let w = self.what_for_leaf();
                    self.mis(&w, format!("expected an array, got {got}"));
                    return;
                };
                if g.len() != a.len() {
                    let w = format!("{}-len", self.what_for_leaf());
                    self.mis(&w, format!("expected {} entries, got {}: {}", a.len(), g.len(), got));
                    return;
                }
                for (i, e) in a.iter().enumerate() {
                    self.path.push(format!("[{i}]"));
                    self.cmp(e, &g[i]);
                    self.path.pop();
                }
            }
            Exp::Bag(a) => {
                let Some(g) = got.as_array() else {
                    self.mis("docvalues", format!("expected an array, got {got}"));
                    return;
                };
                let mut used = vec![false; g.len()];
                let mut ok = g.len() == a.len();
                if ok {
                    for e in a {
                        let mut found = false;
                        for (i, gv) in g.iter().enumerate() {
                            if used[i] {
                                continue;
                            }
                            let mut c = Cmp::new();
                            c.cmp(e, gv);
                            if c.out.is_empty() {
                                used[i] = true;
                                found = true;
                                break;
                            }
                        }
                        if !found {
                            ok = false;
                            break;
                        }
                    }
                }
                if !ok {
                    self.mis("docvalues", format!("expected multiset {a:?}, got {got}"));
                }
            }
            Exp::AnyOf(alts) => {
                let mut first: Option<Vec<Mis>> = None;
                for a in alts {
                    let mut c = Cmp::new();
                    c.path = self.path.clone();
                    c.cmp(a, got);
                    if c.out.is_empty() {
                        return;
                    }
                    if first.is_none() {
                        first = Some(c.out);
                    }
                }
                if let Some(f) = first {
                    for m in f {
                        if self.out.len() < 8 {
                            self.out.push(m);
                        }
                    }
                }
            }
            Exp::Terms(t) => self.cmp_terms(t, got),
        }
    }

    fn cmp_terms(&mut self, t: &TermsExp, got: &Value) {
        let Some(g) = got.as_object() else {
            self.mis("terms-shape", format!("expected an object, got {got}"));
            return;
        };
        let Some(gb) = g.get("buckets").and_then(|b| b.as_array()) else {
            self.mis("terms-shape", format!("no buckets array in {got}"));
            return;
        };
        let sum_other = g.get("sum_other_doc_count").and_then(|v| v.as_u64());
        let err = g.get("doc_count_error_upper_bound");
        if t.show_err != err.is_some() {
            self.mis(
                "doc_count_error_upper_bound-presence",
                format!("show_term_doc_count_error resolves to {}, field present: {}", t.show_err, err.is_some()),
            );
        }
        let extra: Vec<&String> = g
            .keys()
            .filter(|k| !matches!(k.as_str(), "buckets" | "sum_other_doc_count" | "doc_count_error_upper_bound"))
            .collect();
        if !extra.is_empty() {
            self.mis("keys", format!("unexpected keys {extra:?}"));
        }
        if t.approx {
            // documented bounds only
            let bound = err.and_then(|v| v.as_u64()).unwrap_or(0);
            let mut returned = 0u64;
            let mut seen = BTreeSet::new();
            for b in gb {
                let ck = ckey_json(&b["key"]);
                let dc = b["doc_count"].as_u64().unwrap_or(u64::MAX);
                returned = returned.saturating_add(dc);
                if !seen.insert(ck.clone()) {
                    self.mis("duplicate-bucket", format!("key {ck} returned twice"));
                }
                match t.truth.get(&ck) {
                    None => self.mis("bucket-set", format!("returned key {ck} does not occur in the documents")),
                    Some(&truth) => {
                        if dc > truth {
                            self.mis("doc_count-above-truth", format!("key {ck}: doc_count {dc} > true {truth}"));
                        } else if truth > dc + bound {
                            self.mis(
                                "doc_count_error_upper_bound",
                                format!("key {ck}: true {truth} > doc_count {dc} + bound {bound}"),
                            );
                        }
                    }
                }
            }
            if gb.len() > t.size {
                self.mis("size", format!("{} buckets returned, size {}", gb.len(), t.size));
            }
            if gb.len() < t.size.min(t.truth.len().min(1)) {
                self.mis("size", format!("{} buckets returned although terms exist", gb.len()));
            }
            let total: u64 = t.truth.values().sum();
            if sum_other.map(|s| s + returned) != Some(total) {
                self.mis(
                    "sum_other_doc_count",
                    format!("returned {returned} + sum_other {sum_other:?} != total term occurrences {total}"),
                );
            }
            return;
        }
        let n = t.buckets.len().min(t.size);
        if gb.len() != n {
            let gk: Vec<String> = gb.iter().take(20).map(|b| ckey_json(&b["key"])).collect();
            let ek: Vec<&String> = t.buckets.iter().take(20).map(|b| &b.ckey).collect();
            self.mis(
                "bucket-set",
                format!("expected {n} buckets ({} eligible, size {}), got {}: got keys {gk:?}, expected (in order) {ek:?}", t.buckets.len(), t.size, gb.len()),
            );
            return;
        }
        let mut seen = BTreeSet::new();
        let mut returned = 0u64;
        let mut order_bad: Option<String> = None;
        for (i, b) in gb.iter().enumerate() {
            let ck = ckey_json(&b["key"]);
            if !seen.insert(ck.clone()) {
                self.mis("duplicate-bucket", format!("key {ck} returned twice"));
                continue;
            }
            let Some(e) = t.buckets.iter().find(|e| e.ckey == ck) else {
                let ek: Vec<&String> = t.buckets.iter().take(20).map(|b| &b.ckey).collect();
                self.mis("bucket-set", format!("unexpected bucket key {ck}; eligible keys {ek:?}"));
                continue;
            };
            returned += e.doc_count;
            // order: the i-th returned bucket must carry the i-th sort value
            let ei = &t.buckets[i];
            match &t.order {
                OrdT::Count => {
                    if e.doc_count != ei.doc_count && order_bad.is_none() {
                        order_bad = Some(format!("position {i}: key {ck} has count {}, expected a bucket with count {}", e.doc_count, ei.doc_count));
                    }
                }
                OrdT::Key => {
                    if e.ckey != ei.ckey && order_bad.is_none() {
                        order_bad = Some(format!("position {i}: key {ck}, expected {}", ei.ckey));
                    }
                }
                OrdT::Sub(..) => {
                    let (x, y) = (e.metric.unwrap_or(f64::MIN), ei.metric.unwrap_or(f64::MIN));
                    if (x - y).abs() > e.metric_tol + ei.metric_tol + 1e-9 * x.abs().max(y.abs()).min(1e300) && order_bad.is_none() {
                        order_bad = Some(format!("position {i}: key {ck} has metric {x}, expected metric {y}"));
                    }
                }
            }
            self.path.push(format!("[{i}]"));
            // bucket contents
            let mut m = e.subs.clone();
            m.insert("key".into(), e.key.clone());
            m.insert("doc_count".into(), Exp::Int(e.doc_count as i128));
            if let Some(k) = &e.key_as_string {
                m.insert("key_as_string".into(), Exp::Str(k.clone()));
            }
            // keys are compared through their canonical form (2 and 2.0 are the same key)
            m.insert("key".into(), Exp::AnyOf(vec![e.key.clone(), key_from_json(&b["key"], &e.ckey)]));
            self.cmp(&Exp::Obj(m), b);
            self.path.pop();
        }
        if let Some(d) = order_bad {
            let gk: Vec<String> = gb.iter().take(30).map(|b| ckey_json(&b["key"])).collect();
            let what = if matches!(t.order, OrdT::Key) && t.field_ty == Ty::F64 && t.mixed_f64_keys {
                "order-key-f64-mixed"
            } else {
                "order"
            };
            self.mis(what, format!("{d}; asc={} got keys {gk:?}", t.asc));
        }
        let eligible: u64 = t.buckets.iter().map(|b| b.doc_count).sum();
        if sum_other != Some(eligible - returned.min(eligible)) {
            self.mis(
                "sum_other_doc_count",
                format!("expected {} (eligible {eligible} - returned {returned}), got {sum_other:?}", eligible - returned.min(eligible)),
            );
        }
        if t.show_err {
            if let Some(e) = err {
                if t.maybe_cut {
                    // a segment may have cut buckets: any upper bound is correct (the counts
                    // themselves are compared exactly above)
                    if e.as_u64().is_none() {
                        self.mis("doc_count_error_upper_bound", format!("expected an unsigned integer, got {e}"));
                    }
                } else if e.as_u64() != Some(0) {
                    self.mis("doc_count_error_upper_bound", format!("nothing was cut per segment, expected 0, got {e}"));
                }
            }
        }
    }
}

/// accepts the returned key when it is canonically equal to the expected one
fn key_from_json(got: &Value, expected_ckey: &str) -> Exp {
    if ckey_json(got) == expected_ckey {
        match got {
            Value::String(s) => Exp::Str(s.clone()),
            Value::Number(n) => {
                if let Some(i) = n.as_i64() {
                    Exp::Int(i as i128)
                } else if let Some(u) = n.as_u64() {
                    Exp::Int(u as i128)
                } else {
                    Exp::Num(n.as_f64().unwrap_or(f64::NAN))
                }
            }
            _ => Exp::Null,
        }
    } else {
        Exp::Str(format!("<key canonically equal to {expected_ckey}>"))
    }
}
