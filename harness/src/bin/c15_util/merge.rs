// merge stream (included into c15.rs)

use tantivy_columnar::{
    BytesColumn, ColumnarReader, ColumnarWriter, DynamicColumn, MergeRowOrder, StackMergeOrder,
};
use tantivy_sstable::merge::{KeepFirst, U64Merge};
use tantivy_sstable::VoidMerge;

/// k subsets of a universe with varied overlap structure.
fn gen_subsets(rng: &mut Rng, universe: usize, k: usize) -> Vec<Vec<usize>> {
    let mode = rng.below(6);
    let mut out = vec![];
    for i in 0..k {
        let s: Vec<usize> = (0..universe)
            .filter(|&u| match mode {
                0 => true,                         // identical inputs
                1 => u % k == i,                   // disjoint, interleaved
                2 => u * k / universe.max(1) == i, // disjoint, consecutive runs
                3 => u % (i + 1) == 0,             // nested
                4 => i == 0 || rng.chance(1, 20),  // one big, others sparse
                _ => rng.bool(),
            })
            .collect();
        out.push(if rng.chance(1, 12) { vec![] } else { s });
    }
    out
}

fn merge_sst(case: u64, rng: &mut Rng, rep: &mut Report) {
    let k = rng.urange(1, 6);
    let un = *rng.pick(&[0usize, 1, 2, 10, 100, 300, 1000, 1500, 3000]);
    let (ukeys, class) = gen_keys(rng, un);
    let un = ukeys.len();
    let mut subsets = gen_subsets(rng, un, k);
    let flavour = rng.below(3); // 0 void, 1 u64 sum, 2 u64 keep-first
    let fl_name = ["void+VoidMerge", "u64mono+U64Merge", "u64mono+KeepFirst"][flavour as usize];
    // values: per-input non-decreasing, merged result non-decreasing (the codec's contract)
    let mut in_vals: Vec<Vec<u64>> = subsets.iter().map(|s| Vec::with_capacity(s.len())).collect();
    let mut merged_expect: BTreeMap<Vec<u8>, u64> = BTreeMap::new();
    {
        let mut cursor = vec![0usize; k];
        let mut last = vec![0u64; k];
        let mut last_total = 0u64;
        let mut rank_val = 0u64;
        for u in 0..un {
            let members: Vec<usize> = (0..k).filter(|&i| subsets[i].get(cursor[i]) == Some(&u)).collect();
            if members.is_empty() {
                continue;
            }
            // summed values must stay non-decreasing per input AND in the merged output, which
            // can force the values to grow geometrically: stop the inputs here before u64 is at risk
            if last_total > (1 << 48) {
                for i in 0..k {
                    subsets[i].truncate(cursor[i]);
                }
                break;
            }
            rank_val += rng.below(50);
            let mut total = 0u64;
            let mut assigned = vec![];
            for &i in &members {
                let v = if flavour == 2 { rank_val } else { last[i] + rng.below(4) };
                assigned.push(v);
                total += v;
            }
            if flavour == 1 && total < last_total {
                let bump = last_total - total;
                let j = rng.usize_below(assigned.len());
                assigned[j] += bump;
                total += bump;
            }
            for (&i, &v) in members.iter().zip(&assigned) {
                in_vals[i].push(v);
                last[i] = v;
                cursor[i] += 1;
            }
            last_total = total;
            merged_expect.insert(ukeys[u].clone(), match flavour { 1 => total, 2 => rank_val, _ => 0 });
        }
    }
    // build the inputs through the real writer
    let mut inputs: Vec<OwnedBytes> = vec![];
    let mut in_lens = vec![];
    for i in 0..k {
        let keys: Vec<Vec<u8>> = subsets[i].iter().map(|&u| ukeys[u].clone()).collect();
        let bl = pick_block_len(rng);
        let r = if flavour == 0 {
            build_sst::<VoidSSTable>(&keys, &vec![(); keys.len()], bl)
        } else {
            build_sst::<MonotonicU64SSTable>(&keys, &in_vals[i], bl)
        };
        match r {
            Ok(b) => inputs.push(OwnedBytes::new(b)),
            Err(e) => {
                viol(rep, "sst:api-error:build", json!({"where": "merge input", "error": e}));
                return;
            }
        }
        in_lens.push(keys.len());
    }
    rep.eval();
    rep.count("sst_merges", 1);
    rep.observe("merge_kind", format!("sstable:{fl_name}"));
    rep.observe("merge_inputs", k.to_string());
    let mut out = Vec::new();
    let r = match flavour {
        0 => VoidSSTable::merge(inputs, &mut out, VoidMerge),
        1 => MonotonicU64SSTable::merge(inputs, &mut out, U64Merge),
        _ => MonotonicU64SSTable::merge(inputs, &mut out, KeepFirst),
    };
    let info = json!({"target": "SSTable::merge", "flavour": fl_name, "inputs": in_lens, "universe": un, "key_class": class});
    if let Err(e) = r {
        viol(rep, "sst-merge:api-error:merge", json!({"error": e.to_string(), "dict": info}));
        return;
    }
    let exp_keys: Vec<Vec<u8>> = merged_expect.keys().cloned().collect();
    let mut fails = Fails::new();
    let mut nblocks = 0;
    if flavour == 0 {
        match Dictionary::<VoidSSTable>::from_bytes(OwnedBytes::new(out)) {
            Ok(d) => {
                nblocks = block_first_ordinals(&d).len();
                if d.num_terms() != exp_keys.len() {
                    fails.add("sst-merge:num_terms", json!({"got": d.num_terms(), "expected": exp_keys.len()}));
                }
                match d.stream() {
                    Ok(s) => {
                        let got = drain_sst(s);
                        let vals = vec![(); exp_keys.len()];
                        let expected: Vec<usize> = (0..exp_keys.len()).collect();
                        cmp_stream(&mut fails, "sst-merge:union", "sst-merge:wrong-term_ord", &got, &expected, &exp_keys, &vals, None, json!("stream() of merged"));
                    }
                    Err(e) => fails.add("sst-merge:api-error:stream", json!(e.to_string())),
                }
            }
            Err(e) => fails.add("sst-merge:api-error:open", json!(e.to_string())),
        }
    } else {
        match Dictionary::<MonotonicU64SSTable>::from_bytes(OwnedBytes::new(out)) {
            Ok(d) => {
                nblocks = block_first_ordinals(&d).len();
                if d.num_terms() != exp_keys.len() {
                    fails.add("sst-merge:num_terms", json!({"got": d.num_terms(), "expected": exp_keys.len()}));
                }
                let vals: Vec<u64> = merged_expect.values().copied().collect();
                match d.stream() {
                    Ok(s) => {
                        let got = drain_sst(s);
                        let expected: Vec<usize> = (0..exp_keys.len()).collect();
                        cmp_stream(&mut fails, "sst-merge:union", "sst-merge:wrong-term_ord", &got, &expected, &exp_keys, &vals, None, json!("stream() of merged"));
                    }
                    Err(e) => fails.add("sst-merge:api-error:stream", json!(e.to_string())),
                }
                for _ in 0..10 {
                    if exp_keys.is_empty() {
                        break;
                    }
                    let i = rng.usize_below(exp_keys.len());
                    match d.get(&exp_keys[i]) {
                        Ok(v) if v == Some(vals[i]) => {}
                        other => fails.add("sst-merge:get", json!({"key": brief(&exp_keys[i]), "got": format!("{other:?}"), "expected": vals[i]})),
                    }
                }
            }
            Err(e) => fails.add("sst-merge:api-error:open", json!(e.to_string())),
        }
    }
    rep.observe("merge_output_blocks", bucket(nblocks));
    let shared = {
        let mut seen = BTreeSet::new();
        subsets.iter().flatten().any(|u| !seen.insert(*u))
    };
    if shared && subsets.iter().filter(|s| !s.is_empty()).count() >= 2 {
        rep.nontrivial(format!("merge|sst|{fl_name}|{class}|{in_lens:?}|b{nblocks}"));
    }
    if case < 2 {
        rep.sample(json!({"stream": "merge", "dict": info, "merged_terms": exp_keys.len(), "output_blocks": nblocks}));
    }
    for (sig, d) in fails.v {
        viol(rep, sig, json!({"detail": d, "witness": dict_witness(&exp_keys, &info)}));
    }
}

/// tantivy::termdict::TermMerger over k fst term dictionaries: sorted union + (input, old ordinal)
fn merge_termmerger(rng: &mut Rng, rep: &mut Report) {
    let k = rng.urange(1, 6);
    let un = *rng.pick(&[0usize, 1, 2, 10, 100, 300, 600, 1000]);
    let (ukeys, class) = gen_keys(rng, un);
    let un = ukeys.len();
    let subsets = gen_subsets(rng, un, k);
    let mut dicts = vec![];
    let mut all_vals = vec![];
    for s in &subsets {
        let keys: Vec<Vec<u8>> = s.iter().map(|&u| ukeys[u].clone()).collect();
        let vals = gen_term_infos(rng, keys.len());
        let d = build_fst(&keys, &vals).and_then(|b| TermDictionary::open(FileSlice::from(b)).map_err(|e| e.to_string()));
        match d {
            Ok(d) => dicts.push(d),
            Err(e) => {
                viol(rep, "fst:api-error:build", json!({"where": "TermMerger input", "error": e}));
                return;
            }
        }
        all_vals.push(vals);
    }
    rep.eval();
    rep.count("term_mergers", 1);
    rep.observe("merge_kind", "termdict::TermMerger");
    rep.observe("merge_inputs", k.to_string());
    // expected: for each key of the union, the (input, old ordinal) pairs sorted by input
    let mut expect: BTreeMap<Vec<u8>, Vec<(usize, u64)>> = BTreeMap::new();
    for (i, s) in subsets.iter().enumerate() {
        for (old, &u) in s.iter().enumerate() {
            expect.entry(ukeys[u].clone()).or_default().push((i, old as u64));
        }
    }
    let info = json!({"target": "termdict::TermMerger", "inputs": subsets.iter().map(|s| s.len()).collect::<Vec<_>>(), "key_class": class});
    let mut streams = vec![];
    for d in &dicts {
        match d.stream() {
            Ok(s) => streams.push(s),
            Err(e) => {
                viol(rep, "fst:api-error:stream", json!(e.to_string()));
                return;
            }
        }
    }
    let mut got: Vec<(Vec<u8>, Vec<(usize, u64)>, Vec<(usize, TermInfo)>)> = vec![];
    {
        let mut merger = tantivy::termdict::TermMerger::new(streams);
        while merger.advance() {
            let segs: Vec<(usize, u64)> = merger.matching_segments().collect();
            let infos: Vec<(usize, TermInfo)> = merger.current_segment_ords_and_term_infos().collect();
            got.push((merger.key().to_vec(), segs, infos));
        }
    }
    let mut fails = Fails::new();
    if got.len() != expect.len() {
        fails.add("termmerger:wrong-number-of-keys", json!({"got": got.len(), "expected": expect.len()}));
    } else {
        for ((gk, gs, gi), (ek, es)) in got.iter().zip(expect.iter()) {
            if gk != ek {
                fails.add("termmerger:wrong-key", json!({"got": brief(gk), "expected": brief(ek)}));
                break;
            }
            if gs != es {
                fails.add("termmerger:wrong-old-ordinals", json!({"key": brief(gk), "got": gs, "expected": es}));
                break;
            }
            let ei: Vec<(usize, TermInfo)> = es.iter().map(|&(i, o)| (i, all_vals[i][o as usize].clone())).collect();
            if gi != &ei {
                fails.add("termmerger:wrong-term-infos", json!({"key": brief(gk), "got": format!("{gi:?}"), "expected": format!("{ei:?}")}));
                break;
            }
        }
    }
    if expect.values().any(|v| v.len() >= 2) {
        rep.nontrivial(format!("merge|termmerger|{class}|{:?}", subsets.iter().map(|s| s.len()).collect::<Vec<_>>()));
    }
    let exp_keys: Vec<Vec<u8>> = expect.keys().cloned().collect();
    for (sig, d) in fails.v {
        viol(rep, sig, json!({"detail": d, "witness": dict_witness(&exp_keys, &info)}));
    }
}

/// columnar: per-segment old->new ordinal maps and the merged dictionary-encoded column
fn merge_columnar_case(rng: &mut Rng, rep: &mut Report) {
    let k = rng.urange(1, 6);
    let un = *rng.pick(&[1usize, 2, 10, 100, 400, 1200]);
    let as_str = rng.bool();
    let (ukeys, class) = if as_str {
        // valid UTF-8 for record_str
        let mut set = BTreeSet::new();
        for _ in 0..un * 3 + 4 {
            if set.len() >= un {
                break;
            }
            set.insert(word(rng, 4));
        }
        if rng.chance(1, 4) {
            set.insert(vec![]);
        }
        (set.into_iter().collect::<Vec<_>>(), "words".to_string())
    } else {
        gen_keys(rng, un)
    };
    if ukeys.is_empty() {
        return;
    }
    let un = ukeys.len();
    let mode = rng.below(3);
    // rows[i][row] = universe indices recorded for that row, in recording order
    let mut rows: Vec<Vec<Vec<usize>>> = vec![];
    for i in 0..k {
        let nrows = *rng.pick(&[1usize, 3, 50, 400, 1500]);
        let multi = rng.chance(1, 3);
        let seg_rows: Vec<Vec<usize>> = (0..nrows)
            .map(|r| {
                let cnt = if multi { rng.urange(0, 3) } else if rng.chance(1, 10) { 0 } else { 1 };
                (0..cnt)
                    .map(|_| match mode {
                        0 => rng.usize_below(un),
                        1 => (rng.usize_below(un) / k * k + i).min(un - 1), // mostly disjoint per segment
                        _ => (r + i) % un,
                    })
                    .collect()
            })
            .collect();
        rows.push(seg_rows);
    }
    let mut readers = vec![];
    for seg_rows in &rows {
        let mut w = ColumnarWriter::default();
        for (r, vals) in seg_rows.iter().enumerate() {
            for &u in vals {
                if as_str {
                    w.record_str(r as u32, "c", std::str::from_utf8(&ukeys[u]).expect("c15 harness: utf8"));
                } else {
                    w.record_bytes(r as u32, "c", &ukeys[u]);
                }
            }
        }
        let mut buf = Vec::new();
        if let Err(e) = w.serialize(seg_rows.len() as u32, None, &mut buf) {
            viol(rep, "columnar:api-error:serialize", json!(e.to_string()));
            return;
        }
        match ColumnarReader::open(buf) {
            Ok(r) => readers.push(r),
            Err(e) => {
                viol(rep, "columnar:api-error:open", json!(e.to_string()));
                return;
            }
        }
    }
    rep.eval();
    rep.count("columnar_merges", 1);
    rep.observe("merge_kind", if as_str { "columnar:str" } else { "columnar:bytes" });
    rep.observe("merge_inputs", k.to_string());
    let open_col = |r: &ColumnarReader| -> Result<Option<BytesColumn>, String> {
        let hs = r.read_columns("c").map_err(|e| e.to_string())?;
        for h in hs {
            match h.open().map_err(|e| e.to_string())? {
                DynamicColumn::Bytes(b) => return Ok(Some(b)),
                DynamicColumn::Str(s) => return Ok(Some(s.into())),
                _ => {}
            }
        }
        Ok(None)
    };
    let info = json!({"target": "columnar dictionary merge", "str": as_str, "segments": rows.iter().map(|r| r.len()).collect::<Vec<_>>(), "universe": un, "key_class": class});
    let mut fails = Fails::new();
    // per-segment dictionaries as the oracle sees them
    let seg_terms: Vec<Vec<usize>> = rows
        .iter()
        .map(|sr| sr.iter().flatten().copied().collect::<BTreeSet<_>>().into_iter().collect())
        .collect();
    let union: Vec<usize> = seg_terms.iter().flatten().copied().collect::<BTreeSet<_>>().into_iter().collect();
    let new_ord: BTreeMap<usize, u64> = union.iter().enumerate().map(|(o, &u)| (u, o as u64)).collect();
    let mut cols = vec![];
    let mut col_seg = vec![];
    for (i, r) in readers.iter().enumerate() {
        match open_col(r) {
            Ok(Some(c)) => {
                // the segment's own dictionary first
                if c.num_terms() != seg_terms[i].len() {
                    fails.add("columnar:segment-dictionary-size", json!({"segment": i, "got": c.num_terms(), "expected": seg_terms[i].len()}));
                }
                cols.push(c);
                col_seg.push(i);
            }
            Ok(None) => {
                if !seg_terms[i].is_empty() {
                    fails.add("columnar:column-missing", json!({"segment": i}));
                }
            }
            Err(e) => {
                viol(rep, "columnar:api-error:open-column", json!(e));
                return;
            }
        }
    }
    if !cols.is_empty() {
        match tantivy_columnar::compute_merged_term_ord_mapping(&cols) {
            Ok(maps) => {
                if maps.len() != cols.len() {
                    fails.add("columnar:ord-map:wrong-number-of-maps", json!({"got": maps.len(), "expected": cols.len()}));
                } else {
                    'outer: for (ci, m) in maps.iter().enumerate() {
                        let seg = col_seg[ci];
                        let exp: Vec<u64> = seg_terms[seg].iter().map(|u| new_ord[u]).collect();
                        // the union passed to the function only contains the present columns,
                        // which is the same union (absent columns contribute nothing)
                        if m != &exp {
                            let pos = m.iter().zip(&exp).position(|(a, b)| a != b);
                            fails.add("columnar:ord-map:wrong-old-to-new-ordinal", json!({"segment": seg, "first_difference_at_old_ord": pos,
                                "got_len": m.len(), "expected_len": exp.len(),
                                "got": pos.map(|p| m[p]), "expected": pos.map(|p| exp[p])}));
                            break 'outer;
                        }
                    }
                }
            }
            Err(e) => fails.add("columnar:api-error:compute_merged_term_ord_mapping", json!(e.to_string())),
        }
    }
    // full merge, stacked
    let reader_refs: Vec<&ColumnarReader> = readers.iter().collect();
    let order = MergeRowOrder::Stack(StackMergeOrder::stack(&reader_refs));
    let mut out = Vec::new();
    match tantivy_columnar::merge_columnar(&reader_refs, &[], order, &mut out) {
        Err(e) => fails.add("columnar:api-error:merge_columnar", json!(e.to_string())),
        Ok(()) => match ColumnarReader::open(out).map_err(|e| e.to_string()).and_then(|r| open_col(&r)) {
            Err(e) => fails.add("columnar:api-error:open-merged", json!(e)),
            Ok(None) => {
                if !union.is_empty() {
                    fails.add("columnar:merged-column-missing", json!({}));
                }
            }
            Ok(Some(mc)) => {
                // merged dictionary = sorted union
                let mut got_terms = vec![];
                match mc.dictionary().stream() {
                    Ok(mut s) => {
                        while s.advance() {
                            got_terms.push((s.key().to_vec(), s.term_ord()));
                        }
                    }
                    Err(e) => fails.add("columnar:api-error:stream", json!(e.to_string())),
                }
                let exp_terms: Vec<(Vec<u8>, u64)> = union.iter().enumerate().map(|(o, &u)| (ukeys[u].clone(), o as u64)).collect();
                if got_terms != exp_terms {
                    let pos = got_terms.iter().zip(&exp_terms).position(|(a, b)| a != b);
                    fails.add("columnar:merged-dictionary-not-sorted-union", json!({"got_len": got_terms.len(), "expected_len": exp_terms.len(), "first_difference_at": pos}));
                } else {
                    // every row still points at its terms, through the new ordinals
                    let mut row = 0u32;
                    'rows: for sr in &rows {
                        for vals in sr {
                            let mut got: Vec<u64> = mc.term_ords(row).collect();
                            let mut exp: Vec<u64> = vals.iter().map(|u| new_ord[u]).collect();
                            got.sort();
                            exp.sort();
                            if got != exp {
                                fails.add("columnar:merged-row-ordinals", json!({"merged_row": row, "got": got, "expected": exp}));
                                break 'rows;
                            }
                            row += 1;
                        }
                    }
                    if mc.num_rows() != rows.iter().map(|r| r.len() as u32).sum::<u32>() {
                        fails.add("columnar:merged-num-rows", json!({"got": mc.num_rows()}));
                    }
                }
                rep.observe("merge_output_blocks", bucket(block_first_ordinals(mc.dictionary()).len()));
            }
        },
    }
    let shared = seg_terms.iter().map(|s| s.len()).sum::<usize>() > union.len();
    if shared && cols.len() >= 2 {
        rep.nontrivial(format!("merge|columnar|{as_str}|{class}|{:?}|u{}", rows.iter().map(|r| r.len()).collect::<Vec<_>>(), union.len()));
    }
    let exp_keys: Vec<Vec<u8>> = union.iter().map(|&u| ukeys[u].clone()).collect();
    for (sig, d) in fails.v {
        viol(rep, sig, json!({"detail": d, "witness": dict_witness(&exp_keys, &info)}));
    }
}

fn merge_case(case: u64, rng: &mut Rng, rep: &mut Report) {
    match rng.weighted(&[5, 3, 3]) {
        0 => merge_sst(case, rng, rep),
        1 => merge_termmerger(rng, rep),
        _ => merge_columnar_case(rng, rep),
    }
}
