#!/bin/bash
# Runs every seeded change (/verif/seeded/<name>/patch.diff) against the check of the property
# it breaks, on a scratch copy of /repo (never /repo itself), and prints caught / MISSED.
#   scripts/seeded_run.sh [name-glob] [tier]
glob=${1:-*}; tier=${2:-quick}
cd /verif || exit 2
pass=0; miss=0
for d in seeded/$glob/; do
  [ -f "$d/patch.diff" ] || continue
  name=$(basename "$d")
  id=$(jq -r .property "$d/meta.json")
  out=$(scripts/mutant_run.sh "$PWD/$d/patch.diff" "$id" "$tier" 2>&1)
  if grep -q "^VIOLATION property=$id" <<<"$out"; then
    sig=$(grep -m1 "violation sig=" <<<"$out" | sed -E 's/.*violation sig=([^ ]+).*/\1/')
    echo "caught  $name  ($id, $tier)  first signature: $sig"; pass=$((pass+1))
  else
    echo "MISSED  $name  ($id, $tier)  $(grep -E "^$id tier=|MUTANT BUILD FAILED|patch does not apply" <<<"$out" | tail -1)"; miss=$((miss+1))
  fi
done
echo "caught=$pass missed=$miss"
