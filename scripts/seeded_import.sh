#!/bin/bash
# seeded_import.sh <ID> : copies /tmp/mwt-<ID>/out/{patch,demo,meta}* into /verif/seeded/<id>-<k>/
id=$1; lid=$(echo $id | tr A-Z a-z)
src=/tmp/mwt-$id/out
[ -d "$src" ] || { echo "no $src"; exit 1; }
k=1
for p in patch.diff patch2.diff patch3.diff; do
  [ -f "$src/$p" ] || continue
  sfx=""; [ $k -gt 1 ] && sfx=$k
  d=/verif/seeded/$lid-$k
  mkdir -p $d
  cp "$src/$p" $d/patch.diff
  cp "$src/demo${sfx}_$lid.rs" $d/demo.rs 2>/dev/null || cp "$src"/demo${sfx}*.rs $d/demo.rs 2>/dev/null
  cp "$src/meta${sfx}.json" $d/meta.json 2>/dev/null
  echo "imported $d: $(jq -r .summary $d/meta.json 2>/dev/null | cut -c1-120)"
  k=$((k+1))
done
