// async sstable API stream (included into c15.rs): `into_stream_async`, `get_async` over a
// FileHandle whose async reads complete out of submission order.

use std::future::Future;
use std::pin::Pin;
use std::sync::atomic::{AtomicU64, Ordering as AtomicOrdering};
use std::sync::{Arc, Mutex};
use std::task::{Context, Poll, Wake, Waker};

use tantivy_common::file_slice::FileHandle;
use tantivy_common::HasLen;

/// In-memory file; every async read stays Pending for a deterministic number of polls.
#[derive(Debug)]
struct SlowHandle {
    bytes: OwnedBytes,
    seed: u64,
    /// 0: immediate, 1: pseudo-random 0..=6 polls, 2: earlier requests take longer
    mode: u64,
    submitted: AtomicU64,
    /// request indices in completion order
    completed: Arc<Mutex<Vec<u64>>>,
}

impl HasLen for SlowHandle {
    fn len(&self) -> usize {
        self.bytes.len()
    }
}

struct DelayedRead {
    remaining: u64,
    idx: u64,
    out: Option<OwnedBytes>,
    completed: Arc<Mutex<Vec<u64>>>,
}

impl Future for DelayedRead {
    type Output = std::io::Result<OwnedBytes>;
    fn poll(mut self: Pin<&mut Self>, cx: &mut Context<'_>) -> Poll<Self::Output> {
        if self.remaining > 0 {
            self.remaining -= 1;
            // ask to be polled again (FuturesOrdered/Unordered only re-poll woken children)
            cx.waker().wake_by_ref();
            return Poll::Pending;
        }
        let idx = self.idx;
        self.completed.lock().unwrap_or_else(|e| e.into_inner()).push(idx);
        Poll::Ready(Ok(self.out.take().expect("c15 harness: DelayedRead polled after completion")))
    }
}

// `FileHandle` is declared with #[async_trait]; this is the desugared signature, written by hand
// because the harness has no dependency on the async-trait crate.
impl FileHandle for SlowHandle {
    fn read_bytes(&self, range: std::ops::Range<usize>) -> std::io::Result<OwnedBytes> {
        Ok(self.bytes.slice(range))
    }

    fn read_bytes_async<'a, 't>(
        &'a self,
        byte_range: std::ops::Range<usize>,
    ) -> Pin<Box<dyn Future<Output = std::io::Result<OwnedBytes>> + Send + 't>>
    where
        'a: 't,
        Self: 't,
    {
        let idx = self.submitted.fetch_add(1, AtomicOrdering::Relaxed);
        let remaining = match self.mode {
            0 => 0,
            1 => tvmon::rng::mix(&[self.seed, byte_range.start as u64, idx]) % 7,
            _ => 12u64.saturating_sub((idx % 6) * 2),
        };
        Box::pin(DelayedRead {
            remaining,
            idx,
            out: Some(self.bytes.slice(byte_range)),
            completed: self.completed.clone(),
        })
    }
}

struct NoopWake;
impl Wake for NoopWake {
    fn wake(self: Arc<Self>) {}
}

/// Minimal executor: poll in a loop with a waker that does nothing.
fn block_on<F: Future>(f: F) -> F::Output {
    let waker = Waker::from(Arc::new(NoopWake));
    let mut cx = Context::from_waker(&waker);
    let mut f = std::pin::pin!(f);
    for _ in 0..50_000_000u64 {
        if let Poll::Ready(v) = f.as_mut().poll(&mut cx) {
            return v;
        }
    }
    panic!("c15 harness: block_on did not finish");
}

fn run_sst_stream_async<T: SSTable, A: Automaton>(
    b: tantivy_sstable::StreamerBuilder<'_, T, A>,
    merge_holes: Option<usize>,
) -> StreamOut<T::Value>
where
    A::State: Clone,
{
    let r = guarded(|| {
        let s = match merge_holes {
            None => block_on(b.into_stream_async()),
            Some(h) => block_on(b.into_stream_async_merging_holes(h)),
        };
        s.map(drain_sst)
    });
    match r {
        Ok(Ok(v)) => StreamOut::Got(v),
        Ok(Err(e)) => StreamOut::IoErr(e.to_string()),
        Err(p) => StreamOut::Panic(p),
    }
}

fn apply_bounds<'a, T: SSTable, A: Automaton>(
    mut b: tantivy_sstable::StreamerBuilder<'a, T, A>,
    lo: &Bound<Vec<u8>>,
    hi: &Bound<Vec<u8>>,
    limit: Option<u64>,
) -> tantivy_sstable::StreamerBuilder<'a, T, A>
where
    A::State: Clone,
{
    b = match lo {
        Bound::Included(k) => b.ge(k),
        Bound::Excluded(k) => b.gt(k),
        Bound::Unbounded => b,
    };
    b = match hi {
        Bound::Included(k) => b.le(k),
        Bound::Excluded(k) => b.lt(k),
        Bound::Unbounded => b,
    };
    if let Some(l) = limit {
        b = b.limit(l);
    }
    b
}

fn async_generic<T: ValGen>(case: u64, rng: &mut Rng, rep: &mut Report)
where T::Value: PartialEq + Debug + Clone {
    // multi-block dictionaries: small block_len, moderate n
    let n = match rng.below(4) {
        0 => *rng.pick(&[0usize, 1, 3, 17]),
        1 => rng.urange(30, 300),
        _ => rng.urange(300, 2500),
    };
    let (keys, class) = gen_keys(rng, n);
    let n = keys.len();
    let vals = T::gen(rng, n);
    let block_len = *rng.pick(&[Some(16usize), Some(16), Some(17), Some(32), Some(64), Some(128), Some(1000), None]);
    let bl_label = block_len.map(|b| b.to_string()).unwrap_or_else(|| "default".into());
    let mode = rng.weighted(&[1, 4, 3]) as u64;
    let mode_name = ["immediate", "pseudo-random polls", "earlier requests slower"][mode as usize];
    let mut info = json!({"target": "sstable async API", "value_type": T::NAME, "key_class": class, "n": n,
        "block_len": bl_label, "read_delay_mode": mode_name});
    let bytes = match build_sst::<T>(&keys, &vals, block_len) {
        Ok(b) => b,
        Err(e) => {
            viol(rep, "sst:api-error:build", json!({"error": e, "witness": dict_witness(&keys, &info)}));
            return;
        }
    };
    let completed = Arc::new(Mutex::new(Vec::new()));
    let handle = Arc::new(SlowHandle {
        bytes: OwnedBytes::new(bytes),
        seed: rng.next_u64(),
        mode,
        submitted: AtomicU64::new(0),
        completed: completed.clone(),
    });
    let dict = match Dictionary::<T>::open(FileSlice::new(handle.clone())) {
        Ok(d) => d,
        Err(e) => {
            viol(rep, "sst:api-error:open", json!({"error": e.to_string(), "witness": dict_witness(&keys, &info)}));
            return;
        }
    };
    rep.eval();
    let edges = block_first_ordinals(&dict);
    let nblocks = edges.len();
    info["blocks"] = json!(nblocks);
    rep.count("async_dictionaries", 1);
    rep.observe("async_value_type", T::NAME);
    rep.observe("async_block_count_class", bucket(nblocks));
    rep.observe("async_read_delay_mode", mode.to_string());
    let model: BTreeMap<Vec<u8>, (usize, T::Value)> =
        keys.iter().cloned().zip(vals.iter().cloned().enumerate()).collect();
    let mut fails = Fails::new();
    let mut queries = 0u64;
    let mut nonadjacent_searches = 0u64;
    let mut reordered = 0u64;
    let take_reordered = |completed: &Arc<Mutex<Vec<u64>>>| -> bool {
        let mut c = completed.lock().unwrap_or_else(|e| e.into_inner());
        let r = c.windows(2).any(|w| w[0] > w[1]);
        c.clear();
        r
    };

    let probes = gen_probes(rng, &keys, &edges, 30);
    // get_async
    for p in probes.iter().take(20) {
        queries += 1;
        let exp = model.get(p).map(|e| &e.1);
        match guarded(|| block_on(dict.get_async(p))) {
            Ok(Ok(got)) => {
                if got.as_ref() != exp {
                    fails.add("sst-async:get_async", json!({"key": brief(p), "got": format!("{got:?}"), "expected": format!("{exp:?}")}));
                }
            }
            Ok(Err(e)) => fails.add("sst-async:api-error:get_async", json!({"key": brief(p), "error": e.to_string()})),
            Err(pi) => fails.add(&format!("sst-async:get_async:{}", pi.sig()), json!({"key": brief(p), "panic": pi.message})),
        }
    }
    take_reordered(&completed);

    // ranges through into_stream_async
    for i in 0..20 {
        queries += 1;
        let (lo, hi) = if i == 0 {
            (Bound::Unbounded, Bound::Unbounded)
        } else {
            (gen_bound(rng, &probes, true), gen_bound(rng, &probes, false))
        };
        let limit = match rng.below(8) {
            0 => Some(0u64),
            1 => Some(1),
            2 => Some(rng.below(20)),
            3 => Some(rng.below(n as u64 + 2)),
            _ => None,
        };
        let holes = if rng.chance(1, 3) { Some(*rng.pick(&[0usize, 1, 64, 1 << 20])) } else { None };
        let expected: Vec<usize> = (0..n).filter(|&i| in_bounds(&keys[i], &lo, &hi)).collect();
        rep.observe("async_range_shape", format!("{}{}", range_shape(&lo, &hi), if limit.is_some() { ",limit" } else { "" }));
        let q = json!({"api": "range().into_stream_async", "lower": brief_bound(&lo), "upper": brief_bound(&hi), "limit": limit, "merge_holes": holes});
        let b = apply_bounds(dict.range(), &lo, &hi, limit);
        match run_sst_stream_async(b, holes) {
            StreamOut::Got(got) => cmp_stream(&mut fails, "sst-async:range", "sst-async:range:wrong-term_ord", &got, &expected, &keys, &vals, limit, q),
            StreamOut::IoErr(e) => fails.add("sst-async:api-error:range", json!({"query": q, "error": e})),
            StreamOut::Panic(p) => stream_panic(&mut fails, "sst-async:range", &p, &lo, &hi, q),
        }
        take_reordered(&completed);
    }

    // automaton searches through into_stream_async; the first automata are unions of prefixes
    // taken from far-apart blocks, so that several non-adjacent blocks survive the pruning
    let mut autos: Vec<Auto> = vec![];
    if nblocks >= 5 {
        for _ in 0..3 {
            let mut parts: Vec<Auto> = vec![];
            let k = rng.urange(2, 4);
            for j in 0..k {
                let b = (nblocks * j / k + rng.usize_below((nblocks / k).max(1))).min(nblocks - 1);
                let key = &keys[edges[b].min(n - 1)];
                let l = key.len().min(24);
                let l = if l > 2 && rng.bool() { l - 1 } else { l };
                parts.push(Auto::Prefix(key[..l].to_vec()));
            }
            let mut a = parts.pop().expect("c15 harness: parts");
            while let Some(p) = parts.pop() {
                a = Auto::Or(Box::new(p), Box::new(a));
            }
            autos.push(a);
        }
    }
    autos.extend(gen_automata(rng, &keys, 10));
    for a in &autos {
        queries += 1;
        let (lo, hi) = if rng.chance(1, 4) {
            (gen_bound(rng, &probes, true), gen_bound(rng, &probes, false))
        } else {
            (Bound::Unbounded, Bound::Unbounded)
        };
        let limit = if rng.chance(1, 8) { Some(rng.below(4)) } else { None };
        let holes = if rng.chance(1, 3) { Some(*rng.pick(&[0usize, 1, 64, 1 << 20])) } else { None };
        let expected: Vec<usize> = (0..n)
            .filter(|&i| in_bounds(&keys[i], &lo, &hi) && naive_match(a, &keys[i]))
            .collect();
        let kept_ids: Vec<u64> = dict.sstable_index.get_block_for_automaton(a).map(|(id, _)| id).collect();
        let kept = kept_ids.len();
        let nonadjacent = kept_ids.windows(2).any(|w| w[1] > w[0] + 1);
        rep.observe("async_automaton_kind", a.kind());
        let q = json!({"api": "search(automaton).into_stream_async", "automaton": a.describe(), "lower": brief_bound(&lo), "upper": brief_bound(&hi),
            "limit": limit, "merge_holes": holes, "blocks_kept_by_index": kept, "kept_blocks_nonadjacent": nonadjacent, "blocks": nblocks});
        let b = apply_bounds(dict.search(a), &lo, &hi, limit);
        let out = run_sst_stream_async(b, holes);
        let was_reordered = take_reordered(&completed);
        if nonadjacent && holes.unwrap_or(0) == 0 {
            nonadjacent_searches += 1;
            if was_reordered {
                reordered += 1;
            }
        }
        match out {
            StreamOut::Got(got) => {
                let ord_sig = if kept < nblocks {
                    "sst:search:streamer-term_ord-wrong-after-pruned-blocks:async"
                } else {
                    "sst-async:search:wrong-term_ord"
                };
                cmp_stream(&mut fails, "sst-async:search", ord_sig, &got, &expected, &keys, &vals, limit, q);
            }
            StreamOut::IoErr(e) => fails.add("sst-async:api-error:search", json!({"query": q, "error": e})),
            StreamOut::Panic(p) => stream_panic(&mut fails, "sst-async:search", &p, &lo, &hi, q),
        }
    }
    rep.count("async_queries", queries);
    rep.count("async_searches_over_nonadjacent_blocks", nonadjacent_searches);
    rep.count("async_searches_whose_reads_completed_out_of_order", reordered);
    if reordered > 0 {
        rep.nontrivial(format!("async|{}|{}|bl{}|n{}|b{}|m{}", T::NAME, class, bl_label, n, nblocks, mode));
    }
    if case < 1 {
        rep.sample(json!({"stream": "async", "dict": info, "queries": queries,
            "searches_over_nonadjacent_blocks": nonadjacent_searches, "of_which_reads_completed_out_of_order": reordered}));
    }
    for (sig, d) in fails.v {
        viol(rep, sig, json!({"detail": d, "witness": dict_witness(&keys, &info)}));
    }
}

fn async_case(case: u64, rng: &mut Rng, rep: &mut Report) {
    match rng.weighted(&[2, 4, 3]) {
        0 => async_generic::<VoidSSTable>(case, rng, rep),
        1 => async_generic::<MonotonicU64SSTable>(case, rng, rep),
        _ => async_generic::<RangeSSTable>(case, rng, rep),
    }
}
