//! C08 helpers: the plain `Vec<Vec<_>>` model and the boundary-aware generators.
#![allow(dead_code)]

pub mod check;

use std::sync::atomic::{AtomicBool, Ordering};

use tantivy_columnar::NumericalType;
use tvmon::rng::Rng;

pub static THOROUGH: AtomicBool = AtomicBool::new(false);
pub fn thorough() -> bool {
    THOROUGH.load(Ordering::Relaxed)
}

// ---------------------------------------------------------------------------------------------
// model

#[derive(Clone, Copy, Debug, PartialEq)]
pub enum Num {
    I(i64),
    U(u64),
    F(f64),
}

#[derive(Clone, Copy, Debug, PartialEq, Eq, PartialOrd, Ord, Hash)]
pub enum Cat {
    Num,
    Bytes,
    Str,
    Bool,
    Ip,
    Date,
}

impl Cat {
    pub fn name(self) -> &'static str {
        match self {
            Cat::Num => "num",
            Cat::Bytes => "bytes",
            Cat::Str => "str",
            Cat::Bool => "bool",
            Cat::Ip => "ip",
            Cat::Date => "date",
        }
    }
}

/// row -> values, per column category
#[derive(Clone, Debug)]
pub enum ColData {
    Num(Vec<Vec<Num>>),
    Bool(Vec<Vec<bool>>),
    Date(Vec<Vec<i64>>),
    Ip(Vec<Vec<u128>>),
    Str(Vec<Vec<String>>),
    Bytes(Vec<Vec<Vec<u8>>>),
}

macro_rules! each_coldata {
    ($s:expr, $r:ident => $e:expr) => {
        match $s {
            ColData::Num($r) => $e,
            ColData::Bool($r) => $e,
            ColData::Date($r) => $e,
            ColData::Ip($r) => $e,
            ColData::Str($r) => $e,
            ColData::Bytes($r) => $e,
        }
    };
}

impl ColData {
    pub fn cat(&self) -> Cat {
        match self {
            ColData::Num(_) => Cat::Num,
            ColData::Bool(_) => Cat::Bool,
            ColData::Date(_) => Cat::Date,
            ColData::Ip(_) => Cat::Ip,
            ColData::Str(_) => Cat::Str,
            ColData::Bytes(_) => Cat::Bytes,
        }
    }
    pub fn empty(cat: Cat, n: usize) -> ColData {
        match cat {
            Cat::Num => ColData::Num(vec![vec![]; n]),
            Cat::Bool => ColData::Bool(vec![vec![]; n]),
            Cat::Date => ColData::Date(vec![vec![]; n]),
            Cat::Ip => ColData::Ip(vec![vec![]; n]),
            Cat::Str => ColData::Str(vec![vec![]; n]),
            Cat::Bytes => ColData::Bytes(vec![vec![]; n]),
        }
    }
    pub fn n_rows(&self) -> usize {
        each_coldata!(self, r => r.len())
    }
    pub fn total(&self) -> usize {
        each_coldata!(self, r => r.iter().map(|x| x.len()).sum())
    }
    pub fn counts(&self) -> Vec<u32> {
        each_coldata!(self, r => r.iter().map(|x| x.len() as u32).collect())
    }
    pub fn row_len(&self, row: usize) -> usize {
        each_coldata!(self, r => r[row].len())
    }
    /// new column whose row i is `srcs[a].row[b]` for `addrs[i] = (a, b)`; a missing source
    /// contributes an empty row
    pub fn gather(cat: Cat, srcs: &[Option<&ColData>], addrs: &[(usize, usize)]) -> ColData {
        macro_rules! g {
            ($variant:ident) => {{
                let mut out = Vec::with_capacity(addrs.len());
                for &(a, b) in addrs {
                    match srcs[a] {
                        Some(ColData::$variant(r)) => out.push(r[b].clone()),
                        _ => out.push(vec![]),
                    }
                }
                ColData::$variant(out)
            }};
        }
        match cat {
            Cat::Num => g!(Num),
            Cat::Bool => g!(Bool),
            Cat::Date => g!(Date),
            Cat::Ip => g!(Ip),
            Cat::Str => g!(Str),
            Cat::Bytes => g!(Bytes),
        }
    }
    /// true when the column holds at least two different values
    pub fn non_constant(&self) -> bool {
        fn nc<T: PartialEq>(r: &[Vec<T>]) -> bool {
            let mut it = r.iter().flatten();
            match it.next() {
                None => false,
                Some(f) => it.any(|x| x != f),
            }
        }
        match self {
            ColData::Num(r) => {
                // compare by bits for floats
                let mut it = r.iter().flatten();
                match it.next() {
                    None => false,
                    Some(f) => it.any(|x| !num_same(*x, *f)),
                }
            }
            ColData::Bool(r) => nc(r),
            ColData::Date(r) => nc(r),
            ColData::Ip(r) => nc(r),
            ColData::Str(r) => nc(r),
            ColData::Bytes(r) => nc(r),
        }
    }
}

pub fn num_same(a: Num, b: Num) -> bool {
    match (a, b) {
        (Num::I(x), Num::I(y)) => x == y,
        (Num::U(x), Num::U(y)) => x == y,
        (Num::F(x), Num::F(y)) => x.to_bits() == y.to_bits(),
        _ => false,
    }
}

/// The documented rule (columnar/README.md "Coercion rules"): the first type out of
/// (i64, u64, f64) that can represent the appended values; a float value forces f64.
/// Returns (type, at_i64_max): `at_i64_max` when i64 is the answer and a u64 value equal to
/// `i64::MAX` is present. The code treats that value as outside i64 (`<` instead of `<=`, pinned
/// by an in-repo unit test): without negatives it then picks u64 (harmless, accepted), with
/// negatives it falls through to f64 (reported under its own signature).
#[derive(Clone, Copy, Debug, PartialEq, Eq)]
pub enum Quirk {
    None,
    /// i64 is the documented answer, a u64 value == i64::MAX is present, no negative value
    AtI64MaxNoNeg,
    /// same, together with a negative value
    AtI64MaxWithNeg,
}

pub fn writer_num_type(vals: impl Iterator<Item = Num>) -> (NumericalType, Quirk) {
    let mut any_f = false;
    let mut any_neg = false;
    let mut any_gt_i64max = false;
    let mut any_eq_i64max = false;
    for v in vals {
        match v {
            Num::F(_) => any_f = true,
            Num::I(x) => any_neg |= x < 0,
            Num::U(x) => {
                any_gt_i64max |= x > i64::MAX as u64;
                any_eq_i64max |= x == i64::MAX as u64;
            }
        }
    }
    if any_f {
        return (NumericalType::F64, Quirk::None);
    }
    if !any_gt_i64max {
        // i64 can represent everything
        let q = match (any_eq_i64max, any_neg) {
            (false, _) => Quirk::None,
            (true, false) => Quirk::AtI64MaxNoNeg,
            (true, true) => Quirk::AtI64MaxWithNeg,
        };
        return (NumericalType::I64, q);
    }
    if !any_neg {
        return (NumericalType::U64, Quirk::None);
    }
    (NumericalType::F64, Quirk::None)
}

pub fn coerce(v: Num, t: NumericalType) -> Num {
    match t {
        NumericalType::I64 => Num::I(match v {
            Num::I(x) => x,
            Num::U(x) => x as i64,
            Num::F(x) => x as i64, // never expected; caught by the caller's representability check
        }),
        NumericalType::U64 => Num::U(match v {
            Num::I(x) => x as u64,
            Num::U(x) => x,
            Num::F(x) => x as u64,
        }),
        NumericalType::F64 => Num::F(match v {
            Num::I(x) => x as f64,
            Num::U(x) => x as f64,
            Num::F(x) => x,
        }),
    }
}

pub fn coerce_rows(rows: &[Vec<Num>], t: NumericalType) -> Vec<Vec<Num>> {
    rows.iter()
        .map(|r| r.iter().map(|v| coerce(*v, t)).collect())
        .collect()
}

pub fn num_type_name(t: NumericalType) -> &'static str {
    match t {
        NumericalType::I64 => "i64",
        NumericalType::U64 => "u64",
        NumericalType::F64 => "f64",
    }
}

/// one model column
#[derive(Clone, Debug)]
pub struct MCol {
    pub name: String,
    /// numeric type forced with `record_column_type` (as tantivy does for schema fields)
    pub forced: Option<NumericalType>,
    /// `record_column_type` called (column exists even without values)
    pub declared: bool,
    pub data: ColData,
    pub val_profile: String,
    pub idx_profile: &'static str,
}

// ---------------------------------------------------------------------------------------------
// sizes

pub fn size_class(n: usize) -> &'static str {
    match n {
        0 => "0",
        1 => "1",
        2..=63 => "2-63",
        64..=511 => "64-511",
        512 => "512",
        513..=5119 => "513-5119",
        5120..=65535 => "5120-65535",
        65536 => "65536",
        65537..=131071 => "65537-131071",
        131072 => "131072",
        _ => ">131072",
    }
}

/// number of rows of a table; `big` allows ≥ 65 536-row tables
pub fn gen_num_rows(rng: &mut Rng, big: bool) -> usize {
    let w_big = if big { 6 } else { 0 };
    match rng.weighted(&[30, 25, 25, 14, w_big]) {
        0 => *rng.pick(&[0usize, 1, 2, 3, 7, 63, 64, 65, 127, 128, 129, 255, 256, 257]),
        1 => rng.urange(1, 300),
        2 => *rng.pick(&[511usize, 512, 513, 1023, 1024, 1025, 1535, 1536, 1537, 2048, 4096, 5119, 5120, 5121, 6000, 10_240]),
        3 => rng.urange(300, 6000),
        _ => match rng.below(8) {
            0 => 65_535,
            1 => 65_536,
            2 => 65_537,
            3 => 131_071 + rng.urange(0, 2),
            4 => 196_608 + rng.urange(0, 3),
            5 => 70_000 + rng.urange(0, 800),
            _ => rng.urange(65_536, 200_000),
        },
    }
}

// ---------------------------------------------------------------------------------------------
// index profiles: how many values each row holds

fn choose_k_of(rng: &mut Rng, out: &mut [u32], k: usize) {
    // selection sampling: exactly k rows of `out` get 1
    let b = out.len();
    let mut chosen = 0usize;
    for (i, o) in out.iter_mut().enumerate() {
        let remaining = b - i;
        let need = k - chosen;
        if need > 0 && (rng.below(remaining as u64) as usize) < need {
            *o = 1;
            chosen += 1;
        }
    }
}

pub const IDX_PROFILES: [&str; 14] = [
    "full",
    "opt_empty",
    "opt_one",
    "opt_sparse",
    "opt_thresh",
    "opt_half",
    "opt_dense_minus",
    "opt_runs",
    "multi_light",
    "multi_empty_heavy",
    "multi_allk",
    "multi_heavy",
    "multi_one_huge",
    "multi_thresh",
];

fn boundary_positions(n: usize) -> Vec<usize> {
    let mut v = vec![0usize, n.saturating_sub(1)];
    for b in [63usize, 64, 65, 511, 512, 513, 5119, 5120, 65_535, 65_536, 65_537, 131_071, 131_072] {
        if b < n {
            v.push(b);
        }
    }
    v
}

/// counts per row; `max_total` caps the number of values
pub fn gen_counts(rng: &mut Rng, n: usize, profile: &'static str, max_total: usize) -> Vec<u32> {
    let mut c = vec![0u32; n];
    if n == 0 {
        return c;
    }
    match profile {
        "full" => c.iter_mut().for_each(|x| *x = 1),
        "opt_empty" => {}
        "opt_one" => {
            let p = if rng.bool() { *rng.pick(&boundary_positions(n)) } else { rng.usize_below(n) };
            c[p] = 1;
        }
        "opt_sparse" => {
            let den = *rng.pick(&[20u64, 100, 1000]);
            for x in c.iter_mut() {
                if rng.chance(1, den) {
                    *x = 1;
                }
            }
        }
        "opt_thresh" | "multi_thresh" => {
            // per 65 536-row block an exact number of non-null rows around the dense threshold
            let mut start = 0;
            while start < n {
                let len = (n - start).min(65_536);
                let k = *rng.pick(&[5119usize, 5120, 5121, 5119, 5120, 5121, 5120, 0, 1, len.saturating_sub(1), len, len / 2]);
                let k = k.min(len);
                choose_k_of(rng, &mut c[start..start + len], k);
                start += len;
            }
            if profile == "multi_thresh" {
                for x in c.iter_mut() {
                    if *x == 1 && rng.chance(1, 3) {
                        *x = 2;
                    }
                }
                // make sure it is multivalued
                if let Some(x) = c.iter_mut().find(|x| **x >= 1) {
                    *x = 2;
                }
            }
        }
        "opt_half" => c.iter_mut().for_each(|x| *x = rng.bool() as u32),
        "opt_dense_minus" => {
            c.iter_mut().for_each(|x| *x = 1);
            let bp = boundary_positions(n);
            for _ in 0..rng.urange(1, 3) {
                let p = if rng.bool() { *rng.pick(&bp) } else { rng.usize_below(n) };
                c[p] = 0;
            }
        }
        "opt_runs" => {
            let l = *rng.pick(&[1usize, 2, 63, 64, 65, 128, 512, 4096]);
            let phase = rng.usize_below(2);
            for (i, x) in c.iter_mut().enumerate() {
                *x = (((i / l) + phase) % 2) as u32;
            }
        }
        "multi_light" => {
            for x in c.iter_mut() {
                *x = match rng.below(20) {
                    0 => 0,
                    1 => 2,
                    _ => 1,
                };
            }
            c[rng.usize_below(n)] = 2;
        }
        "multi_empty_heavy" => {
            for x in c.iter_mut() {
                *x = if rng.chance(4, 5) { 0 } else { rng.range(1, 4) as u32 };
            }
            c[rng.usize_below(n)] = 3;
        }
        "multi_allk" => {
            let k = rng.range(2, 4) as u32;
            c.iter_mut().for_each(|x| *x = k);
        }
        "multi_heavy" => {
            let hi = *rng.pick(&[3u64, 8, 20]);
            for x in c.iter_mut() {
                *x = rng.range(0, hi) as u32;
            }
            c[rng.usize_below(n)] = 300;
        }
        "multi_one_huge" => {
            for x in c.iter_mut() {
                *x = rng.range(0, 1) as u32;
            }
            let huge = *rng.pick(&[511u32, 512, 513, 600, 1024, 1025, 2000, 5121]);
            let huge = if max_total >= 140_000 && rng.chance(1, 6) { 66_000 } else { huge };
            let p = if rng.bool() { *rng.pick(&boundary_positions(n)) } else { rng.usize_below(n) };
            c[p] = huge;
        }
        _ => unreachable!("unknown idx profile"),
    }
    // cap the total number of values
    let mut total: usize = c.iter().map(|x| *x as usize).sum();
    if total > max_total {
        for x in c.iter_mut().rev() {
            if total <= max_total {
                break;
            }
            if *x > 1 {
                let cut = ((*x - 1) as usize).min(total - max_total);
                *x -= cut as u32;
                total -= cut;
            }
        }
    }
    c
}

pub fn pick_idx_profile(rng: &mut Rng) -> &'static str {
    // full and the optional family dominate; multivalued about a third
    let w = [14u32, 3, 5, 7, 9, 6, 8, 7, 8, 6, 5, 6, 6, 5];
    IDX_PROFILES[rng.weighted(&w)]
}

pub fn split_by_counts<T: Clone>(flat: Vec<T>, counts: &[u32]) -> Vec<Vec<T>> {
    let mut out = Vec::with_capacity(counts.len());
    let mut i = 0usize;
    for &c in counts {
        out.push(flat[i..i + c as usize].to_vec());
        i += c as usize;
    }
    out
}

// ---------------------------------------------------------------------------------------------
// value sequences

pub const INTERESTING_U64: [u64; 20] = [
    0,
    1,
    2,
    255,
    256,
    65_535,
    65_536,
    u32::MAX as u64,
    1 << 32,
    (1 << 53) - 1,
    1 << 53,
    (1 << 53) + 1,
    i64::MAX as u64 - 1,
    i64::MAX as u64,
    i64::MAX as u64 + 1,
    i64::MAX as u64 + 2,
    u64::MAX - 2,
    u64::MAX - 1,
    u64::MAX,
    0x8000_0000,
];

pub const INTERESTING_F64: [f64; 20] = [
    0.0,
    -0.0,
    1.0,
    -1.0,
    f64::INFINITY,
    f64::NEG_INFINITY,
    f64::MAX,
    f64::MIN,
    f64::MIN_POSITIVE,
    -f64::MIN_POSITIVE,
    5e-324,
    -5e-324,
    f64::EPSILON,
    1e300,
    -1e300,
    0.1,
    9_007_199_254_740_992.0,
    -9_007_199_254_740_992.0,
    1.5,
    -2.25,
];

fn mask(w: u32) -> u64 {
    if w >= 64 {
        u64::MAX
    } else {
        (1u64 << w) - 1
    }
}

/// sequences in u64 space aimed at the codecs (constant / linear / blockwise linear / bit-packed /
/// gcd) and at the extremes
pub fn gen_u64_seq(rng: &mut Rng, m: usize) -> (Vec<u64>, &'static str) {
    let kind = rng.weighted(&[6, 10, 13, 14, 8, 8, 8, 8, 7, 4]);
    match kind {
        0 => {
            let c = if rng.bool() {
                *rng.pick(&INTERESTING_U64)
            } else {
                rng.next_u64() >> rng.below(64)
            };
            (vec![c; m], "const")
        }
        1 => {
            let a = rng.next_u64() >> rng.range(16, 63);
            let b = match rng.below(4) {
                0 => 1,
                1 => rng.range(1, 10),
                2 => 1000,
                _ => rng.range(1, 1 << 20),
            };
            let desc = rng.bool();
            let v = (0..m)
                .map(|i| {
                    let j = if desc { m - 1 - i } else { i } as u64;
                    a + b * j
                })
                .collect();
            (v, "linear")
        }
        2 => {
            let w = rng.below(10) as u32;
            let mut v = Vec::with_capacity(m);
            let mut i = 0;
            while i < m {
                let a = rng.next_u64() >> rng.range(12, 40);
                let b = rng.below(1 << 12);
                let desc = rng.chance(1, 3);
                let len = 512.min(m - i);
                for j in 0..len {
                    let jj = if desc { (511 - j) as u64 } else { j as u64 };
                    v.push(a + b * jj + (rng.next_u64() & mask(w)));
                }
                i += len;
            }
            (v, "blockwise_noise")
        }
        3 => {
            let w = *rng.pick(&[1u32, 2, 3, 7, 8, 9, 15, 16, 17, 31, 32, 33, 47, 48, 55, 56, 57, 63, 64]);
            let mk = mask(w);
            let base = if w >= 64 || rng.bool() { 0 } else { rng.range(0, u64::MAX - mk) };
            let v = (0..m).map(|_| base + (rng.next_u64() & mk)).collect();
            let name = if w <= 16 {
                "random_narrow"
            } else if w <= 40 {
                "random_mid"
            } else {
                "random_wide"
            };
            (v, name)
        }
        4 => {
            let g = *rng.pick(&[2u64, 3, 10, 1000, 1 << 20, 1_000_000_000, 86_400_000_000_000, 0xFFFF_FFFF]);
            let k = *rng.pick(&[2u64, 100, 1 << 16, 1 << 20]);
            let k = k.min((u64::MAX / g) / 4).max(1);
            let base = rng.below(1 << 50);
            let v = (0..m).map(|_| base + g * rng.below(k + 1)).collect();
            (v, "gcd")
        }
        5 => ((0..m).map(|_| *rng.pick(&INTERESTING_U64)).collect(), "extremes"),
        6 => {
            let s = *rng.pick(&[1u32, 4, 10, 20, 30]);
            let mut cur = rng.next_u64() >> 20;
            let v = (0..m)
                .map(|_| {
                    cur += rng.next_u64() & mask(s);
                    cur
                })
                .collect();
            (v, "monotone")
        }
        7 => {
            let d = rng.urange(2, 5);
            let pool: Vec<u64> = (0..d)
                .map(|_| if rng.bool() { rng.next_u64() } else { rng.next_u64() >> rng.below(64) })
                .collect();
            ((0..m).map(|_| *rng.pick(&pool)).collect(), "few_distinct")
        }
        8 => {
            let a = rng.next_u64() >> rng.range(20, 63);
            let b = rng.range(1, 1 << 16);
            let mut v: Vec<u64> = (0..m).map(|i| a + b * i as u64).collect();
            if m > 0 {
                let last_block_start = (m - 1) / 512 * 512;
                let mut pos = vec![0usize, m - 1, last_block_start, rng.usize_below(m)];
                for p in [511usize, 512, 513] {
                    if p < m {
                        pos.push(p);
                    }
                }
                for _ in 0..rng.urange(1, 3) {
                    let p = *rng.pick(&pos);
                    v[p] = *rng.pick(&[0u64, u64::MAX, a + (1 << 40), 1]);
                }
            }
            (v, "linear_outlier")
        }
        _ => {
            let step = u64::MAX / (m.max(1) as u64);
            ((0..m).map(|i| i as u64 * step).collect(), "linear_fullrange")
        }
    }
}

pub fn u64_to_f64_inverse(v: u64) -> f64 {
    // inverse of the order-preserving f64 -> u64 map (positive: flip sign bit, negative: flip all)
    let f = if v >> 63 == 1 { f64::from_bits(v ^ (1 << 63)) } else { f64::from_bits(!v) };
    if f.is_nan() {
        1.0
    } else {
        f
    }
}

pub fn gen_i64_seq(rng: &mut Rng, m: usize) -> (Vec<i64>, String) {
    let (v, p) = gen_u64_seq(rng, m);
    let mode = rng.below(4);
    let out = v
        .into_iter()
        .map(|x| match mode {
            0 => (x ^ (1 << 63)) as i64,
            1 => x as i64,
            2 => (x >> 1) as i64,
            _ => -((x >> 1) as i64),
        })
        .collect();
    (out, format!("{p}/i{mode}"))
}

pub fn gen_f64_seq(rng: &mut Rng, m: usize) -> (Vec<f64>, String) {
    let mode = rng.below(5);
    if mode == 4 {
        return ((0..m).map(|_| *rng.pick(&INTERESTING_F64)).collect(), "f64_extremes".into());
    }
    let (v, p) = gen_u64_seq(rng, m);
    let out = v
        .into_iter()
        .map(|x| match mode {
            0 => u64_to_f64_inverse(x),
            1 => {
                let s = if x & 1 == 1 { -0.5 } else { 0.5 };
                (x >> 11) as f64 * s
            }
            2 => (x >> 11) as f64,
            _ => ((x >> 40) as f64) / 1024.0 - 4096.0,
        })
        .collect();
    (out, format!("{p}/f{mode}"))
}

pub fn gen_ip_seq(rng: &mut Rng, m: usize) -> (Vec<u128>, String) {
    const V4: u128 = 0xFFFF_0000_0000;
    let kind = rng.weighted(&[10, 8, 10, 4, 6, 6, 6, 2]);
    match kind {
        7 if m >= 8 => {
            // evenly spread IPv4 addresses from 0.0.0.1 to 255.255.255.255: the value span is
            // exactly u32::MAX and no gap is worth removing, so the compact space is as large as
            // it can get (2^32 - 1 codes; used to overflow the u32 bookkeeping, fixed in 0aef3803c)
            let d = m.min(5000) as u128;
            let step = 0xFFFF_FFFEu128 / (d - 1);
            let mut v: Vec<u128> = (0..m).map(|_| V4 | (1 + step * rng.below(d as u64) as u128)).collect();
            v[0] = V4 | 1;
            v[m - 1] = V4 | 0xFFFF_FFFF;
            (v, "ipv4_span_0.0.0.1_to_255.255.255.255".into())
        }
        0 => {
            let (v, p) = gen_u64_seq(rng, m);
            (v.into_iter().map(|x| V4 | (x & 0xFFFF_FFFF) as u128).collect(), format!("ipv4/{p}"))
        }
        1 => (
            (0..m).map(|_| ((rng.next_u64() as u128) << 64) | rng.next_u64() as u128).collect(),
            "ipv6_random".into(),
        ),
        2 => {
            let c = rng.urange(1, 6);
            let w = *rng.pick(&[0u32, 4, 12, 20, 33]);
            let bases: Vec<u128> = (0..c)
                .map(|_| (((rng.next_u64() as u128) << 64) | rng.next_u64() as u128) >> rng.below(100))
                .collect();
            (
                (0..m)
                    .map(|_| rng.pick(&bases).saturating_add((rng.next_u64() & mask(w)) as u128))
                    .collect(),
                "ipv6_clusters".into(),
            )
        }
        3 => {
            let c = if rng.bool() { V4 | rng.next_u32() as u128 } else { (rng.next_u64() as u128) << 60 };
            (vec![c; m], "ip_const".into())
        }
        4 => {
            let pool = [
                0u128,
                1,
                u128::MAX,
                u128::MAX - 1,
                1 << 64,
                (1 << 64) - 1,
                V4,
                V4 | 0xFFFF_FFFF,
                V4 - 1,
                (V4 | 0xFFFF_FFFF) + 1,
                1 << 127,
            ];
            ((0..m).map(|_| *rng.pick(&pool)).collect(), "ip_extremes".into())
        }
        5 => {
            let base = ((rng.next_u64() as u128) << 64) | rng.next_u64() as u128;
            let base = base >> 1;
            ((0..m).map(|i| base + i as u128).collect(), "ipv6_sequential".into())
        }
        _ => {
            // mix of v4-mapped and full v6
            (
                (0..m)
                    .map(|_| {
                        if rng.bool() {
                            V4 | rng.next_u32() as u128
                        } else {
                            ((rng.next_u64() as u128) << 64) | rng.next_u64() as u128
                        }
                    })
                    .collect(),
                "ip_mixed".into(),
            )
        }
    }
}

const STR_SPECIALS: [&str; 12] = [
    "",
    " ",
    "a",
    "A",
    "é",
    "日本語",
    "\u{10FFFF}",
    "\u{1}",
    "\0",
    "a\0b",
    "zzzzzzzzzzzzzzzzzzzzzzzzzzzzzzzzzzzzzzzzzzzzzzzzzzzzzzzzzzzzzzzz",
    "~",
];

pub fn gen_str_vocab(rng: &mut Rng, m: usize) -> (Vec<String>, &'static str) {
    match rng.weighted(&[6, 14, 12, 8, 8, 6]) {
        0 => (vec![rng.pick(&STR_SPECIALS).to_string()], "str_single"),
        1 => {
            let d = rng.urange(2, 8);
            (
                (0..d)
                    .map(|i| {
                        if rng.chance(1, 3) {
                            rng.pick(&STR_SPECIALS).to_string()
                        } else {
                            format!("w{}_{}", i, rng.below(1000))
                        }
                    })
                    .collect(),
                "str_few",
            )
        }
        2 => {
            let d = (m / 2).clamp(2, 6000);
            ((0..d).map(|_| format!("t{:x}", rng.next_u64() >> rng.below(60))).collect(), "str_many")
        }
        3 => {
            let d = m.clamp(1, 8000);
            let mut v: Vec<String> = (0..d).map(|i| format!("k{:07}", i * 3)).collect();
            rng.shuffle(&mut v);
            (v, "str_all_distinct")
        }
        4 => {
            let prefix: String = "p".repeat(rng.urange(10, 120));
            let d = (m / 3).clamp(2, 3000);
            (
                (0..d).map(|i| format!("{prefix}{}", i * 7 + rng.usize_below(7))).collect(),
                "str_prefix_heavy",
            )
        }
        _ => {
            let mut v: Vec<String> = STR_SPECIALS.iter().map(|s| s.to_string()).collect();
            v.push("x".repeat(rng.urange(200, 5000)));
            (v, "str_specials")
        }
    }
}

pub fn gen_str_seq(rng: &mut Rng, m: usize) -> (Vec<String>, String) {
    let (vocab, p) = gen_str_vocab(rng, m);
    ((0..m).map(|_| rng.pick(&vocab).clone()).collect(), p.to_string())
}

pub fn gen_bytes_seq(rng: &mut Rng, m: usize) -> (Vec<Vec<u8>>, String) {
    let specials: [&[u8]; 8] = [b"", &[0], &[0, 0], &[255], &[255, 255, 255], &[0, 255], b"abc", &[128]];
    let (vocab, p): (Vec<Vec<u8>>, &str) = match rng.below(4) {
        0 => (specials.iter().map(|s| s.to_vec()).collect(), "bytes_specials"),
        1 => {
            let d = rng.urange(1, 6);
            ((0..d).map(|_| { let l = rng.urange(0, 40); rng.bytes(l) }).collect(), "bytes_few")
        }
        2 => {
            let d = (m / 2).clamp(2, 5000);
            ((0..d).map(|_| { let l = rng.urange(0, 24); rng.bytes(l) }).collect(), "bytes_many")
        }
        _ => {
            let d = (m / 2).clamp(2, 300);
            let mut v: Vec<Vec<u8>> = (0..d).map(|_| { let l = rng.urange(1, 3); rng.bytes(l) }).collect();
            v.push(rng.bytes(3000));
            (v, "bytes_short_and_long")
        }
    };
    ((0..m).map(|_| rng.pick(&vocab).clone()).collect(), p.to_string())
}

pub fn gen_bool_seq(rng: &mut Rng, m: usize) -> (Vec<bool>, String) {
    match rng.below(4) {
        0 => (vec![true; m], "bool_true".into()),
        1 => (vec![false; m], "bool_false".into()),
        2 => ((0..m).map(|i| i % 2 == 0).collect(), "bool_alt".into()),
        _ => ((0..m).map(|_| rng.bool()).collect(), "bool_random".into()),
    }
}

/// numeric flavours for a dynamically typed numeric column
#[derive(Clone, Copy, Debug, PartialEq, Eq)]
pub enum NumFlavor {
    U64,
    I64,
    F64,
    /// i64 negatives + small u64  -> i64
    MixToI64,
    /// non-negative i64 + u64 above i64::MAX -> u64
    MixToU64,
    /// negatives + u64 above i64::MAX -> f64
    MixIntsToF64,
    /// ints + floats -> f64
    MixWithFloat,
    /// u64 values up to exactly i64::MAX (type pick documented ambiguously)
    U64AtI64Max,
    /// negatives + a u64 value equal to i64::MAX: i64 can hold all of it
    NegAndU64AtI64Max,
}

pub const NUM_FLAVORS: [NumFlavor; 9] = [
    NumFlavor::NegAndU64AtI64Max,
    NumFlavor::U64,
    NumFlavor::I64,
    NumFlavor::F64,
    NumFlavor::MixToI64,
    NumFlavor::MixToU64,
    NumFlavor::MixIntsToF64,
    NumFlavor::MixWithFloat,
    NumFlavor::U64AtI64Max,
];

pub fn gen_num_seq(rng: &mut Rng, m: usize, flavor: NumFlavor) -> (Vec<Num>, String) {
    match flavor {
        NumFlavor::U64 => {
            let (v, p) = gen_u64_seq(rng, m);
            (v.into_iter().map(Num::U).collect(), format!("u64/{p}"))
        }
        NumFlavor::I64 => {
            let (v, p) = gen_i64_seq(rng, m);
            (v.into_iter().map(Num::I).collect(), format!("i64/{p}"))
        }
        NumFlavor::F64 => {
            let (v, p) = gen_f64_seq(rng, m);
            (v.into_iter().map(Num::F).collect(), format!("f64/{p}"))
        }
        NumFlavor::MixToI64 => {
            let (v, p) = gen_u64_seq(rng, m);
            (
                v.into_iter()
                    .map(|x| {
                        if rng.bool() {
                            Num::I(-((x >> 2) as i64) - 1)
                        } else {
                            Num::U(x >> 2)
                        }
                    })
                    .collect(),
                format!("mix->i64/{p}"),
            )
        }
        NumFlavor::MixToU64 => {
            let (v, p) = gen_u64_seq(rng, m);
            let mut out: Vec<Num> = v
                .into_iter()
                .map(|x| if rng.bool() { Num::I((x >> 1) as i64) } else { Num::U(x | (1 << 63)) })
                .collect();
            if let Some(f) = out.first_mut() {
                *f = Num::U(u64::MAX - rng.below(3));
            }
            (out, format!("mix->u64/{p}"))
        }
        NumFlavor::MixIntsToF64 => {
            // the resulting f64 conversion is lossy above 2^53 in half of the cases
            let exact = rng.bool();
            let (v, p) = gen_u64_seq(rng, m);
            let mut out: Vec<Num> = v
                .into_iter()
                .map(|x| {
                    if rng.bool() {
                        let y = if exact { (x >> 12) as i64 } else { (x >> 1) as i64 };
                        Num::I(-y - 1)
                    } else if exact {
                        Num::U(x >> 11)
                    } else {
                        Num::U(x)
                    }
                })
                .collect();
            if out.len() >= 2 {
                // 2^63 and 2^64-2048 are exactly representable
                out[0] = Num::U(if exact { 1 << 63 } else { u64::MAX });
                out[1] = Num::I(-1);
            }
            (out, format!("mixints->f64{}/{p}", if exact { "" } else { "(lossy)" }))
        }
        NumFlavor::MixWithFloat => {
            let (v, p) = gen_u64_seq(rng, m);
            let mut out: Vec<Num> = v
                .into_iter()
                .map(|x| match rng.below(3) {
                    0 => Num::I((x >> 12) as i64 - 1000),
                    1 => Num::U(x >> 11),
                    _ => Num::F(if rng.chance(1, 4) { *rng.pick(&INTERESTING_F64) } else { (x >> 20) as f64 / 8.0 }),
                })
                .collect();
            if let Some(f) = out.first_mut() {
                *f = Num::F(0.5);
            }
            (out, format!("mixfloat->f64/{p}"))
        }
        NumFlavor::NegAndU64AtI64Max => {
            let (v, p) = gen_u64_seq(rng, m);
            let mut out: Vec<Num> = v.into_iter().map(|x| if x & 1 == 1 { Num::I(-((x >> 2) as i64) - 1) } else { Num::U(x >> 1) }).collect();
            if out.len() >= 2 {
                let l = out.len();
                out[l - 1] = Num::U(i64::MAX as u64);
                out[0] = Num::I(-1);
            }
            (out, format!("neg+u64@i64max/{p}"))
        }
        NumFlavor::U64AtI64Max => {
            let (v, p) = gen_u64_seq(rng, m);
            let mut out: Vec<Num> = v.into_iter().map(|x| Num::U(x >> 1)).collect();
            if let Some(f) = out.last_mut() {
                *f = Num::U(i64::MAX as u64);
            }
            (out, format!("u64@i64max/{p}"))
        }
    }
}

pub fn gen_date_seq(rng: &mut Rng, m: usize) -> (Vec<i64>, String) {
    let (v, p) = gen_i64_seq(rng, m);
    match rng.below(3) {
        0 => (v, format!("date_ns/{p}")),
        1 => (v.into_iter().map(|x| (x / 4_000_000_000) * 1_000_000_000).collect(), format!("date_s/{p}")),
        _ => (v.into_iter().map(|x| (x / 1_000_000) * 1_000_000).collect(), format!("date_ms/{p}")),
    }
}

/// data for one column of category `cat` with the given per-row counts
pub fn gen_coldata(rng: &mut Rng, cat: Cat, flavor: NumFlavor, counts: &[u32]) -> (ColData, String) {
    let m: usize = counts.iter().map(|c| *c as usize).sum();
    match cat {
        Cat::Num => {
            let (v, p) = gen_num_seq(rng, m, flavor);
            (ColData::Num(split_by_counts(v, counts)), p)
        }
        Cat::Bool => {
            let (v, p) = gen_bool_seq(rng, m);
            (ColData::Bool(split_by_counts(v, counts)), p)
        }
        Cat::Date => {
            let (v, p) = gen_date_seq(rng, m);
            (ColData::Date(split_by_counts(v, counts)), p)
        }
        Cat::Ip => {
            let (v, p) = gen_ip_seq(rng, m);
            (ColData::Ip(split_by_counts(v, counts)), p)
        }
        Cat::Str => {
            let (v, p) = gen_str_seq(rng, m);
            (ColData::Str(split_by_counts(v, counts)), p)
        }
        Cat::Bytes => {
            let (v, p) = gen_bytes_seq(rng, m);
            (ColData::Bytes(split_by_counts(v, counts)), p)
        }
    }
}

pub fn pick_cat(rng: &mut Rng) -> Cat {
    *rng.pick(&[Cat::Num, Cat::Num, Cat::Num, Cat::Num, Cat::Bool, Cat::Date, Cat::Ip, Cat::Ip, Cat::Str, Cat::Str, Cat::Bytes])
}
