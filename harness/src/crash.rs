//! Offline reconstruction of crash images from a MonDir op log.
//!
//! Durability model (DESIGN.md §3.1): file data is durable once `terminate` returned (data
//! fsync); a directory entry (creation, rename by atomic_write, unlink) is durable once a later
//! `sync_directory` returned. At a crash, every pending directory operation may independently
//! have been applied or not (model M2, what POSIX allows); the prefix-closed subset of those
//! outcomes is model M1 (ordered metadata journal). A file that is present in the image but
//! whose data was not synced may hold any prefix of what was written.

use std::collections::{BTreeMap, HashMap};
use std::sync::Arc;

use crate::mondir::{Event, OpKind};
use crate::rng::Rng;

#[derive(Clone, Debug)]
pub enum DirOp {
    /// path now points to inode (creation or rename-over)
    Link(String, u64),
    Unlink(String),
}

#[derive(Clone, Debug)]
struct CInode {
    data: Arc<Vec<u8>>,
    synced_len: usize,
}

#[derive(Clone, Debug, PartialEq, Eq)]
pub enum Entries {
    /// nothing pending survives
    DurableOnly,
    /// every pending dirop was applied
    All,
    /// the first k pending dirops were applied (M1)
    Prefix(usize),
    /// arbitrary subset by bitmask over pending ops (M2)
    Subset(Vec<bool>),
}

#[derive(Clone, Copy, Debug, PartialEq, Eq)]
pub enum Content {
    /// unsynced tail lost
    Synced,
    /// everything written so far is present
    Full,
    /// unsynced files are empty
    Empty,
    /// random prefix between synced_len and len
    Random,
}

#[derive(Clone, Debug)]
pub struct Outcome {
    pub entries: Entries,
    pub content: Content,
}

impl Outcome {
    pub fn label(&self) -> String {
        let e = match &self.entries {
            Entries::DurableOnly => "durable-only".to_string(),
            Entries::All => "all-applied".to_string(),
            Entries::Prefix(_) => "M1-prefix".to_string(),
            Entries::Subset(_) => "M2-subset".to_string(),
        };
        format!("{e}/{:?}", self.content)
    }
    pub fn is_m1(&self) -> bool {
        !matches!(self.entries, Entries::Subset(_))
    }
}

#[derive(Clone, Default)]
pub struct CrashState {
    inodes: HashMap<u64, CInode>,
    building: HashMap<u64, Vec<u8>>,
    pub visible: BTreeMap<String, u64>,
    pub durable: BTreeMap<String, u64>,
    pub pending: Vec<DirOp>,
}

pub type Image = BTreeMap<String, Arc<Vec<u8>>>;

impl CrashState {
    pub fn new() -> CrashState {
        CrashState::default()
    }

    /// applies one log event (no-op for failed ops, reads, client events)
    pub fn apply(&mut self, ev: &Event) {
        if !ev.ok {
            return;
        }
        match ev.kind {
            OpKind::OpenWrite => {
                self.building.insert(ev.inode, vec![]);
                self.visible.insert(ev.path.clone(), ev.inode);
                self.pending.push(DirOp::Link(ev.path.clone(), ev.inode));
            }
            OpKind::Write => {
                if let (Some(buf), Some(d)) = (self.building.get_mut(&ev.inode), ev.data.as_ref()) {
                    buf.extend_from_slice(d);
                }
            }
            OpKind::Terminate => {
                if let Some(buf) = self.building.remove(&ev.inode) {
                    let len = buf.len();
                    self.inodes.insert(
                        ev.inode,
                        CInode {
                            data: Arc::new(buf),
                            synced_len: len,
                        },
                    );
                }
            }
            OpKind::AtomicWrite => {
                if let Some(d) = ev.data.as_ref() {
                    self.inodes.insert(
                        ev.inode,
                        CInode {
                            data: d.clone(),
                            synced_len: d.len(),
                        },
                    );
                }
                self.visible.insert(ev.path.clone(), ev.inode);
                self.pending.push(DirOp::Link(ev.path.clone(), ev.inode));
            }
            OpKind::Delete => {
                self.visible.remove(&ev.path);
                self.pending.push(DirOp::Unlink(ev.path.clone()));
            }
            OpKind::SyncDir => {
                for op in self.pending.drain(..) {
                    match op {
                        DirOp::Link(p, i) => {
                            self.durable.insert(p, i);
                        }
                        DirOp::Unlink(p) => {
                            self.durable.remove(&p);
                        }
                    }
                }
            }
            _ => {}
        }
    }

    fn inode_bytes(&self, id: u64, content: Content, rng: &mut Rng) -> Arc<Vec<u8>> {
        if let Some(ino) = self.inodes.get(&id) {
            // terminated / atomic: fully synced
            debug_assert_eq!(ino.synced_len, ino.data.len());
            return ino.data.clone();
        }
        let buf = self.building.get(&id).map(|b| b.as_slice()).unwrap_or(&[]);
        let len = match content {
            Content::Synced | Content::Empty => 0,
            Content::Full => buf.len(),
            Content::Random => rng.usize_below(buf.len() + 1),
        };
        Arc::new(buf[..len].to_vec())
    }

    /// number of files whose data is not synced yet (being written)
    pub fn unsynced_files(&self) -> usize {
        self.building.len()
    }

    pub fn image(&self, outcome: &Outcome, rng: &mut Rng) -> Image {
        let mut entries: BTreeMap<String, u64> = self.durable.clone();
        let n = self.pending.len();
        for (i, op) in self.pending.iter().enumerate() {
            let applied = match &outcome.entries {
                Entries::DurableOnly => false,
                Entries::All => true,
                Entries::Prefix(k) => i < *k,
                Entries::Subset(mask) => mask.get(i).copied().unwrap_or(false),
            };
            let _ = n;
            if applied {
                match op {
                    DirOp::Link(p, ino) => {
                        entries.insert(p.clone(), *ino);
                    }
                    DirOp::Unlink(p) => {
                        entries.remove(p);
                    }
                }
            }
        }
        let mut img = Image::new();
        for (p, ino) in entries {
            img.insert(p, self.inode_bytes(ino, outcome.content, rng));
        }
        img
    }

    /// Image of exactly what is visible now, all data complete (the no-crash view).
    pub fn visible_image(&self) -> Image {
        let mut img = Image::new();
        let mut rng = Rng::new(0);
        for (p, ino) in &self.visible {
            img.insert(p.clone(), self.inode_bytes(*ino, Content::Full, &mut rng));
        }
        img
    }
}

/// The outcomes explored at one boundary.
pub fn outcomes_for(pending: usize, unsynced_files: usize, thorough: bool, rng: &mut Rng) -> Vec<Outcome> {
    let mut out = vec![];
    let contents: Vec<Content> = if unsynced_files == 0 {
        vec![Content::Synced]
    } else if thorough {
        vec![Content::Synced, Content::Full, Content::Random]
    } else {
        vec![Content::Synced, Content::Full]
    };
    for &c in &contents {
        out.push(Outcome {
            entries: Entries::DurableOnly,
            content: c,
        });
        if pending > 0 {
            out.push(Outcome {
                entries: Entries::All,
                content: c,
            });
        }
    }
    if pending > 1 {
        // M1: each proper prefix cut (bounded)
        let ks: Vec<usize> = if pending <= 12 || thorough {
            (1..pending).collect()
        } else {
            let mut v: Vec<usize> = vec![1, pending - 1];
            for _ in 0..6 {
                v.push(rng.urange(1, pending - 1));
            }
            v.sort();
            v.dedup();
            v
        };
        for k in ks {
            let c = *rng.pick(&contents);
            out.push(Outcome {
                entries: Entries::Prefix(k),
                content: c,
            });
        }
        // M2: single-op-missing, single-op-applied, random subsets
        let singles = if thorough { pending } else { pending.min(6) };
        let mut idxs: Vec<usize> = (0..pending).collect();
        rng.shuffle(&mut idxs);
        for &i in idxs.iter().take(singles) {
            let mut m = vec![true; pending];
            m[i] = false;
            out.push(Outcome {
                entries: Entries::Subset(m),
                content: *rng.pick(&contents),
            });
            let mut m = vec![false; pending];
            m[i] = true;
            out.push(Outcome {
                entries: Entries::Subset(m),
                content: *rng.pick(&contents),
            });
        }
        let randoms = if thorough { 6 } else { 2 };
        for _ in 0..randoms {
            let m: Vec<bool> = (0..pending).map(|_| rng.bool()).collect();
            out.push(Outcome {
                entries: Entries::Subset(m),
                content: *rng.pick(&contents),
            });
        }
    }
    out
}
