#!/bin/bash
# Runs every seeded change (/verif/seeded/<name>/patch.diff) against the check(s) of the
# property it breaks (meta.json .checks, default [.property]) on a scratch copy of /repo (never
# /repo itself), and prints caught / MISSED.     scripts/seeded_run.sh [name-glob] [tier]
glob=${1:-*}; tier=${2:-quick}
cd /verif || exit 2
pass=0; miss=0
for d in seeded/$glob/; do
  [ -f "$d/patch.diff" ] || continue
  name=$(basename "$d")
  ids=$(jq -r '(.checks // [.property]) | join(" ")' "$d/meta.json")
  caught=""
  for id in $ids; do
    out=$(scripts/mutant_run.sh "$PWD/$d/patch.diff" "$id" "$tier" 2>&1)
    if grep -q "^VIOLATION property=$id" <<<"$out"; then
      sig=$(grep -m1 "violation sig=" <<<"$out" | sed -E 's/.*violation sig=([^ ]+).*/\1/')
      caught="$caught $id:$sig"
    else
      last=$(grep -E "^$id tier=|MUTANT BUILD FAILED|patch does not apply" <<<"$out" | tail -1 | cut -c1-140)
      missinfo="$missinfo [$id: $last]"
    fi
  done
  if [ -n "$caught" ]; then echo "caught  $name  ($tier) by$caught"; pass=$((pass+1)); echo "caught ($tier, VERIF_SEED=${VERIF_SEED:-1}) by$caught" > "$d/result.txt";
  else echo "MISSED  $name  ($tier)$missinfo"; miss=$((miss+1)); echo "MISSED ($tier, VERIF_SEED=${VERIF_SEED:-1})$missinfo" > "$d/result.txt"; fi
  missinfo=""
done
echo "caught=$pass missed=$miss"
