//! C06 — Top-K collection returns exactly the best K, with deterministic ties.
//!
//! For generated corpora (1-8 segments, deletes, WithFreqs / WithFreqsAndPositions / Basic text
//! fields, fast fields with missing values) and generated queries, every `TopDocs` flavour is
//! compared with entries O..O+K of the exhaustive (address, key) list obtained on the SAME
//! searcher with a non-pruning collector (scores) and from the generator's model (fast-field,
//! tweaked and custom keys), sorted by (key per comparator, address ascending).
//!
//! Corpus profiles beyond the generic ones: `Dense` (ten mid-frequency words, heavy-tailed tf:
//! conjunctions of 4-8 term clauses - block-max intersection with >= 3 secondaries - keep many
//! matches), `Short` / `Sparse` (average field length a small fractional number resp. < 1 token,
//! few (length, tf) shapes that tie massively and lie close in BM25, half of them in ONE segment,
//! where the index-time block-max metadata must be exact), fast-field values drawn with
//! per-segment weights (the tie group of a page cut spans several segments unevenly). Search
//! plans beyond the (K,O) grid: small K on every query that can take a block-max path, and
//! O+K just below the match count of >= 4 segments (the merge of the per-segment lists has to
//! cut repeatedly).
//!
//! Composition: every second search is repeated with the TopDocs collector inside a tuple, a
//! nested tuple, a MultiCollector (one or several TopDocs handles), an Option or a FilterCollector
//! (see `Shape`): a composing collector drives TopDocs through for_segment / collect / harvest
//! instead of collect_segment, and must deliver the same page. Scores <= 0: boosts and constant
//! scores that are zero or negative (demotion clauses) are part of the query generator. Stream
//! `small` searches tiny corpora over the complete (K, O) grid, plain and composed.
#[path = "scshared/mod.rs"]
mod scshared;

use std::any::Any;
use std::cmp::Ordering;
use std::collections::{BTreeMap, HashMap, HashSet};
use std::sync::Arc;

use scshared::*;
use serde_json::{json, Value};
use tantivy::collector::sort_key::{
    ComparatorEnum, NaturalComparator, SortByErasedType, SortBySimilarityScore,
    SortByStaticFastValue, SortByString,
};
use tantivy::collector::{
    Collector, Count, FilterCollector, MultiCollector, SegmentCollector, SegmentSortKeyComputer,
    SortKeyComputer, TopDocs,
};
use tantivy::columnar::Column;
use tantivy::query::{Occur, Query};
use tantivy::schema::{IndexRecordOption, OwnedValue, Schema};
use tantivy::{DateTime, DocAddress, DocId, Index, Order, Score, Searcher, SegmentReader, Term};
use tvmon::report::*;
use tvmon::rng::Rng;

// ---------------------------------------------------------------------------------------------
// keys and comparators of the oracle

#[derive(Clone, Debug)]
enum OrdVal {
    U(u64),
    I(i64),
    F(f64),
    S(String),
    B(bool),
    Sc(f32),
}

impl OrdVal {
    fn cmp(&self, o: &OrdVal) -> Ordering {
        match (self, o) {
            (OrdVal::U(a), OrdVal::U(b)) => a.cmp(b),
            (OrdVal::I(a), OrdVal::I(b)) => a.cmp(b),
            (OrdVal::F(a), OrdVal::F(b)) => a.partial_cmp(b).expect("no NaN generated"),
            (OrdVal::S(a), OrdVal::S(b)) => a.as_bytes().cmp(b.as_bytes()),
            (OrdVal::B(a), OrdVal::B(b)) => a.cmp(b),
            (OrdVal::Sc(a), OrdVal::Sc(b)) => a.partial_cmp(b).expect("no NaN score"),
            _ => panic!("oracle compares keys of different types {self:?} {o:?}"),
        }
    }
    fn same(&self, o: &OrdVal) -> bool {
        match (self, o) {
            (OrdVal::U(a), OrdVal::U(b)) => a == b,
            (OrdVal::I(a), OrdVal::I(b)) => a == b,
            (OrdVal::F(a), OrdVal::F(b)) => a.to_bits() == b.to_bits(),
            (OrdVal::S(a), OrdVal::S(b)) => a == b,
            (OrdVal::B(a), OrdVal::B(b)) => a == b,
            // (the sign of a zero SCORE is not part of the key: 0.0 and -0.0 compare equal)
            (OrdVal::Sc(a), OrdVal::Sc(b)) => a.to_bits() == b.to_bits() || (*a == 0.0 && *b == 0.0),
            _ => false,
        }
    }
    fn js(&self) -> Value {
        match self {
            OrdVal::U(a) => json!(a),
            OrdVal::I(a) => json!(a),
            OrdVal::F(a) => json!(format!("{a:e}")),
            OrdVal::S(a) => json!(a),
            OrdVal::B(a) => json!(a),
            OrdVal::Sc(a) => json!(format!("{a:e}/0x{:08x}", a.to_bits())),
        }
    }
}

type K1 = Option<OrdVal>;

#[derive(Clone, Debug)]
enum CKey {
    One(K1),
    Two(K1, K1),
    /// 3- and 4-component keys
    Many(Vec<K1>),
}

fn k1_same(a: &K1, b: &K1) -> bool {
    match (a, b) {
        (None, None) => true,
        (Some(a), Some(b)) => a.same(b),
        _ => false,
    }
}

impl CKey {
    fn same(&self, o: &CKey) -> bool {
        match (self, o) {
            (CKey::One(a), CKey::One(b)) => k1_same(a, b),
            (CKey::Two(a, a2), CKey::Two(b, b2)) => k1_same(a, b) && k1_same(a2, b2),
            (CKey::Many(a), CKey::Many(b)) => a.len() == b.len() && a.iter().zip(b.iter()).all(|(x, y)| k1_same(x, y)),
            _ => false,
        }
    }
    fn js(&self) -> Value {
        let f = |k: &K1| k.as_ref().map(|v| v.js()).unwrap_or(Value::Null);
        match self {
            CKey::One(a) => f(a),
            CKey::Two(a, b) => json!([f(a), f(b)]),
            CKey::Many(v) => json!(v.iter().map(f).collect::<Vec<_>>()),
        }
    }
    fn score(&self) -> Option<f32> {
        match self {
            CKey::One(Some(OrdVal::Sc(s))) => Some(*s),
            CKey::One(Some(OrdVal::F(s))) => Some(*s as f32),
            _ => None,
        }
    }
}

/// the four documented comparators (collector::sort_key::order)
#[derive(Clone, Copy, Debug, PartialEq, Eq)]
enum Cmp1 {
    /// greatest first, missing last
    Natural,
    /// smallest first, missing first
    Reverse,
    /// smallest first, missing last   (= Order::Asc)
    ReverseNoneLower,
    /// greatest first, missing first
    NaturalNoneHigher,
}

impl Cmp1 {
    fn from_order(o: Order) -> Cmp1 {
        match o {
            Order::Asc => Cmp1::ReverseNoneLower,
            Order::Desc => Cmp1::Natural,
        }
    }
    fn to_enum(self) -> ComparatorEnum {
        match self {
            Cmp1::Natural => ComparatorEnum::Natural,
            Cmp1::Reverse => ComparatorEnum::Reverse,
            Cmp1::ReverseNoneLower => ComparatorEnum::ReverseNoneLower,
            Cmp1::NaturalNoneHigher => ComparatorEnum::NaturalNoneHigher,
        }
    }
    fn name(self) -> &'static str {
        match self {
            Cmp1::Natural => "natural",
            Cmp1::Reverse => "reverse",
            Cmp1::ReverseNoneLower => "reverse-none-lower",
            Cmp1::NaturalNoneHigher => "natural-none-higher",
        }
    }
    /// Less = `a` is ranked before `b`
    fn rank(self, a: &K1, b: &K1) -> Ordering {
        let none_first = matches!(self, Cmp1::Reverse | Cmp1::NaturalNoneHigher);
        let ascending = matches!(self, Cmp1::Reverse | Cmp1::ReverseNoneLower);
        match (a, b) {
            (None, None) => Ordering::Equal,
            (None, Some(_)) => {
                if none_first {
                    Ordering::Less
                } else {
                    Ordering::Greater
                }
            }
            (Some(_), None) => {
                if none_first {
                    Ordering::Greater
                } else {
                    Ordering::Less
                }
            }
            (Some(x), Some(y)) => {
                if ascending {
                    x.cmp(y)
                } else {
                    y.cmp(x)
                }
            }
        }
    }
}

/// true when the two keys are equal on their first `n` components
fn prefix_tied(a: &CKey, b: &CKey, n: usize) -> bool {
    match (a, b) {
        (CKey::Many(x), CKey::Many(y)) => x.iter().zip(y.iter()).take(n).all(|(p, q)| k1_same(p, q)),
        (CKey::Two(x, _), CKey::Two(y, _)) => n == 0 || k1_same(x, y),
        _ => false,
    }
}

#[derive(Clone, Copy, Debug)]
enum CmpSpec {
    One(Cmp1),
    Two(Cmp1, Cmp1),
    Three(Cmp1, Cmp1, Cmp1),
    Four(Cmp1, Cmp1, Cmp1, Cmp1),
}

impl CmpSpec {
    fn rank(&self, a: &CKey, b: &CKey) -> Ordering {
        match (self, a, b) {
            (CmpSpec::One(c), CKey::One(x), CKey::One(y)) => c.rank(x, y),
            (CmpSpec::Two(c1, c2), CKey::Two(x1, x2), CKey::Two(y1, y2)) => {
                c1.rank(x1, y1).then_with(|| c2.rank(x2, y2))
            }
            (CmpSpec::Three(c1, c2, c3), CKey::Many(x), CKey::Many(y)) if x.len() == 3 && y.len() == 3 => c1
                .rank(&x[0], &y[0])
                .then_with(|| c2.rank(&x[1], &y[1]))
                .then_with(|| c3.rank(&x[2], &y[2])),
            (CmpSpec::Four(c1, c2, c3, c4), CKey::Many(x), CKey::Many(y)) if x.len() == 4 && y.len() == 4 => c1
                .rank(&x[0], &y[0])
                .then_with(|| c2.rank(&x[1], &y[1]))
                .then_with(|| c3.rank(&x[2], &y[2]))
                .then_with(|| c4.rank(&x[3], &y[3])),
            _ => panic!("oracle key / comparator arity mismatch"),
        }
    }
}

// ---------------------------------------------------------------------------------------------
// sort kinds

#[derive(Clone, Copy, Debug, PartialEq, Eq)]
enum FF {
    U,
    I,
    F,
    D,
    B,
    S,
}

impl FF {
    fn field(self) -> &'static str {
        match self {
            FF::U => "fu",
            FF::I => "fi",
            FF::F => "ff",
            FF::D => "fd",
            FF::B => "fb",
            FF::S => "fs",
        }
    }
    fn model(self, d: &MDoc) -> K1 {
        match self {
            FF::U => d.fu.map(OrdVal::U),
            FF::I => d.fi.map(OrdVal::I),
            FF::F => d.ff.map(OrdVal::F),
            FF::D => d.fd.map(OrdVal::I),
            FF::B => d.fb.map(OrdVal::B),
            FF::S => d.fs.clone().map(OrdVal::S),
        }
    }
}

#[derive(Clone, Copy, Debug)]
enum SortKind {
    Score,
    ScoreTopN(Order),
    ScoreCmp(Cmp1),
    ScoreErased(Cmp1),
    U64Field(Order),
    Fast(FF, Order),
    FastCmp(FF, Cmp1),
    Erased(FF, Cmp1),
    TweakMod7,
    TweakTimesScore,
    TweakU64,
    Custom(Option<Order>),
    TupleUI(Order, Order),
    TupleScoreStr(Order),
    /// ((fu,o),(fi,o),(ff,o))
    Tuple3UIF(Order, Order, Order),
    /// ((fb,cmp),(custom table key,o),(fi,cmp)): few distinct values on the first two components
    /// whatever the corpus
    Tuple3BCI(Cmp1, Order, Cmp1),
    /// ((score,desc),(fs,o),(fu,o))
    Tuple3ScoreStrU(Order, Order),
    /// ((fb,o),(fu,o),(fs,o),(fi,o))
    Tuple4BUSI(Order, Order, Order, Order),
    /// ((fu,o),(score,desc),(fd,o),(ff,o))
    Tuple4UScoreDF(Order, Order, Order),
}

fn oname(o: Order) -> &'static str {
    match o {
        Order::Asc => "asc",
        Order::Desc => "desc",
    }
}

impl SortKind {
    fn uses_score(&self) -> bool {
        matches!(
            self,
            SortKind::Score
                | SortKind::ScoreTopN(_)
                | SortKind::ScoreCmp(_)
                | SortKind::ScoreErased(_)
                | SortKind::TweakTimesScore
                | SortKind::TupleScoreStr(_)
                | SortKind::Tuple3ScoreStrU(..)
                | SortKind::Tuple4UScoreDF(..)
        )
    }
    /// score kinds for which a tolerance comparison is implemented
    fn approx_capable(&self) -> bool {
        matches!(
            self,
            SortKind::Score | SortKind::ScoreTopN(_) | SortKind::ScoreCmp(_) | SortKind::ScoreErased(_)
        )
    }
    fn family(&self) -> &'static str {
        match self {
            SortKind::Score => "score-pruning",
            SortKind::ScoreTopN(_) | SortKind::ScoreCmp(_) => "score-topn",
            SortKind::ScoreErased(_) => "score-erased",
            SortKind::U64Field(_) => "u64-field",
            SortKind::Fast(FF::S, _) | SortKind::FastCmp(FF::S, _) => "string-field",
            SortKind::Fast(..) | SortKind::FastCmp(..) => "fast-field",
            SortKind::Erased(..) => "erased-field",
            SortKind::TweakMod7 | SortKind::TweakTimesScore | SortKind::TweakU64 => "tweak-score",
            SortKind::Custom(_) => "custom-sort-key",
            SortKind::TupleUI(..) | SortKind::TupleScoreStr(_) => "tuple-key",
            SortKind::Tuple3UIF(..) | SortKind::Tuple3BCI(..) | SortKind::Tuple3ScoreStrU(..) => "tuple3-key",
            SortKind::Tuple4BUSI(..) | SortKind::Tuple4UScoreDF(..) => "tuple4-key",
        }
    }
    fn name(&self) -> String {
        match self {
            SortKind::Score => "order_by_score".into(),
            SortKind::ScoreTopN(o) => format!("order_by(SimilarityScore,{})", oname(*o)),
            SortKind::ScoreCmp(c) => format!("order_by(SimilarityScore,{})", c.name()),
            SortKind::ScoreErased(c) => format!("order_by(Erased::score,{})", c.name()),
            SortKind::U64Field(o) => format!("order_by_u64_field(fu,{})", oname(*o)),
            SortKind::Fast(FF::S, o) => format!("order_by_string_fast_field(fs,{})", oname(*o)),
            SortKind::Fast(f, o) => format!("order_by_fast_field({},{})", f.field(), oname(*o)),
            SortKind::FastCmp(FF::S, c) => format!("order_by(SortByString(fs),{})", c.name()),
            SortKind::FastCmp(f, c) => format!("order_by(StaticFastValue({}),{})", f.field(), c.name()),
            SortKind::Erased(f, c) => format!("order_by(Erased({}),{})", f.field(), c.name()),
            SortKind::TweakMod7 => "tweak_score(fu%7 as f32)".into(),
            SortKind::TweakTimesScore => "tweak_score(score*(1+id%3))".into(),
            SortKind::TweakU64 => "tweak_score(u64 key)".into(),
            SortKind::Custom(None) => "order_by(custom computer)".into(),
            SortKind::Custom(Some(o)) => format!("order_by(custom computer,{})", oname(*o)),
            SortKind::TupleUI(a, b) => format!("order_by((fu,{}),(fi,{}))", oname(*a), oname(*b)),
            SortKind::TupleScoreStr(b) => format!("order_by((score,desc),(fs,{}))", oname(*b)),
            SortKind::Tuple3UIF(a, b, c) => {
                format!("order_by((fu,{}),(fi,{}),(ff,{}))", oname(*a), oname(*b), oname(*c))
            }
            SortKind::Tuple3BCI(a, b, c) => {
                format!("order_by((fb,{}),(custom,{}),(fi,{}))", a.name(), oname(*b), c.name())
            }
            SortKind::Tuple3ScoreStrU(b, c) => {
                format!("order_by((score,desc),(fs,{}),(fu,{}))", oname(*b), oname(*c))
            }
            SortKind::Tuple4BUSI(a, b, c, d) => format!(
                "order_by((fb,{}),(fu,{}),(fs,{}),(fi,{}))",
                oname(*a),
                oname(*b),
                oname(*c),
                oname(*d)
            ),
            SortKind::Tuple4UScoreDF(a, c, d) => format!(
                "order_by((fu,{}),(score,desc),(fd,{}),(ff,{}))",
                oname(*a),
                oname(*c),
                oname(*d)
            ),
        }
    }
    fn cmp(&self) -> CmpSpec {
        match self {
            SortKind::Score | SortKind::TweakMod7 | SortKind::TweakTimesScore | SortKind::TweakU64 => {
                CmpSpec::One(Cmp1::Natural)
            }
            SortKind::ScoreTopN(o) | SortKind::U64Field(o) | SortKind::Fast(_, o) => {
                CmpSpec::One(Cmp1::from_order(*o))
            }
            SortKind::ScoreCmp(c) | SortKind::ScoreErased(c) | SortKind::FastCmp(_, c) | SortKind::Erased(_, c) => {
                CmpSpec::One(*c)
            }
            SortKind::Custom(None) => CmpSpec::One(Cmp1::Natural),
            SortKind::Custom(Some(o)) => CmpSpec::One(Cmp1::from_order(*o)),
            SortKind::TupleUI(a, b) => CmpSpec::Two(Cmp1::from_order(*a), Cmp1::from_order(*b)),
            SortKind::TupleScoreStr(b) => CmpSpec::Two(Cmp1::Natural, Cmp1::from_order(*b)),
            SortKind::Tuple3UIF(a, b, c) => {
                CmpSpec::Three(Cmp1::from_order(*a), Cmp1::from_order(*b), Cmp1::from_order(*c))
            }
            SortKind::Tuple3BCI(a, b, c) => CmpSpec::Three(*a, Cmp1::from_order(*b), *c),
            SortKind::Tuple3ScoreStrU(b, c) => {
                CmpSpec::Three(Cmp1::Natural, Cmp1::from_order(*b), Cmp1::from_order(*c))
            }
            SortKind::Tuple4BUSI(a, b, c, d) => CmpSpec::Four(
                Cmp1::from_order(*a),
                Cmp1::from_order(*b),
                Cmp1::from_order(*c),
                Cmp1::from_order(*d),
            ),
            SortKind::Tuple4UScoreDF(a, c, d) => CmpSpec::Four(
                Cmp1::from_order(*a),
                Cmp1::Natural,
                Cmp1::from_order(*c),
                Cmp1::from_order(*d),
            ),
        }
    }
    /// the document's true key: score from the exhaustive pass, everything else from the model
    fn key_of(&self, h: &Hit, d: &MDoc) -> CKey {
        match self {
            SortKind::Score | SortKind::ScoreTopN(_) | SortKind::ScoreCmp(_) => {
                CKey::One(Some(OrdVal::Sc(h.score)))
            }
            SortKind::ScoreErased(_) => CKey::One(Some(OrdVal::F(h.score as f64 + 0.0))),
            SortKind::U64Field(_) => CKey::One(d.fu.map(OrdVal::U)),
            SortKind::Fast(f, _) | SortKind::FastCmp(f, _) | SortKind::Erased(f, _) => CKey::One(f.model(d)),
            SortKind::TweakMod7 => CKey::One(Some(OrdVal::Sc(tweak_mod7(d)))),
            SortKind::TweakTimesScore => CKey::One(Some(OrdVal::Sc(tweak_times(d.id, h.score)))),
            SortKind::TweakU64 => CKey::One(Some(OrdVal::U(tweak_u64(d.id)))),
            SortKind::Custom(_) => CKey::One(custom_key(d).map(OrdVal::I)),
            SortKind::TupleUI(..) => CKey::Two(d.fu.map(OrdVal::U), d.fi.map(OrdVal::I)),
            SortKind::TupleScoreStr(_) => {
                CKey::Two(Some(OrdVal::Sc(h.score)), d.fs.clone().map(OrdVal::S))
            }
            SortKind::Tuple3UIF(..) => {
                CKey::Many(vec![d.fu.map(OrdVal::U), d.fi.map(OrdVal::I), d.ff.map(OrdVal::F)])
            }
            SortKind::Tuple3BCI(..) => CKey::Many(vec![
                d.fb.map(OrdVal::B),
                custom_key(d).map(OrdVal::I),
                d.fi.map(OrdVal::I),
            ]),
            SortKind::Tuple3ScoreStrU(..) => CKey::Many(vec![
                Some(OrdVal::Sc(h.score)),
                d.fs.clone().map(OrdVal::S),
                d.fu.map(OrdVal::U),
            ]),
            SortKind::Tuple4BUSI(..) => CKey::Many(vec![
                d.fb.map(OrdVal::B),
                d.fu.map(OrdVal::U),
                d.fs.clone().map(OrdVal::S),
                d.fi.map(OrdVal::I),
            ]),
            SortKind::Tuple4UScoreDF(..) => CKey::Many(vec![
                d.fu.map(OrdVal::U),
                Some(OrdVal::Sc(h.score)),
                d.fd.map(OrdVal::I),
                d.ff.map(OrdVal::F),
            ]),
        }
    }
}

fn tweak_mod7(d: &MDoc) -> f32 {
    (d.fu.unwrap_or(0) % 7) as f32
}
fn tweak_times(id: u64, score: f32) -> f32 {
    score * (1 + id % 3) as f32
}
fn tweak_u64(id: u64) -> u64 {
    id.wrapping_mul(2654435761) % 5
}
fn custom_key(d: &MDoc) -> Option<i64> {
    d.fi.map(|v| v.rem_euclid(11) - 5)
}

/// per-corpus table id -> model doc index, shared with the closures given to tantivy
struct Tables {
    fu: HashMap<u64, u64>,
    custom: HashMap<u64, Option<i64>>,
}

/// my own SortKeyComputer ("custom score"): key computed from the `id` fast field and a table
struct ByTable(Arc<Tables>);
struct ByTableSeg {
    ids: Column<u64>,
    t: Arc<Tables>,
}

impl SortKeyComputer for ByTable {
    type SortKey = Option<i64>;
    type Child = ByTableSeg;
    type Comparator = NaturalComparator;
    fn segment_sort_key_computer(&self, seg: &SegmentReader) -> tantivy::Result<ByTableSeg> {
        Ok(ByTableSeg {
            ids: seg.fast_fields().u64("id")?,
            t: self.0.clone(),
        })
    }
}

impl SegmentSortKeyComputer for ByTableSeg {
    type SortKey = Option<i64>;
    type SegmentSortKey = Option<i64>;
    type SegmentComparator = NaturalComparator;
    fn segment_sort_key(&mut self, doc: DocId, _score: Score) -> Option<i64> {
        let id = self.ids.first(doc).unwrap_or(u64::MAX);
        self.t.custom.get(&id).copied().flatten()
    }
    fn convert_segment_sort_key(&self, k: Option<i64>) -> Option<i64> {
        k
    }
}

// ---------------------------------------------------------------------------------------------
// TopDocs composed with other collectors
//
// A composing collector (tuple, MultiCollector, Option, FilterCollector ...) drives the TopDocs
// collector through `Collector::for_segment` + `SegmentCollector::collect` + `harvest` +
// `merge_fruits`; a plain `searcher.search(&q, &TopDocs...)` goes through
// `Collector::collect_segment` (with its own per-segment top-K and, for the relevance score, the
// pruning callback). Both ways must deliver the same page.

type Page = Vec<(CKey, DocAddress)>;

#[derive(Clone, Copy, Debug, PartialEq, Eq)]
enum Shape {
    Plain,
    /// `(TopDocs, Count)`
    TopCount,
    /// `(Count, TopDocs)`
    CountTop,
    /// MultiCollector holding the TopDocs collector only
    Multi1,
    /// MultiCollector {TopDocs, Count}
    MultiTopCount,
    /// MultiCollector {Count, TopDocs, second TopDocs of the same sort (other page), TopDocs by score}
    MultiMany,
    /// `(Count, TopDocs, Count)`
    Triple,
    /// `(TopDocs, Count, second TopDocs, Count)`
    Quad,
    /// `((TopDocs, Count), Count)`
    NestedLeft,
    /// `(Count, (Count, TopDocs))`
    NestedRight,
    /// `((Count, (TopDocs, Count)), second TopDocs)`
    NestedDeep,
    /// `(Some(TopDocs), None::<Count>)`
    OptionSome,
    /// `(TopDocs, TopDocs::order_by_score page)`: scoring is forced on a fast-field TopDocs
    WithScorePage,
    /// `FilterCollector(fu predicate, TopDocs)`
    Filtered,
}

const SHAPES: [Shape; 13] = [
    Shape::TopCount,
    Shape::CountTop,
    Shape::Multi1,
    Shape::MultiTopCount,
    Shape::MultiMany,
    Shape::Triple,
    Shape::Quad,
    Shape::NestedLeft,
    Shape::NestedRight,
    Shape::NestedDeep,
    Shape::OptionSome,
    Shape::WithScorePage,
    Shape::Filtered,
];

impl Shape {
    fn name(self) -> &'static str {
        match self {
            Shape::Plain => "TopDocs",
            Shape::TopCount => "(TopDocs,Count)",
            Shape::CountTop => "(Count,TopDocs)",
            Shape::Multi1 => "MultiCollector{TopDocs}",
            Shape::MultiTopCount => "MultiCollector{TopDocs,Count}",
            Shape::MultiMany => "MultiCollector{Count,TopDocs,TopDocs',TopDocs-by-score}",
            Shape::Triple => "(Count,TopDocs,Count)",
            Shape::Quad => "(TopDocs,Count,TopDocs',Count)",
            Shape::NestedLeft => "((TopDocs,Count),Count)",
            Shape::NestedRight => "(Count,(Count,TopDocs))",
            Shape::NestedDeep => "((Count,(TopDocs,Count)),TopDocs')",
            Shape::OptionSome => "(Some(TopDocs),None)",
            Shape::WithScorePage => "(TopDocs,TopDocs-by-score)",
            Shape::Filtered => "FilterCollector(fu,TopDocs)",
        }
    }
}

/// predicates of the FilterCollector shape (on the `fu` fast field; documents without a value
/// are filtered out, as documented)
fn fu_pred(id: u8, v: u64) -> bool {
    match id {
        0 => v % 2 == 0,
        1 => v >= 2,
        2 => v != 7 && v != u64::MAX,
        _ => true,
    }
}

/// one request: the page (k, o) of `shape`; shapes with a second TopDocs handle of the same sort
/// also ask for page (k2, o2), shapes with a TopDocs-by-score companion for page (k3, o3)
struct Req<'a> {
    searcher: &'a Searcher,
    q: &'a dyn Query,
    shape: Shape,
    k: usize,
    o: usize,
    k2: usize,
    o2: usize,
    k3: usize,
    o3: usize,
    pred: u8,
}

#[derive(Default)]
struct Out {
    page: Page,
    page2: Option<Page>,
    score_page: Option<Vec<(Score, DocAddress)>>,
    counts: Vec<usize>,
}

// type erasure of one TopDocs collector (whatever its sort key type): the nested shapes are
// compiled once instead of once per sort kind. The adapter forwards for_segment / collect /
// collect_block / harvest / merge_fruits and does NOT forward collect_segment, like any composing
// collector.
trait SegDyn {
    fn collect_dyn(&mut self, doc: DocId, score: Score);
    fn collect_block_dyn(&mut self, docs: &[DocId]);
    fn harvest_dyn(self: Box<Self>) -> Box<dyn Any + Send>;
}
struct SegWrap<S>(S);
impl<S: SegmentCollector> SegDyn for SegWrap<S> {
    fn collect_dyn(&mut self, doc: DocId, score: Score) {
        self.0.collect(doc, score)
    }
    fn collect_block_dyn(&mut self, docs: &[DocId]) {
        self.0.collect_block(docs)
    }
    fn harvest_dyn(self: Box<Self>) -> Box<dyn Any + Send> {
        Box::new(self.0.harvest())
    }
}
struct DynSeg(Box<dyn SegDyn>);
impl SegmentCollector for DynSeg {
    type Fruit = Box<dyn Any + Send>;
    fn collect(&mut self, doc: DocId, score: Score) {
        self.0.collect_dyn(doc, score)
    }
    fn collect_block(&mut self, docs: &[DocId]) {
        self.0.collect_block_dyn(docs)
    }
    fn harvest(self) -> Box<dyn Any + Send> {
        self.0.harvest_dyn()
    }
}
trait CollDyn: Send + Sync {
    fn for_segment_dyn(&self, ord: u32, seg: &SegmentReader) -> tantivy::Result<DynSeg>;
    fn requires_scoring_dyn(&self) -> bool;
    fn check_schema_dyn(&self, schema: &Schema) -> tantivy::Result<()>;
    fn merge_dyn(&self, fruits: Vec<Box<dyn Any + Send>>) -> tantivy::Result<Page>;
}
struct Erase<C, F>(C, F);
impl<C, T, F> CollDyn for Erase<C, F>
where
    C: Collector<Fruit = Vec<(T, DocAddress)>>,
    F: Fn(T) -> CKey + Send + Sync,
{
    fn for_segment_dyn(&self, ord: u32, seg: &SegmentReader) -> tantivy::Result<DynSeg> {
        Ok(DynSeg(Box::new(SegWrap(self.0.for_segment(ord, seg)?))))
    }
    fn requires_scoring_dyn(&self) -> bool {
        self.0.requires_scoring()
    }
    fn check_schema_dyn(&self, schema: &Schema) -> tantivy::Result<()> {
        self.0.check_schema(schema)
    }
    fn merge_dyn(&self, fruits: Vec<Box<dyn Any + Send>>) -> tantivy::Result<Page> {
        let typed: Vec<<C::Child as SegmentCollector>::Fruit> = fruits
            .into_iter()
            .map(|b| {
                *b.downcast::<<C::Child as SegmentCollector>::Fruit>()
                    .unwrap_or_else(|_| panic!("harness: segment fruit of an unexpected type"))
            })
            .collect();
        let merged = self.0.merge_fruits(typed)?;
        Ok(merged.into_iter().map(|(k, a)| ((self.1)(k), a)).collect())
    }
}
struct DynTop(Box<dyn CollDyn>);
impl Collector for DynTop {
    type Fruit = Page;
    type Child = DynSeg;
    fn check_schema(&self, schema: &Schema) -> tantivy::Result<()> {
        self.0.check_schema_dyn(schema)
    }
    fn for_segment(&self, ord: u32, seg: &SegmentReader) -> tantivy::Result<DynSeg> {
        self.0.for_segment_dyn(ord, seg)
    }
    fn requires_scoring(&self) -> bool {
        self.0.requires_scoring_dyn()
    }
    fn merge_fruits(&self, fruits: Vec<Box<dyn Any + Send>>) -> tantivy::Result<Page> {
        self.0.merge_dyn(fruits)
    }
}

fn run_erased(r: &Req, a: DynTop, b: DynTop) -> tantivy::Result<Out> {
    let s = r.searcher;
    let mut out = Out::default();
    match r.shape {
        Shape::Triple => {
            let (c1, p, c2) = s.search(r.q, &(Count, a, Count))?;
            out.page = p;
            out.counts = vec![c1, c2];
        }
        Shape::Quad => {
            let (p, c1, p2, c2) = s.search(r.q, &(a, Count, b, Count))?;
            out.page = p;
            out.page2 = Some(p2);
            out.counts = vec![c1, c2];
        }
        Shape::NestedLeft => {
            let ((p, c1), c2) = s.search(r.q, &((a, Count), Count))?;
            out.page = p;
            out.counts = vec![c1, c2];
        }
        Shape::NestedRight => {
            let (c1, (c2, p)) = s.search(r.q, &(Count, (Count, a)))?;
            out.page = p;
            out.counts = vec![c1, c2];
        }
        Shape::NestedDeep => {
            let ((c1, (p, c2)), p2) = s.search(r.q, &((Count, (a, Count)), b))?;
            out.page = p;
            out.page2 = Some(p2);
            out.counts = vec![c1, c2];
        }
        Shape::OptionSome => {
            let (p, c) = s.search(r.q, &(Some(a), None::<Count>))?;
            out.page = p.unwrap_or_else(|| panic!("harness: Some(collector) gave no fruit"));
            if let Some(c) = c {
                out.counts = vec![c];
            }
        }
        Shape::WithScorePage => {
            let by_score = TopDocs::with_limit(r.k3).and_offset(r.o3).order_by_score();
            let (p, sp) = s.search(r.q, &(a, by_score))?;
            out.page = p;
            out.score_page = Some(sp);
        }
        Shape::Filtered => {
            let pred = r.pred;
            let coll: FilterCollector<DynTop, _, u64> =
                FilterCollector::new("fu".to_string(), move |v: u64| fu_pred(pred, v), a);
            out.page = s.search(r.q, &coll)?;
        }
        other => panic!("harness: shape {other:?} is not an erased one"),
    }
    Ok(out)
}

fn run<C, T>(
    r: &Req,
    mk: impl Fn(usize, usize) -> C,
    conv: impl Fn(T) -> CKey + Clone + Send + Sync + 'static,
) -> Result<Out, String>
where
    C: Collector<Fruit = Vec<(T, DocAddress)>> + 'static,
    T: Send + 'static,
{
    let convp = |v: Vec<(T, DocAddress)>| -> Page { v.into_iter().map(|(k, a)| (conv(k), a)).collect() };
    let s = r.searcher;
    let res = catch_search(|| -> tantivy::Result<Out> {
        let mut out = Out::default();
        match r.shape {
            Shape::Plain => {
                out.page = convp(s.search(r.q, &mk(r.k, r.o))?);
            }
            Shape::TopCount => {
                let (p, c) = s.search(r.q, &(mk(r.k, r.o), Count))?;
                out.page = convp(p);
                out.counts = vec![c];
            }
            Shape::CountTop => {
                let (c, p) = s.search(r.q, &(Count, mk(r.k, r.o)))?;
                out.page = convp(p);
                out.counts = vec![c];
            }
            Shape::Multi1 | Shape::MultiTopCount | Shape::MultiMany => {
                let mut multi = MultiCollector::new();
                let mut hc = None;
                let mut h2 = None;
                let mut hs = None;
                if r.shape == Shape::MultiMany {
                    hc = Some(multi.add_collector(Count));
                }
                let h1 = multi.add_collector(mk(r.k, r.o));
                if r.shape == Shape::MultiTopCount {
                    hc = Some(multi.add_collector(Count));
                }
                if r.shape == Shape::MultiMany {
                    h2 = Some(multi.add_collector(mk(r.k2, r.o2)));
                    hs = Some(multi.add_collector(
                        TopDocs::with_limit(r.k3).and_offset(r.o3).order_by_score(),
                    ));
                }
                let mut fruit = s.search(r.q, &multi)?;
                // extraction order differs from insertion order on purpose
                if let Some(h) = hs {
                    out.score_page = Some(h.extract(&mut fruit));
                }
                out.page = convp(h1.extract(&mut fruit));
                if let Some(h) = h2 {
                    out.page2 = Some(convp(h.extract(&mut fruit)));
                }
                if let Some(h) = hc {
                    out.counts = vec![h.extract(&mut fruit)];
                }
            }
            _ => {
                let a = DynTop(Box::new(Erase(mk(r.k, r.o), conv.clone())));
                let b = DynTop(Box::new(Erase(mk(r.k2, r.o2), conv.clone())));
                out = run_erased(r, a, b)?;
            }
        }
        Ok(out)
    });
    match res {
        Ok(Ok(v)) => Ok(v),
        Ok(Err(e)) => Err(e.to_string()),
        Err(p) => Err(p),
    }
}

fn owned(v: OwnedValue) -> K1 {
    match v {
        OwnedValue::Null => None,
        OwnedValue::U64(x) => Some(OrdVal::U(x)),
        OwnedValue::I64(x) => Some(OrdVal::I(x)),
        OwnedValue::F64(x) => Some(OrdVal::F(x)),
        OwnedValue::Bool(x) => Some(OrdVal::B(x)),
        OwnedValue::Date(x) => Some(OrdVal::I(x.into_timestamp_secs())),
        OwnedValue::Str(x) => Some(OrdVal::S(x)),
        other => Some(OrdVal::S(format!("<unexpected owned value {other:?}>"))),
    }
}

fn do_search(kind: SortKind, r: &Req, t: &Arc<Tables>) -> Result<Out, String> {
    let td = |k: usize, o: usize| TopDocs::with_limit(k).and_offset(o);
    let sc = |s: Score| CKey::One(Some(OrdVal::Sc(s)));
    match kind {
        SortKind::Score => run(r, |k, o| td(k, o).order_by_score(), sc),
        SortKind::ScoreTopN(ord) => run(r, |k, o| td(k, o).order_by((SortBySimilarityScore, ord)), sc),
        SortKind::ScoreCmp(c) => run(r, |k, o| td(k, o).order_by((SortBySimilarityScore, c.to_enum())), sc),
        SortKind::ScoreErased(c) => run(
            r,
            |k, o| td(k, o).order_by((SortByErasedType::for_score(), c.to_enum())),
            // (x + 0.0 turns -0.0 into 0.0 and leaves every other value as it is)
            |v: OwnedValue| match v {
                OwnedValue::F64(x) => CKey::One(Some(OrdVal::F(x + 0.0))),
                other => CKey::One(owned(other)),
            },
        ),
        SortKind::U64Field(ord) => run(r, |k, o| td(k, o).order_by_u64_field("fu", ord), |v: Option<u64>| {
            CKey::One(v.map(OrdVal::U))
        }),
        SortKind::Fast(FF::U, ord) => run(r, |k, o| td(k, o).order_by_fast_field::<u64>("fu", ord), |v| {
            CKey::One(v.map(OrdVal::U))
        }),
        SortKind::Fast(FF::I, ord) => run(r, |k, o| td(k, o).order_by_fast_field::<i64>("fi", ord), |v| {
            CKey::One(v.map(OrdVal::I))
        }),
        SortKind::Fast(FF::F, ord) => run(r, |k, o| td(k, o).order_by_fast_field::<f64>("ff", ord), |v| {
            CKey::One(v.map(OrdVal::F))
        }),
        SortKind::Fast(FF::D, ord) => run(
            r,
            |k, o| td(k, o).order_by_fast_field::<DateTime>("fd", ord),
            |v: Option<DateTime>| CKey::One(v.map(|d| OrdVal::I(d.into_timestamp_secs()))),
        ),
        SortKind::Fast(FF::B, ord) => run(r, |k, o| td(k, o).order_by_fast_field::<bool>("fb", ord), |v| {
            CKey::One(v.map(OrdVal::B))
        }),
        SortKind::Fast(FF::S, ord) => run(
            r,
            |k, o| td(k, o).order_by_string_fast_field("fs", ord),
            |v: Option<String>| CKey::One(v.map(OrdVal::S)),
        ),
        SortKind::FastCmp(FF::U, c) => run(
            r,
            |k, o| td(k, o).order_by((SortByStaticFastValue::<u64>::for_field("fu"), c.to_enum())),
            |v: Option<u64>| CKey::One(v.map(OrdVal::U)),
        ),
        SortKind::FastCmp(FF::I, c) => run(
            r,
            |k, o| td(k, o).order_by((SortByStaticFastValue::<i64>::for_field("fi"), c.to_enum())),
            |v: Option<i64>| CKey::One(v.map(OrdVal::I)),
        ),
        SortKind::FastCmp(FF::F, c) => run(
            r,
            |k, o| td(k, o).order_by((SortByStaticFastValue::<f64>::for_field("ff"), c.to_enum())),
            |v: Option<f64>| CKey::One(v.map(OrdVal::F)),
        ),
        SortKind::FastCmp(FF::D, c) => run(
            r,
            |k, o| td(k, o).order_by((SortByStaticFastValue::<DateTime>::for_field("fd"), c.to_enum())),
            |v: Option<DateTime>| CKey::One(v.map(|d| OrdVal::I(d.into_timestamp_secs()))),
        ),
        SortKind::FastCmp(FF::B, c) => run(
            r,
            |k, o| td(k, o).order_by((SortByStaticFastValue::<bool>::for_field("fb"), c.to_enum())),
            |v: Option<bool>| CKey::One(v.map(OrdVal::B)),
        ),
        SortKind::FastCmp(FF::S, c) => run(
            r,
            |k, o| td(k, o).order_by((SortByString::for_field("fs"), c.to_enum())),
            |v: Option<String>| CKey::One(v.map(OrdVal::S)),
        ),
        SortKind::Erased(f, c) => run(
            r,
            |k, o| td(k, o).order_by((SortByErasedType::for_field(f.field()), c.to_enum())),
            |v: OwnedValue| CKey::One(owned(v)),
        ),
        SortKind::TweakMod7 => run(
            r,
            |k, o| {
                let t = t.clone();
                td(k, o).tweak_score(move |seg: &SegmentReader| {
                    let ids = seg.fast_fields().u64("id").expect("id column");
                    let t = t.clone();
                    move |doc: DocId, _score: Score| -> f32 {
                        let id = ids.first(doc).unwrap_or(u64::MAX);
                        (t.fu.get(&id).copied().unwrap_or(0) % 7) as f32
                    }
                })
            },
            sc,
        ),
        SortKind::TweakTimesScore => run(
            r,
            |k, o| td(k, o).tweak_score(move |seg: &SegmentReader| {
                let ids = seg.fast_fields().u64("id").expect("id column");
                move |doc: DocId, score: Score| -> f32 {
                    let id = ids.first(doc).unwrap_or(u64::MAX);
                    tweak_times(id, score)
                }
            }),
            sc,
        ),
        SortKind::TweakU64 => run(
            r,
            |k, o| td(k, o).tweak_score(move |seg: &SegmentReader| {
                let ids = seg.fast_fields().u64("id").expect("id column");
                move |doc: DocId, _score: Score| -> u64 {
                    let id = ids.first(doc).unwrap_or(u64::MAX);
                    tweak_u64(id)
                }
            }),
            |v: u64| CKey::One(Some(OrdVal::U(v))),
        ),
        SortKind::Custom(None) => run(r, |k, o| td(k, o).order_by(ByTable(t.clone())), |v: Option<i64>| {
            CKey::One(v.map(OrdVal::I))
        }),
        SortKind::Custom(Some(ord)) => run(
            r,
            |k, o| td(k, o).order_by((ByTable(t.clone()), ord)),
            |v: Option<i64>| CKey::One(v.map(OrdVal::I)),
        ),
        SortKind::TupleUI(a, b) => run(
            r,
            |k, o| td(k, o).order_by((
                (SortByStaticFastValue::<u64>::for_field("fu"), a),
                (SortByStaticFastValue::<i64>::for_field("fi"), b),
            )),
            |v: (Option<u64>, Option<i64>)| CKey::Two(v.0.map(OrdVal::U), v.1.map(OrdVal::I)),
        ),
        SortKind::Tuple3UIF(a, b, c) => run(
            r,
            |k, o| td(k, o).order_by((
                (SortByStaticFastValue::<u64>::for_field("fu"), a),
                (SortByStaticFastValue::<i64>::for_field("fi"), b),
                (SortByStaticFastValue::<f64>::for_field("ff"), c),
            )),
            |v: (Option<u64>, Option<i64>, Option<f64>)| {
                CKey::Many(vec![v.0.map(OrdVal::U), v.1.map(OrdVal::I), v.2.map(OrdVal::F)])
            },
        ),
        SortKind::Tuple3BCI(a, b, c) => run(
            r,
            |k, o| td(k, o).order_by((
                (SortByStaticFastValue::<bool>::for_field("fb"), a.to_enum()),
                (ByTable(t.clone()), b),
                (SortByStaticFastValue::<i64>::for_field("fi"), c.to_enum()),
            )),
            |v: (Option<bool>, Option<i64>, Option<i64>)| {
                CKey::Many(vec![v.0.map(OrdVal::B), v.1.map(OrdVal::I), v.2.map(OrdVal::I)])
            },
        ),
        SortKind::Tuple3ScoreStrU(b, c) => run(
            r,
            |k, o| td(k, o).order_by((
                (SortBySimilarityScore, Order::Desc),
                (SortByString::for_field("fs"), b),
                (SortByStaticFastValue::<u64>::for_field("fu"), c),
            )),
            |v: (Score, Option<String>, Option<u64>)| {
                CKey::Many(vec![Some(OrdVal::Sc(v.0)), v.1.map(OrdVal::S), v.2.map(OrdVal::U)])
            },
        ),
        SortKind::Tuple4BUSI(a, b, c, d) => run(
            r,
            |k, o| td(k, o).order_by((
                (SortByStaticFastValue::<bool>::for_field("fb"), a),
                (SortByStaticFastValue::<u64>::for_field("fu"), b),
                (SortByString::for_field("fs"), c),
                (SortByStaticFastValue::<i64>::for_field("fi"), d),
            )),
            |v: (Option<bool>, Option<u64>, Option<String>, Option<i64>)| {
                CKey::Many(vec![v.0.map(OrdVal::B), v.1.map(OrdVal::U), v.2.map(OrdVal::S), v.3.map(OrdVal::I)])
            },
        ),
        SortKind::Tuple4UScoreDF(a, c, d) => run(
            r,
            |k, o| td(k, o).order_by((
                (SortByStaticFastValue::<u64>::for_field("fu"), a),
                (SortBySimilarityScore, Order::Desc),
                (SortByStaticFastValue::<DateTime>::for_field("fd"), c),
                (SortByStaticFastValue::<f64>::for_field("ff"), d),
            )),
            |v: (Option<u64>, Score, Option<DateTime>, Option<f64>)| {
                CKey::Many(vec![
                    v.0.map(OrdVal::U),
                    Some(OrdVal::Sc(v.1)),
                    v.2.map(|x| OrdVal::I(x.into_timestamp_secs())),
                    v.3.map(OrdVal::F),
                ])
            },
        ),
        SortKind::TupleScoreStr(b) => run(
            r,
            |k, o| td(k, o).order_by(((SortBySimilarityScore, Order::Desc), (SortByString::for_field("fs"), b))),
            |v: (Score, Option<String>)| CKey::Two(Some(OrdVal::Sc(v.0)), v.1.map(OrdVal::S)),
        ),
    }
}

fn random_multi_kind(rng: &mut Rng, exact: bool) -> SortKind {
    let ord = |rng: &mut Rng| if rng.bool() { Order::Asc } else { Order::Desc };
    let cmp = |rng: &mut Rng| {
        *rng.pick(&[
            Cmp1::Natural,
            Cmp1::Reverse,
            Cmp1::ReverseNoneLower,
            Cmp1::NaturalNoneHigher,
        ])
    };
    loop {
        let k = match rng.weighted(&[4, 4, 2, 3, 2]) {
            0 => SortKind::Tuple3UIF(ord(rng), ord(rng), ord(rng)),
            1 => SortKind::Tuple3BCI(cmp(rng), ord(rng), cmp(rng)),
            2 => SortKind::Tuple3ScoreStrU(ord(rng), ord(rng)),
            3 => SortKind::Tuple4BUSI(ord(rng), ord(rng), ord(rng), ord(rng)),
            _ => SortKind::Tuple4UScoreDF(ord(rng), ord(rng), ord(rng)),
        };
        if !exact && k.uses_score() {
            continue;
        }
        return k;
    }
}

/// sort on one of the u64 / i64 / f64 / date / string fast fields, through every collector flavour
fn random_field_kind(rng: &mut Rng) -> SortKind {
    let ord = |rng: &mut Rng| if rng.bool() { Order::Asc } else { Order::Desc };
    let cmp = |rng: &mut Rng| {
        *rng.pick(&[
            Cmp1::Natural,
            Cmp1::Reverse,
            Cmp1::ReverseNoneLower,
            Cmp1::NaturalNoneHigher,
        ])
    };
    let ff = |rng: &mut Rng| *rng.pick(&[FF::U, FF::I, FF::F, FF::D, FF::S]);
    match rng.weighted(&[2, 5, 4, 3, 2, 1]) {
        0 => SortKind::U64Field(ord(rng)),
        1 => SortKind::Fast(ff(rng), ord(rng)),
        2 => SortKind::FastCmp(ff(rng), cmp(rng)),
        3 => SortKind::Erased(ff(rng), cmp(rng)),
        4 => SortKind::TupleUI(ord(rng), ord(rng)),
        _ => SortKind::Tuple3UIF(ord(rng), ord(rng), ord(rng)),
    }
}

fn random_sort_kind(rng: &mut Rng, exact: bool) -> SortKind {
    let ord = |rng: &mut Rng| if rng.bool() { Order::Asc } else { Order::Desc };
    let cmp = |rng: &mut Rng| {
        *rng.pick(&[
            Cmp1::Natural,
            Cmp1::Reverse,
            Cmp1::ReverseNoneLower,
            Cmp1::NaturalNoneHigher,
        ])
    };
    let ff = |rng: &mut Rng| *rng.pick(&[FF::U, FF::I, FF::F, FF::D, FF::B, FF::S]);
    loop {
        let k = match rng.weighted(&[30, 5, 3, 3, 4, 14, 10, 6, 3, 3, 2, 5, 5, 3, 5, 5, 3, 4, 3]) {
            0 => SortKind::Score,
            1 => SortKind::ScoreTopN(ord(rng)),
            2 => SortKind::ScoreCmp(cmp(rng)),
            3 => SortKind::ScoreErased(cmp(rng)),
            4 => SortKind::U64Field(ord(rng)),
            5 => SortKind::Fast(ff(rng), ord(rng)),
            6 => SortKind::FastCmp(ff(rng), cmp(rng)),
            7 => SortKind::Erased(ff(rng), cmp(rng)),
            8 => SortKind::TweakMod7,
            9 => SortKind::TweakTimesScore,
            10 => SortKind::TweakU64,
            11 => SortKind::Custom(if rng.bool() { Some(ord(rng)) } else { None }),
            12 => SortKind::TupleUI(ord(rng), ord(rng)),
            13 => SortKind::TupleScoreStr(ord(rng)),
            14 => SortKind::Tuple3UIF(ord(rng), ord(rng), ord(rng)),
            15 => SortKind::Tuple3BCI(cmp(rng), ord(rng), cmp(rng)),
            16 => SortKind::Tuple3ScoreStrU(ord(rng), ord(rng)),
            17 => SortKind::Tuple4BUSI(ord(rng), ord(rng), ord(rng), ord(rng)),
            _ => SortKind::Tuple4UScoreDF(ord(rng), ord(rng), ord(rng)),
        };
        if !exact && k.uses_score() && !k.approx_capable() {
            continue;
        }
        return k;
    }
}

// ---------------------------------------------------------------------------------------------
// corpus generator

#[derive(Clone, Copy, Debug, PartialEq, Eq)]
enum Mode {
    Ties,
    BlockMax,
    Random,
    Skew,
    /// ten mid-frequency words (each in 15-90 % of the documents) with heavy-tailed term
    /// frequencies: conjunctions of 4-8 term clauses still have many matches per segment and every
    /// clause contributes a comparable, strongly varying share of the score
    Dense,
    /// short field (titles / tags): most bodies are 1-5 tokens with an occasional long one, a
    /// small Zipf vocabulary, so the average field length is a small number with a fractional part
    /// and the (length, tf) pairs of a posting block are few, tie massively and lie close in BM25
    Short,
    /// like `Short`, but 60-95 % of the documents have no body at all (average length < 1 token)
    Sparse,
}

/// parameters of the "few shapes" variant of the Short / Sparse corpora
struct FewShapes {
    vocab: Vec<u16>,
    vocab_w: Vec<u32>,
    /// (field length, tf of the document's main word)
    shapes: Vec<(usize, usize)>,
    shape_w: Vec<u32>,
    /// percentage of documents made of filler words only
    p_noterm: u64,
    noterm_lens: Vec<usize>,
}

struct Corpus {
    docs: Vec<MDoc>,
    cuts: Vec<usize>,
    deletes: Vec<u64>,
    mode: Mode,
    del_mode: &'static str,
    value_profile: &'static str,
    body_opt: IndexRecordOption,
    /// (segment chunk index, field) forced to have no value at all
    allmiss: Option<(usize, FF)>,
}

const COMMON: [(u16, u32); 4] = [(0, 95), (1, 70), (2, 45), (3, 25)];
const MID: [(u16, u32); 6] = [(10, 20), (11, 15), (12, 10), (13, 8), (14, 5), (15, 3)];
/// vocabulary of the Short / Sparse corpora (Zipf-like weights)
const SHORT_VOCAB: [u16; 10] = [0, 1, 2, 3, 10, 11, 12, 13, 14, 15];
const SHORT_WEIGHTS: [u32; 10] = [40, 24, 14, 8, 5, 3, 2, 2, 1, 1];
const RARE: [u16; 8] = [30, 31, 32, 33, 34, 35, 36, 37];
const TITLE_WORDS: [u16; 5] = [200, 201, 202, 203, 204];
const STRS: [&str; 12] = [
    "a", "aa", "ab", "b", "ba", "m", "z", "zz", "\u{e4}", "\u{e9}t\u{e9}", "\u{4e2d}", "A",
];

fn chunk_sizes(cuts: &[usize], n: usize) -> Vec<usize> {
    let mut out = vec![];
    let mut prev = 0;
    for &c in cuts.iter().chain(std::iter::once(&n)) {
        out.push(c - prev);
        prev = c;
    }
    out
}

fn distinct_sizes(mut cuts: Vec<usize>, n: usize) -> Vec<usize> {
    for _ in 0..64 {
        let sizes = chunk_sizes(&cuts, n);
        let mut dup = None;
        'o: for i in 0..sizes.len() {
            for j in 0..i {
                if sizes[i] == sizes[j] {
                    dup = Some(i);
                    break 'o;
                }
            }
        }
        let Some(i) = dup else { return cuts };
        // grow chunk i by one at the expense of its right neighbour (or shrink the last one)
        if i < cuts.len() {
            if cuts[i] + 1 < *cuts.get(i + 1).unwrap_or(&n) {
                cuts[i] += 1;
                continue;
            }
        }
        if i > 0 && cuts[i - 1] + 1 < *cuts.get(i).unwrap_or(&n) {
            cuts[i - 1] += 1;
            continue;
        }
        return cuts;
    }
    cuts
}

fn gen_corpus(rng: &mut Rng, quick: bool) -> Corpus {
    let mode = *rng.pick(&[
        Mode::Ties,
        Mode::BlockMax,
        Mode::Random,
        Mode::Random,
        Mode::Skew,
        Mode::Skew,
        Mode::Dense,
        Mode::Dense,
        Mode::Short,
        Mode::Short,
        Mode::Short,
        Mode::Sparse,
    ]);
    let size_class = match mode {
        // posting lists of the frequent words must span several full 128-document blocks
        Mode::Short => rng.weighted(&[0, 2, 3, 5, 1]),
        Mode::Sparse => rng.weighted(&[0, 0, 0, 1, 2]),
        Mode::Dense => rng.weighted(&[1, 4, 3, 5, 1]),
        _ => rng.weighted(if quick { &[4, 5, 4, 3, 1] } else { &[3, 4, 3, 3, 2] }),
    };
    let n = match size_class {
        0 => rng.urange(1, 40),
        1 => rng.urange(100, 400),
        2 => *rng.pick(&[127usize, 128, 129, 255, 256, 257, 383, 384, 385, 640]),
        3 => rng.urange(1000, 3000),
        _ => *rng.pick(&[4095usize, 4096, 4097, 4224, 5000, 6500, 8200, 8320]),
    };
    let nseg = if n < 2 {
        1
    } else if matches!(mode, Mode::Short | Mode::Sparse) && rng.bool() {
        // one segment: the block-max metadata written at indexing time is evaluated under exactly
        // the average field length it was computed with
        1
    } else {
        rng.urange(1, 8).min(n)
    };
    let cuts = if nseg >= 2 && rng.chance(if nseg >= 4 { 3 } else { 2 }, 6) {
        // segments of (nearly) equal size
        let mut c: Vec<usize> = (1..nseg).map(|i| i * n / nseg).filter(|&c| c >= 1 && c < n).collect();
        c.dedup();
        c
    } else {
        random_cuts(rng, n, nseg)
    };
    // the searcher orders segments by descending max_doc and breaks ties by a random segment id:
    // keep the chunk sizes distinct so that a case replays with the same segment ordinals
    let cuts = distinct_sizes(cuts, n);
    let body_opt = if rng.chance(2, 3) {
        IndexRecordOption::WithFreqs
    } else {
        IndexRecordOption::WithFreqsAndPositions
    };
    // chunk index per doc
    let mut chunk_of = vec![0usize; n];
    {
        let mut c = 0usize;
        let mut ci = 0usize;
        for (i, slot) in chunk_of.iter_mut().enumerate() {
            while ci < cuts.len() && i >= cuts[ci] {
                ci += 1;
                c += 1;
            }
            *slot = c;
        }
    }
    let nchunks = cuts.len() + 1;
    // per-segment length scale (Skew: strongly different average field lengths)
    let scales: Vec<usize> = (0..nchunks)
        .map(|_| match mode {
            Mode::Skew => *rng.pick(&[1usize, 1, 4, 20, 60]),
            Mode::Random => *rng.pick(&[1usize, 1, 2]),
            _ => 1,
        })
        .collect();
    let few_values = rng.chance(1, 2);
    // third value profile ("drift"): five values per field, drawn with weights that differ
    // strongly from one segment to the next (a value that is frequent in one segment is rare or
    // absent in another): the group of equal keys in which a page cut falls spans several segments,
    // and the per-segment top lists contribute very unequal shares of it
    let drift: Option<Vec<Vec<u32>>> = if rng.chance(if nchunks >= 4 { 2 } else { 1 }, 4) {
        Some(
            (0..nchunks)
                .map(|_| {
                    (0..5)
                        .map(|_| {
                            let x = rng.f64();
                            (x.powi(8) * 1000.0) as u32 + 1
                        })
                        .collect()
                })
                .collect(),
        )
    } else {
        None
    };
    let miss = |rng: &mut Rng| *rng.pick(&[0u64, 0, 10, 50, 90]);
    let (mu, mi, mf, md, ms, mb) = (miss(rng), miss(rng), miss(rng), miss(rng), miss(rng), miss(rng));
    let allmiss = if nchunks >= 2 && rng.chance(1, 6) {
        Some((rng.usize_below(nchunks), *rng.pick(&[FF::U, FF::I, FF::F, FF::D, FF::B, FF::S])))
    } else {
        None
    };
    let hi_tf = rng.urange(3, 12);
    let hi_pos = rng.usize_below(128);
    let const_len = rng.urange(8, 20);
    // Dense: presence probability (percent) of every COMMON / MID word, one "loud" word
    let mut dense_p: Vec<(u16, u64)> = vec![];
    for (w, _) in COMMON.iter() {
        dense_p.push((*w, rng.range(30, 90)));
    }
    for (w, _) in MID.iter() {
        dense_p.push((*w, rng.range(15, 70)));
    }
    let loud = dense_p[rng.usize_below(dense_p.len())].0;
    // Short / Sparse: share of documents without body, of one-token bodies, of long bodies
    let p_empty: u64 = match mode {
        Mode::Sparse => *rng.pick(&[60u64, 75, 88, 95]),
        _ => *rng.pick(&[0u64, 0, 10, 30]),
    };
    let p_single: u64 = *rng.pick(&[30u64, 50, 70, 85]);
    let p_long: u64 = *rng.pick(&[3u64, 8, 15, 30]);
    let long_max = *rng.pick(&[8usize, 12, 24, 40]);
    // Short / Sparse, two corpora out of three: documents of a few (length, tf) shapes only
    let few_shapes: Option<FewShapes> = if matches!(mode, Mode::Short | Mode::Sparse) && rng.chance(2, 3) {
        let nv = rng.urange(2, 4);
        let l1 = *rng.pick(&[1usize, 1, 1, 2, 2, 3, 4]);
        let t1 = if rng.bool() { l1 } else { rng.urange(1, l1) };
        let mut shapes = vec![(l1, t1)];
        let mut shape_w: Vec<u32> = vec![1000];
        if rng.chance(1, 3) {
            // a second frequent shape
            let l = rng.urange(1, 5);
            shapes.push((l, rng.urange(1, l)));
            shape_w.push(*rng.pick(&[100u32, 300, 600]));
        }
        for _ in 0..rng.urange(1, 3) {
            // rare, longer documents with a high tf, between "pure" (length = tf) and length = 3 tf
            let t = *rng.pick(&[2usize, 3, 4, 5, 7, 10, 14, 20]);
            shapes.push((t + rng.urange(0, 2 * t), t));
            shape_w.push(*rng.pick(&[3u32, 10, 30]));
        }
        let noterm_lens: Vec<usize> = (0..rng.urange(1, 2)).map(|_| rng.urange(1, 6)).collect();
        Some(FewShapes {
            vocab: SHORT_VOCAB[..nv].to_vec(),
            vocab_w: SHORT_WEIGHTS[..nv].to_vec(),
            shapes,
            shape_w,
            p_noterm: *rng.pick(&[0u64, 20, 45, 70]),
            noterm_lens,
        })
    } else {
        None
    };
    let mut docs = Vec::with_capacity(n);
    for i in 0..n {
        let mut d = MDoc::empty(i as u64 + 1);
        let chunk = chunk_of[i];
        let mut body: Vec<u16> = vec![];
        match mode {
            Mode::Ties => {
                for (w, p) in COMMON.iter().chain(MID.iter()) {
                    if rng.chance(*p as u64, 100) {
                        body.push(*w);
                    }
                }
                if rng.chance(1, 50) {
                    body.push(*rng.pick(&RARE));
                }
                while body.len() < const_len {
                    body.push(100 + (rng.below(40) as u16));
                }
            }
            Mode::BlockMax => {
                // w0 and w1 in every document with tf 1, except one high-tf document per
                // 128-document posting block and the very last document (partial block)
                let special = i % 128 == hi_pos || i + 1 == n || (i + 1 < n && chunk_of[i + 1] != chunk);
                let tf0 = if special { hi_tf } else { 1 };
                for _ in 0..tf0 {
                    body.push(0);
                }
                let tf1 = if special && rng.bool() { hi_tf } else { 1 };
                for _ in 0..tf1 {
                    body.push(1);
                }
                for (w, p) in MID.iter() {
                    if rng.chance(*p as u64, 100) {
                        body.push(*w);
                    }
                }
                let target = const_len + hi_tf * 2;
                while body.len() < target {
                    body.push(100 + (rng.below(40) as u16));
                }
            }
            Mode::Dense => {
                for (w, p) in dense_p.iter() {
                    if rng.chance(*p, 100) {
                        let mut tf = 1;
                        while tf < 9 && rng.chance(2, 5) {
                            tf += 1;
                        }
                        if rng.chance(1, 6) {
                            tf += rng.urange(2, 6);
                        }
                        if *w == loud && rng.chance(1, 4) {
                            tf += rng.urange(5, 15);
                        }
                        for _ in 0..tf {
                            body.push(*w);
                        }
                    }
                }
                let filler = match rng.weighted(&[5, 3]) {
                    0 => rng.urange(0, 6),
                    _ => rng.urange(6, 30),
                };
                for _ in 0..filler {
                    body.push(100 + (rng.below(60) as u16));
                }
                rng.shuffle(&mut body);
            }
            Mode::Short | Mode::Sparse => {
                if rng.chance(p_empty, 100) {
                    // no body
                } else if let Some(fs) = &few_shapes {
                    // few (length, tf) shapes: one massive base shape, a few rare long ones
                    if rng.chance(fs.p_noterm, 100) {
                        let len = *rng.pick(&fs.noterm_lens);
                        for _ in 0..len {
                            body.push(100 + (rng.below(20) as u16));
                        }
                    } else {
                        let main = fs.vocab[rng.weighted(&fs.vocab_w)];
                        let (len, tf) = fs.shapes[rng.weighted(&fs.shape_w)];
                        for _ in 0..tf {
                            body.push(main);
                        }
                        while body.len() < len {
                            if rng.chance(1, 3) {
                                body.push(fs.vocab[rng.weighted(&fs.vocab_w)]);
                            } else {
                                body.push(100 + (rng.below(20) as u16));
                            }
                        }
                        rng.shuffle(&mut body);
                    }
                } else {
                    let len = if rng.chance(p_single, 100) {
                        1
                    } else if rng.chance(p_long, 100) {
                        rng.urange(6, long_max)
                    } else {
                        rng.urange(2, 5)
                    };
                    let main = SHORT_VOCAB[rng.weighted(&SHORT_WEIGHTS)];
                    let tf_main = match rng.weighted(&[2, 2, 1]) {
                        0 => rng.urange(1, len),
                        1 => (len * 7 + 9) / 10,
                        _ => len,
                    };
                    for _ in 0..tf_main {
                        body.push(main);
                    }
                    while body.len() < len {
                        if rng.bool() {
                            body.push(SHORT_VOCAB[rng.weighted(&SHORT_WEIGHTS)]);
                        } else {
                            body.push(100 + (rng.below(20) as u16));
                        }
                    }
                    rng.shuffle(&mut body);
                }
            }
            Mode::Random | Mode::Skew => {
                let scale = scales[chunk];
                for (w, p) in COMMON.iter().chain(MID.iter()) {
                    if rng.chance(*p as u64, 100) {
                        let mut tf = 1;
                        while tf < 9 && rng.chance(2, 5) {
                            tf += 1;
                        }
                        if mode == Mode::Skew && rng.chance(1, 6) {
                            tf += rng.urange(2, 6);
                        }
                        for _ in 0..tf {
                            body.push(*w);
                        }
                    }
                }
                if rng.chance(1, 30) {
                    body.push(*rng.pick(&RARE));
                }
                let filler = match rng.weighted(&[5, 3, 1]) {
                    0 => rng.urange(0, 6),
                    1 => rng.urange(6, 30),
                    _ => rng.urange(30, 120),
                } * scale;
                for _ in 0..filler {
                    body.push(100 + (rng.below(60) as u16));
                }
                rng.shuffle(&mut body);
            }
        }
        d.body = body;
        let tl = rng.urange(0, 4);
        d.title = (0..tl).map(|_| *rng.pick(&TITLE_WORDS)).collect();
        d.tag = rng.weighted(&[10, 5, 3, 1, 1]) as u8;
        let present = |rng: &mut Rng, m: u64, f: FF| -> bool {
            if let Some((c, ff)) = allmiss {
                if c == chunk && ff == f {
                    return false;
                }
            }
            !rng.chance(m, 100)
        };
        if present(rng, mu, FF::U) {
            d.fu = Some(if let Some(w) = &drift {
                [0u64, 1, 2, 7, 9][rng.weighted(&w[chunk])]
            } else if few_values {
                *rng.pick(&[0u64, 1, 2, 7])
            } else {
                match rng.below(8) {
                    0 => 0,
                    1 => u64::MAX,
                    2 => u64::MAX - 1,
                    3 => 1 << 63,
                    _ => rng.next_u64() >> rng.below(64),
                }
            });
        }
        if present(rng, mi, FF::I) {
            d.fi = Some(if let Some(w) = &drift {
                [-1i64, 0, 1, 5, 8][rng.weighted(&w[chunk])]
            } else if few_values {
                *rng.pick(&[-1i64, 0, 1, 5])
            } else {
                match rng.below(8) {
                    0 => i64::MIN,
                    1 => i64::MAX,
                    2 => 0,
                    3 => -1,
                    _ => (rng.next_u64() >> rng.below(64)) as i64 * if rng.bool() { 1 } else { -1 },
                }
            });
        }
        if present(rng, mf, FF::F) {
            d.ff = Some(if let Some(w) = &drift {
                [-2.5f64, 0.0, 0.5, 1e10, 3.0][rng.weighted(&w[chunk])]
            } else if few_values {
                *rng.pick(&[-2.5f64, 0.0, 0.5, 1e10])
            } else {
                match rng.below(10) {
                    0 => f64::MAX,
                    1 => f64::MIN,
                    2 => f64::INFINITY,
                    3 => f64::NEG_INFINITY,
                    4 => f64::MIN_POSITIVE,
                    5 => 0.0,
                    _ => (rng.f64() - 0.5) * 10f64.powi(rng.irange(-5, 12) as i32),
                }
            });
        }
        if present(rng, md, FF::D) {
            d.fd = Some(if let Some(w) = &drift {
                [0i64, 86_400, 1_700_000_000, 3600, -86_400][rng.weighted(&w[chunk])]
            } else if few_values {
                *rng.pick(&[0i64, 86_400, 1_700_000_000])
            } else {
                rng.irange(-2_000_000_000, 4_000_000_000)
            });
        }
        if present(rng, ms, FF::S) {
            d.fs = Some(if let Some(w) = &drift {
                ["a", "b", "zz", "c", "d"][rng.weighted(&w[chunk])].to_string()
            } else if few_values {
                (*rng.pick(&["a", "b", "zz"])).to_string()
            } else if rng.chance(1, 3) {
                format!("{}{}", rng.pick(&STRS), rng.below(1000))
            } else {
                (*rng.pick(&STRS)).to_string()
            });
        }
        if present(rng, mb, FF::B) {
            d.fb = Some(rng.bool());
        }
        docs.push(d);
    }
    let (del_mode, deletes): (&'static str, Vec<u64>) = match rng.weighted(&[4, 3, 2, 2]) {
        0 => ("none", vec![]),
        1 => (
            "few",
            (0..(n / 40).max(1)).map(|_| rng.range(1, n as u64)).collect(),
        ),
        2 => (
            "many",
            (1..=n as u64).filter(|_| rng.chance(3, 10)).collect(),
        ),
        _ => {
            // a whole run of documents (one or more posting blocks)
            let start = rng.usize_below(n);
            let len = *rng.pick(&[1usize, 64, 128, 130, 300]);
            ("run", (start..(start + len).min(n)).map(|i| i as u64 + 1).collect())
        }
    };
    Corpus {
        docs,
        cuts,
        deletes,
        mode,
        del_mode,
        value_profile: if drift.is_some() {
            "few-values-with-per-segment-weights"
        } else if few_values {
            "few-values"
        } else {
            "wide-range"
        },
        body_opt,
        allmiss,
    }
}

// ---------------------------------------------------------------------------------------------
// query generator

fn body_term(rng: &mut Rng) -> Q {
    let w = match rng.weighted(&[6, 4, 1]) {
        0 => COMMON[rng.usize_below(COMMON.len())].0,
        1 => MID[rng.usize_below(MID.len())].0,
        _ => *rng.pick(&RARE),
    };
    Q::Term {
        f: TF::Body,
        w,
        opt: IndexRecordOption::WithFreqs,
    }
}

fn any_leaf(rng: &mut Rng) -> Q {
    match rng.weighted(&[10, 3, 2, 1, 1, 1]) {
        0 => body_term(rng),
        1 => Q::Term {
            f: TF::Title,
            w: *rng.pick(&TITLE_WORDS),
            opt: if rng.chance(1, 4) {
                IndexRecordOption::WithFreqsAndPositions
            } else {
                IndexRecordOption::WithFreqs
            },
        },
        2 => Q::Tag(rng.below(5) as u8),
        3 => Q::Phrase {
            f: TF::Title,
            ws: vec![*rng.pick(&TITLE_WORDS), *rng.pick(&TITLE_WORDS)],
        },
        4 => Q::All,
        _ => Q::Const(Box::new(body_term(rng)), *rng.pick(&[0.5f32, 1.0, 3.25, 0.0, -1.5])),
    }
}

fn distinct_body_terms(rng: &mut Rng, n: usize) -> Vec<Q> {
    let mut seen = HashSet::new();
    let mut out = vec![];
    let mut guard = 0;
    while out.len() < n && guard < 100 {
        guard += 1;
        let t = body_term(rng);
        if let Q::Term { w, .. } = &t {
            if seen.insert(*w) {
                out.push(t);
            }
        }
    }
    out
}

/// boosts / constant scores <= 0 ("demotion" of a clause, or a clause that must not weigh in)
const NONPOS: [f32; 7] = [-2.0, -0.5, 0.0, -1.0, 0.0, -10.0, -3.7];

fn nonpos(rng: &mut Rng) -> f32 {
    *rng.pick(&NONPOS)
}

fn maybe_boost(rng: &mut Rng, q: Q) -> Q {
    if rng.chance(1, 5) {
        let b = if rng.chance(1, 4) {
            nonpos(rng)
        } else {
            *rng.pick(&[0.5f32, 2.0, 3.7, 0.1, 10.0])
        };
        Q::Boost(Box::new(q), b)
    } else {
        q
    }
}

/// queries over the given (distinct) term clauses in which one or more clauses carry a boost or a
/// constant score <= 0: unions, intersections, must + demoting should, a lone should clause,
/// n-of-n should clauses. Term-only ones take the block-max paths under order_by_score.
fn demotion(rng: &mut Rng, mut ts: Vec<Q>) -> Q {
    let n = ts.len();
    let neg_boost = |rng: &mut Rng, t: Q| Q::Boost(Box::new(t), nonpos(rng));
    match rng.weighted(&[6, 4, 3, 2, 2, 1]) {
        0 | 1 => {
            // union (0) / intersection (1) with one or two demoted clauses
            let occ = if n < 2 || rng.chance(3, 5) { Occur::Should } else { Occur::Must };
            let n_neg = if n >= 3 && rng.chance(1, 3) { 2 } else { 1 };
            let mut idx: Vec<usize> = (0..n).collect();
            rng.shuffle(&mut idx);
            let chosen: Vec<usize> = idx.into_iter().take(n_neg).collect();
            let cs = ts
                .into_iter()
                .enumerate()
                .map(|(i, t)| (occ, if chosen.contains(&i) { neg_boost(rng, t) } else { maybe_pos_boost(rng, t) }))
                .collect();
            Q::Bool(cs)
        }
        2 => {
            // must + demoting should clauses
            let first = ts.remove(0);
            let mut cs = vec![(Occur::Must, first)];
            for t in ts {
                cs.push((Occur::Should, neg_boost(rng, t)));
            }
            Q::Bool(cs)
        }
        3 => {
            // the demoted clause is a constant score
            let last = ts.pop().expect("at least one term");
            let mut cs: Vec<(Occur, Q)> = ts.into_iter().map(|t| (Occur::Should, t)).collect();
            cs.push((Occur::Should, Q::Const(Box::new(last), nonpos(rng))));
            Q::Bool(cs)
        }
        4 => {
            // a lone (demoted) should clause, possibly with an excluded one
            let t = ts.remove(0);
            let mut cs = vec![(Occur::Should, neg_boost(rng, t))];
            if !ts.is_empty() && rng.chance(1, 3) {
                cs.push((Occur::MustNot, ts.remove(0)));
            }
            Q::Bool(cs)
        }
        _ => {
            let need = if rng.bool() { n } else { rng.urange(1, n) };
            let which = rng.usize_below(n);
            let qs = ts
                .into_iter()
                .enumerate()
                .map(|(i, t)| if i == which { neg_boost(rng, t) } else { t })
                .collect();
            Q::MinShould(qs, need)
        }
    }
}

fn maybe_pos_boost(rng: &mut Rng, q: Q) -> Q {
    if rng.chance(1, 4) {
        Q::Boost(Box::new(q), *rng.pick(&[0.5f32, 2.0, 3.7]))
    } else {
        q
    }
}

/// some boost or constant score of the query is negative
fn has_negative(q: &Q) -> bool {
    match q {
        Q::Term { .. } | Q::Tag(_) | Q::Phrase { .. } | Q::All => false,
        Q::Bool(cs) => cs.iter().any(|(o, c)| *o != Occur::MustNot && has_negative(c)),
        Q::MinShould(qs, _) | Q::DisMax(qs, _) => qs.iter().any(has_negative),
        Q::Boost(inner, b) => *b < 0.0 || has_negative(inner),
        Q::Const(_, c) => *c < 0.0,
    }
}

/// some boost or constant score of the query is <= 0
fn has_nonpositive(q: &Q) -> bool {
    match q {
        Q::Term { .. } | Q::Tag(_) | Q::Phrase { .. } | Q::All => false,
        Q::Bool(cs) => cs.iter().any(|(o, c)| *o != Occur::MustNot && has_nonpositive(c)),
        Q::MinShould(qs, _) | Q::DisMax(qs, _) => qs.iter().any(has_nonpositive),
        Q::Boost(inner, b) => *b <= 0.0 || has_nonpositive(inner),
        Q::Const(_, c) => *c <= 0.0,
    }
}

/// the same query with every boost and constant score replaced by its absolute value (same
/// matches; every document's score is the sum of the magnitudes of its addends)
fn abs_twin(q: &Q) -> Q {
    match q {
        Q::Term { .. } | Q::Tag(_) | Q::Phrase { .. } | Q::All => q.clone(),
        Q::Bool(cs) => Q::Bool(cs.iter().map(|(o, c)| (*o, abs_twin(c))).collect()),
        Q::MinShould(qs, n) => Q::MinShould(qs.iter().map(abs_twin).collect(), *n),
        Q::DisMax(qs, t) => Q::DisMax(qs.iter().map(abs_twin).collect(), *t),
        Q::Boost(inner, b) => Q::Boost(Box::new(abs_twin(inner)), b.abs()),
        Q::Const(inner, c) => Q::Const(inner.clone(), c.abs()),
    }
}

/// some term clause of the query is scored with a NEGATIVE weight (the product of the boosts
/// around it is negative). Boolean queries hand the term scorers of their clauses - also the one
/// scorer a nested boolean clause collapses to in a segment where its other clauses match
/// nothing - to block_wand / block_wand_single_scorer / block_wand_intersection under
/// TopDocs::order_by_score.
fn negatively_weighted_term(q: &Q, negative: bool) -> bool {
    match q {
        Q::Term { .. } => negative,
        Q::Tag(_) | Q::Phrase { .. } | Q::All | Q::Const(..) => false,
        Q::Bool(cs) => cs
            .iter()
            .any(|(o, c)| *o != Occur::MustNot && negatively_weighted_term(c, negative)),
        Q::MinShould(qs, _) | Q::DisMax(qs, _) => qs.iter().any(|c| negatively_weighted_term(c, negative)),
        Q::Boost(inner, b) => *b != 0.0 && negatively_weighted_term(inner, negative ^ (*b < 0.0)),
    }
}

fn tree(rng: &mut Rng, depth: usize) -> Q {
    if depth == 0 || rng.chance(1, 3) {
        let leaf = any_leaf(rng);
        return maybe_boost(rng, leaf);
    }
    match rng.weighted(&[8, 2, 1]) {
        0 => {
            let n = rng.urange(2, 4);
            let mut cs: Vec<(Occur, Q)> = (0..n)
                .map(|_| {
                    let o = match rng.weighted(&[4, 4, 1]) {
                        0 => Occur::Must,
                        1 => Occur::Should,
                        _ => Occur::MustNot,
                    };
                    (o, tree(rng, depth - 1))
                })
                .collect();
            if cs.iter().all(|(o, _)| *o == Occur::MustNot) {
                cs[0].0 = Occur::Should;
            }
            let b = Q::Bool(cs);
            maybe_boost(rng, b)
        }
        1 => {
            let n = rng.urange(2, 4);
            let qs: Vec<Q> = (0..n).map(|_| tree(rng, depth - 1)).collect();
            let m = rng.urange(1, n);
            Q::MinShould(qs, m)
        }
        _ => Q::Const(Box::new(tree(rng, depth - 1)), *rng.pick(&[0.25f32, 1.0, 2.0, 0.0, -0.75])),
    }
}

/// `n` distinct words of COMMON u MID. `dense`: uniformly (every word is frequent in a Dense
/// corpus); otherwise the four COMMON words first, so that the conjunction keeps matches
fn wide_words(rng: &mut Rng, n: usize, dense: bool) -> Vec<u16> {
    let mut common: Vec<u16> = COMMON.iter().map(|x| x.0).collect();
    let mut mid: Vec<u16> = MID.iter().map(|x| x.0).collect();
    rng.shuffle(&mut common);
    rng.shuffle(&mut mid);
    let mut all: Vec<u16> = common.into_iter().chain(mid).collect();
    if dense || rng.chance(1, 4) {
        rng.shuffle(&mut all);
    }
    all.truncate(n);
    // clause order is part of the input (the scorers are re-sorted by cost internally)
    rng.shuffle(&mut all);
    all
}

/// conjunction of 4-8 term clauses, all on fields with term frequencies (block-max intersection
/// with three and more secondaries); some clauses boosted, so that also the clauses on the most
/// frequent words weigh in; written with MUST or as "n of n SHOULD clauses must match"
fn wide_intersection(rng: &mut Rng, dense: bool) -> Q {
    let n = *rng.pick(&[4usize, 4, 4, 5, 5, 6, 7, 8]);
    let boosted = rng.chance(1, 2);
    let mut ts: Vec<Q> = wide_words(rng, n, dense)
        .into_iter()
        .map(|w| {
            let t = Q::term(TF::Body, w);
            if boosted && rng.chance(1, 3) {
                Q::Boost(Box::new(t), *rng.pick(&[0.5f32, 2.0, 3.7, 10.0]))
            } else {
                t
            }
        })
        .collect();
    if rng.chance(1, 6) {
        ts.push(Q::term(TF::Title, *rng.pick(&TITLE_WORDS)));
    }
    if rng.chance(1, 5) {
        let m = ts.len();
        Q::MinShould(ts, m)
    } else {
        Q::Bool(ts.into_iter().map(|t| (Occur::Must, t)).collect())
    }
}

fn gen_query(rng: &mut Rng, mode: Mode) -> (Q, &'static str) {
    let dense = mode == Mode::Dense;
    match rng.weighted(&[5, 2, 6, 6, 2, 5, if dense { 14 } else { 3 }, 5]) {
        6 => (wide_intersection(rng, dense), "wide-term-intersection"),
        7 => {
            let n = *rng.pick(&[1usize, 2, 2, 2, 3, 3, 4]);
            let ts = distinct_body_terms(rng, n);
            (demotion(rng, ts), "non-positive-boost")
        }
        0 => (body_term(rng), "term"),
        1 => {
            let q = match rng.below(6) {
                4 => Q::Boost(Box::new(body_term(rng)), nonpos(rng)),
                5 => Q::Const(Box::new(body_term(rng)), nonpos(rng)),
                0 => Q::Tag(rng.below(5) as u8),
                1 => Q::Term {
                    f: TF::Body,
                    w: COMMON[rng.usize_below(3)].0,
                    opt: IndexRecordOption::Basic,
                },
                2 => Q::Term {
                    f: TF::Title,
                    w: *rng.pick(&TITLE_WORDS),
                    opt: IndexRecordOption::WithFreqsAndPositions,
                },
                _ => Q::Boost(Box::new(body_term(rng)), *rng.pick(&[0.5f32, 2.0, 3.7])),
            };
            (q, "term-variant")
        }
        2 => {
            let n = *rng.pick(&[2usize, 2, 3, 3, 4, 5]);
            let ts = distinct_body_terms(rng, n);
            (Q::Bool(ts.into_iter().map(|t| (Occur::Should, t)).collect()), "term-union")
        }
        3 => {
            let n = *rng.pick(&[2usize, 2, 3, 3, 4]);
            let mut ts = distinct_body_terms(rng, n);
            if rng.chance(1, 5) {
                ts.push(Q::term(TF::Title, *rng.pick(&TITLE_WORDS)));
            }
            (Q::Bool(ts.into_iter().map(|t| (Occur::Must, t)).collect()), "term-intersection")
        }
        4 => {
            // union / intersection containing a clause without term frequencies (non-WAND path)
            let mut ts = distinct_body_terms(rng, 2);
            ts.push(Q::Tag(rng.below(3) as u8));
            let o = if rng.bool() { Occur::Should } else { Occur::Must };
            (Q::Bool(ts.into_iter().map(|t| (o, t)).collect()), "mixed-freq-bool")
        }
        _ => (tree(rng, 2), "tree"),
    }
}

/// keys are bit-identical by construction: one scoring leaf, or the (commutative) sum of exactly
/// two plain term clauses
fn is_exact(q: &Q) -> bool {
    if q.n_leaves() == 1 {
        return true;
    }
    // (a boosted term clause is one term scorer with a scaled weight, a constant clause one value)
    let simple = |c: &Q| match c {
        Q::Term { .. } | Q::Tag(_) => true,
        Q::Boost(inner, _) | Q::Const(inner, _) => matches!(&**inner, Q::Term { .. } | Q::Tag(_)),
        _ => false,
    };
    if let Q::Bool(cs) = q {
        let scoring: Vec<&Q> = cs.iter().filter(|(o, _)| *o != Occur::MustNot).map(|(_, q)| q).collect();
        return scoring.len() == 2 && cs.iter().all(|(_, q)| simple(q));
    }
    if let Q::MinShould(qs, _) = q {
        return qs.len() == 2 && qs.iter().all(simple);
    }
    false
}

// ---------------------------------------------------------------------------------------------
// comparison

struct Ctx6<'a> {
    corpus_desc: &'a Value,
    qdesc: &'a str,
    qkind: &'static str,
    kind: SortKind,
    n_leaves: usize,
    /// "" for a plain TopDocs search, the shape for a composed one (goes into the witness; the
    /// signature of a composed search starts with `composed-collector:`)
    shape: Shape,
    /// queries with negative boosts: per document, the score of the same query with every boost
    /// and constant replaced by its absolute value, i.e. (up to rounding) the sum of the
    /// magnitudes of the addends; the rounding error of a sum with cancellation is relative to
    /// that magnitude, not to the value of the sum
    mags: Option<&'a HashMap<DocAddress, f32>>,
}

impl Ctx6<'_> {
    fn sig_prefix(&self) -> &'static str {
        if self.shape == Shape::Plain {
            ""
        } else {
            "composed-collector:"
        }
    }
    /// rounding tolerance of the score `s` of document `a` (float sum of n clauses)
    fn tol(&self, a: &DocAddress, s: f32) -> f32 {
        let mag = self.mags.and_then(|m| m.get(a)).copied().unwrap_or(0.0).abs().max(s.abs());
        4.0 * self.n_leaves as f32 * ulp(mag)
    }
}

fn brief(list: &[(CKey, DocAddress)], from: usize) -> Vec<Value> {
    list.iter()
        .skip(from)
        .take(6)
        .map(|(k, a)| json!([a.segment_ord, a.doc_id, k.js()]))
        .collect()
}

/// exact comparison of one page with entries O..O+K of the complete order: (problem, position of
/// the first difference), None when the page is right
fn diagnose_exact(
    spec: CmpSpec,
    expected_all: &[(CKey, Hit)],
    got: &[(CKey, DocAddress)],
    k: usize,
    o: usize,
) -> Option<(&'static str, usize)> {
    let m = expected_all.len();
    let lo = o.min(m);
    let hi = (o + k).min(m);
    let exp = &expected_all[lo..hi];
    if exp.len() != got.len() {
        return Some(("page-length", 0));
    }
    for (i, ((ek, eh), (gk, ga))) in exp.iter().zip(got.iter()).enumerate() {
        if eh.addr != *ga {
            // classify
            let got_set: HashSet<DocAddress> = got.iter().map(|x| x.1).collect();
            let exp_set: HashSet<DocAddress> = exp.iter().map(|x| x.1.addr).collect();
            let problem = if got_set == exp_set {
                "order-within-page"
            } else if got_set.len() != got.len() {
                "duplicate-document"
            } else {
                // is some expected doc missing whose key is strictly better than a returned one?
                let keys: HashMap<DocAddress, &CKey> = expected_all.iter().map(|(k, h)| (h.addr, k)).collect();
                let mut strictly = false;
                let mut unknown = false;
                for (ek2, eh2) in exp.iter() {
                    if !got_set.contains(&eh2.addr) {
                        for (_, ga2) in got.iter() {
                            if !exp_set.contains(ga2) {
                                match keys.get(ga2) {
                                    None => unknown = true,
                                    Some(gk2) => {
                                        if spec.rank(ek2, gk2) == Ordering::Less {
                                            strictly = true;
                                        }
                                    }
                                }
                            }
                        }
                    }
                }
                if unknown {
                    "returned-document-not-a-match"
                } else if strictly {
                    "strictly-better-document-left-out"
                } else {
                    "tie-not-broken-by-ascending-address"
                }
            };
            return Some((problem, i));
        }
        if !ek.same(gk) {
            return Some(("returned-key-differs-from-true-key", i));
        }
    }
    None
}

/// exact comparison of one page; returns false when a violation was reported
fn check_exact(
    rep: &mut Report,
    c: &Ctx6,
    expected_all: &[(CKey, Hit)],
    got: &[(CKey, DocAddress)],
    k: usize,
    o: usize,
    extra_sig: &str,
    merge_truncates: bool,
) -> bool {
    let m = expected_all.len();
    let lo = o.min(m);
    let hi = (o + k).min(m);
    let exp = &expected_all[lo..hi];
    let diag = diagnose_exact(c.kind.cmp(), expected_all, got, k, o);
    let problem = diag.map(|d| d.0);
    let at = diag.map(|d| d.1).unwrap_or(0);
    if let Some(p) = problem {
        if std::env::var("C06_DEBUG").is_ok() {
            eprintln!("problem {p} K={k} O={o} expected head: {:?}", expected_all.iter().take(8).map(|(k, h)| (h.addr, k.js().to_string(), h.id)).collect::<Vec<_>>());
            eprintln!("   got: {:?}", got.iter().map(|(k, a)| (a, k.js().to_string())).collect::<Vec<_>>());
        }
        // two defects of the unchanged tree get their own, specific signatures (see the
        // attribution comments in `case`); everything else is keyed on collector family + problem
        // a third defect: the SortKeyComputer impl for 4-tuples has no `comparator()` override, so
        // TopNComputer and merge use `Comparator::default()` (natural order for every component)
        // instead of the component comparators; only keys that ask for a non-natural order differ
        let four_with_order = matches!(
            c.kind.cmp(),
            CmpSpec::Four(a, b, cc, d) if [a, b, cc, d].iter().any(|x| *x != Cmp1::Natural)
        );
        let sig = if extra_sig == "negboost" {
            // a fourth one (see `negative_boost_attribution`)
            format!("negative-boost-block-wand-bound:{p}")
        } else if four_with_order {
            format!("{}tuple4-key-ignores-component-order:{p}", c.sig_prefix())
        } else if p == "strictly-better-document-left-out" && extra_sig == "stale" {
            format!("block-max-segment-local-avgdl:{p}[{}]", c.kind.family())
        } else if p == "tie-not-broken-by-ascending-address" && extra_sig == "stale" {
            // the same defect seen through a tie: the document whose block was skipped on a stale
            // bound has exactly the score of the document that took its place (from another
            // segment or a later block), so the symptom is a wrong tie-break instead of a worse key
            format!(
                "block-max-segment-local-avgdl:equal-score-document-with-smaller-address-left-out[{}]",
                c.kind.family()
            )
        } else {
            // (the former `merge-unsorted-segment-results:` attribution is gone: that defect was
            // repaired in /repo ee7ed766f; `merge_truncates` only feeds a reach counter now)
            let _ = merge_truncates;
            format!("{}{}:{}", c.sig_prefix(), c.kind.family(), p)
        };
        rep.violation(
            sig,
            json!({
                "collector": c.shape.name(),
                "sort": c.kind.name(), "query": c.qdesc, "query_kind": c.qkind, "K": k, "O": o,
                "matches": m, "first_difference_at": at,
                "expected_from_diff": exp.iter().skip(at).take(6).map(|(k, h)| json!([h.addr.segment_ord, h.addr.doc_id, k.js()])).collect::<Vec<_>>(),
                "got_from_diff": brief(got, at),
                "expected_len": exp.len(), "got_len": got.len(),
                "corpus": c.corpus_desc,
            }),
        );
        return false;
    }
    true
}

/// tolerance comparison for score keys that are float sums of >= 3 clauses: (problem, position)
fn diagnose_approx(
    c: &Ctx6,
    expected_all: &[(CKey, Hit)],
    got: &[(CKey, DocAddress)],
    k: usize,
    o: usize,
) -> Option<(&'static str, usize)> {
    let m = expected_all.len();
    let lo = o.min(m);
    let hi = (o + k).min(m);
    let spec = c.kind.cmp();
    let by_addr: HashMap<DocAddress, f32> = expected_all.iter().map(|(_, h)| (h.addr, h.score)).collect();
    if got.len() != hi - lo {
        return Some(("page-length", 0));
    }
    let mut seen = HashSet::new();
    for (i, (gk, ga)) in got.iter().enumerate() {
        let Some(gs) = gk.score() else {
            return Some(("returned-key-not-a-score", i));
        };
        if !seen.insert(*ga) {
            return Some(("duplicate-document", i));
        }
        let Some(&es) = by_addr.get(ga) else {
            return Some(("returned-document-not-a-match", i));
        };
        if (gs - es).abs() > c.tol(ga, es) {
            return Some(("returned-score-differs-from-exhaustive-beyond-rounding", i));
        }
        // the document at global rank lo+i of the exhaustive order must have (within
        // rounding) the same score: otherwise a strictly better one was left out or a
        // strictly worse one got in
        let rank = &expected_all[lo + i].1;
        let rank_score = rank.score;
        if (es - rank_score).abs() > 2.0 * c.tol(ga, es).max(c.tol(&rank.addr, rank_score)) {
            return Some((
                if matches!(spec, CmpSpec::One(Cmp1::Natural | Cmp1::NaturalNoneHigher)) == (es < rank_score) {
                    "strictly-better-document-left-out"
                } else {
                    "document-ranked-too-low"
                },
                i,
            ));
        }
        // the returned list must be sorted by its own keys, ties by address
        if i > 0 {
            let (pk, pa) = &got[i - 1];
            let r = spec.rank(pk, gk);
            if r == Ordering::Greater || (r == Ordering::Equal && pa >= ga) {
                return Some(("returned-list-not-sorted-by-its-own-keys-and-address", i));
            }
        }
    }
    None
}

fn check_approx(
    rep: &mut Report,
    c: &Ctx6,
    expected_all: &[(CKey, Hit)],
    got: &[(CKey, DocAddress)],
    k: usize,
    o: usize,
    extra_sig: &str,
) -> bool {
    let m = expected_all.len();
    let lo = o.min(m);
    let hi = (o + k).min(m);
    if let Some((p, at)) = diagnose_approx(c, expected_all, got, k, o) {
        if std::env::var("C06_DEBUG").is_ok() {
            let by: HashMap<DocAddress, f32> = expected_all.iter().map(|(_, h)| (h.addr, h.score)).collect();
            eprintln!("approx problem {p} at {at} K={k} O={o} query {}", c.qdesc);
            for (gk, ga) in got.iter().skip(at.saturating_sub(1)).take(4) {
                eprintln!("   got {:?} {} exhaustive {:?} mag {:?}", ga, gk.js(), by.get(ga), c.mags.and_then(|m| m.get(ga)));
            }
        }
        let sig = if extra_sig == "negboost" {
            format!("negative-boost-block-wand-bound:{p}[float-sum]")
        } else if p == "strictly-better-document-left-out" && extra_sig == "stale" {
            format!("block-max-segment-local-avgdl:{p}[{},float-sum]", c.kind.family())
        } else {
            format!("{}{}:{}[float-sum]", c.sig_prefix(), c.kind.family(), p)
        };
        rep.violation(
            sig,
            json!({
                "collector": c.shape.name(),
                "sort": c.kind.name(), "query": c.qdesc, "query_kind": c.qkind, "K": k, "O": o,
                "matches": m, "at": at, "clauses": c.n_leaves,
                "expected_around": expected_all[lo..hi].iter().skip(at).take(6).map(|(k, h)| json!([h.addr.segment_ord, h.addr.doc_id, k.js()])).collect::<Vec<_>>(),
                "got_around": brief(got, at),
                "corpus": c.corpus_desc,
            }),
        );
        return false;
    }
    true
}

fn kclass(k: usize, m: usize) -> &'static str {
    if k == 1 {
        "1"
    } else if k == 2 {
        "2"
    } else if k == 10 && m != 10 && m != 11 && m != 5 {
        "10"
    } else if k + 1 == m {
        "m-1"
    } else if k == m {
        "m"
    } else if k > m {
        "m+5"
    } else {
        "other"
    }
}

/// Attribution helper for "strictly better document left out" under order_by_score on a single
/// term: true when, in the segment of the left-out document, the (fieldnorm, tf) pair that
/// maximises the BM25 tf-factor of its 128-document posting block under the SEGMENT-LOCAL average
/// field length is not the pair that maximises it under the SEARCHER-WIDE average field length,
/// i.e. the block-max stored at indexing time underestimates the block at search time.
fn stale_block_max(
    searcher: &Searcher,
    sch: &Sch,
    f: TF,
    w: u16,
    missing: DocAddress,
) -> Option<bool> {
    let field = Q::field(sch, f);
    let term = Term::from_field_text(field, &word(w));
    let table = my_fieldnorm_table();
    let mut tokens = 0u64;
    let mut ndocs = 0u64;
    for seg in searcher.segment_readers() {
        tokens += seg.inverted_index(field).ok()?.total_num_tokens();
        ndocs += seg.max_doc() as u64;
    }
    let global_avg = tokens as f32 / ndocs as f32;
    let seg = searcher.segment_reader(missing.segment_ord);
    let inv = seg.inverted_index(field).ok()?;
    let local_avg = inv.total_num_tokens() as f32 / seg.max_doc() as f32;
    let fnr = seg.get_fieldnorms_reader(field).ok()?;
    let mut postings = inv.read_postings(&term, IndexRecordOption::WithFreqs).ok()??;
    use tantivy::postings::Postings;
    use tantivy::DocSet;
    let mut list: Vec<(DocId, u32, u8)> = vec![];
    let mut d = postings.doc();
    while d != tantivy::TERMINATED {
        list.push((d, postings.term_freq(), fnr.fieldnorm_id(d)));
        d = postings.advance();
    }
    let pos = list.iter().position(|x| x.0 == missing.doc_id)?;
    let b = pos / 128;
    let block = &list[b * 128..((b + 1) * 128).min(list.len())];
    if block.len() < 128 {
        return Some(false); // last (vint) block: its maximum is computed at search time
    }
    let tff = |tf: u32, id: u8, avg: f32| -> f32 {
        let norm = 1.2f32 * (1.0 - 0.75 + 0.75 * table[id as usize] as f32 / avg);
        tf as f32 / (tf as f32 + norm)
    };
    let best = |avg: f32| -> (u32, u8) {
        let mut bi = (block[0].1, block[0].2);
        let mut bv = tff(bi.0, bi.1, avg);
        for x in block.iter() {
            let v = tff(x.1, x.2, avg);
            if v > bv {
                bv = v;
                bi = (x.1, x.2);
            }
        }
        bi
    };
    let stored = best(local_avg);
    let max_global = block
        .iter()
        .map(|x| tff(x.1, x.2, global_avg))
        .fold(0.0f32, f32::max);
    Some(tff(stored.0, stored.1, global_avg) < max_global)
}

/// everything a query round needs about one corpus
struct Env {
    case: u64,
    corpus: Corpus,
    sch: Sch,
    _index: Index,
    searcher: Searcher,
    tables: Arc<Tables>,
    by_id: HashMap<u64, usize>,
    corpus_desc: Value,
    nseg: usize,
    exec: String,
    has_deletes: bool,
    empty_column: BTreeMap<&'static str, bool>,
    /// tiny corpus: the whole (K, O) grid is searched, plain and composed
    small: bool,
}

fn setup(case: u64, corpus: Corpus, threads: usize, rep: &mut Report, small: bool) -> Option<Env> {
    let sch = mk_schema(corpus.body_opt);
    let index: Index = match build_index(&sch, &corpus.docs, &corpus.cuts, &corpus.deletes, 0) {
        Ok(i) => i,
        Err((call, e)) => {
            rep.violation(format!("api-error:{call}"), json!({"error": e}));
            return None;
        }
    };
    let mut index = index;
    if threads > 0 {
        if let Err(e) = index.set_multithread_executor(threads) {
            rep.violation("api-error:set_multithread_executor", json!({"error": e.to_string()}));
            return None;
        }
    }
    let reader = match index.reader() {
        Ok(r) => r,
        Err(e) => {
            rep.violation("api-error:reader", json!({"error": e.to_string()}));
            return None;
        }
    };
    let searcher = reader.searcher();
    let nseg = searcher.segment_readers().len();
    let exec = if threads == 0 { "single".to_string() } else { format!("pool{threads}") };
    let has_deletes = searcher.segment_readers().iter().any(|s| s.has_deletes());
    let avg_lens: Vec<u64> = searcher
        .segment_readers()
        .iter()
        .map(|s| {
            s.inverted_index(sch.body)
                .map(|i| i.total_num_tokens() / (s.max_doc().max(1) as u64))
                .unwrap_or(0)
        })
        .collect();
    let corpus_desc = json!({
        "case": case, "docs": corpus.docs.len(), "cuts": corpus.cuts, "mode": format!("{:?}", corpus.mode),
        "deletes": corpus.del_mode, "fast_field_values": corpus.value_profile, "n_deleted_ids": corpus.deletes.len(), "segments": nseg, "executor": exec,
        "body_index_option": format!("{:?}", corpus.body_opt), "avg_body_len_per_segment": avg_lens,
        "segment_without_any_value": corpus.allmiss.map(|(c, f)| json!([c, f.field()])),
        "max_docs": searcher.segment_readers().iter().map(|s| s.max_doc()).collect::<Vec<_>>(),
    });
    rep.observe("corpus_mode", format!("{:?}", corpus.mode));
    for seg in searcher.segment_readers() {
        if let Ok(inv) = seg.inverted_index(sch.body) {
            let avg = inv.total_num_tokens() as f64 / seg.max_doc().max(1) as f64;
            let class = if avg < 1.0 {
                "<1"
            } else if avg < 3.0 {
                "1..3"
            } else if avg < 8.0 {
                "3..8"
            } else {
                ">=8"
            };
            rep.observe(
                "avg_body_len_of_a_segment",
                format!("{class}{}", if nseg == 1 { " (only segment)" } else { "" }),
            );
        }
    }
    rep.observe("segments", nseg.to_string());
    rep.observe("executor", exec.clone());
    rep.observe("deletes", corpus.del_mode);
    rep.observe("fast_field_values", corpus.value_profile);
    rep.observe("body_index_option", format!("{:?}", corpus.body_opt));
    rep.count("corpora", 1);
    rep.count("docs_indexed", corpus.docs.len() as u64);
    let by_id = ids_to_docs(&corpus.docs);
    let tables = Arc::new(Tables {
        fu: corpus.docs.iter().filter_map(|d| d.fu.map(|v| (d.id, v))).collect(),
        custom: corpus.docs.iter().map(|d| (d.id, custom_key(d))).collect(),
    });
    // which fast fields have a segment without any value (see the finding in the final report)
    let mut empty_column: BTreeMap<&'static str, bool> = BTreeMap::new();
    {
        let deleted: HashSet<u64> = corpus.deletes.iter().copied().collect();
        let _ = deleted;
        for f in [FF::U, FF::I, FF::F, FF::D, FF::B, FF::S] {
            // a segment (chunk) all of whose documents lack the value
            let mut start = 0usize;
            let mut ends = corpus.cuts.clone();
            ends.push(corpus.docs.len());
            let mut any_empty = false;
            for e in ends {
                if e > start && corpus.docs[start..e].iter().all(|d| f.model(d).is_none()) {
                    any_empty = true;
                }
                start = e;
            }
            empty_column.insert(f.field(), any_empty);
        }
    }
    Some(Env {
        case,
        corpus,
        sch,
        _index: index,
        searcher,
        tables,
        by_id,
        corpus_desc,
        nseg,
        exec,
        has_deletes,
        empty_column,
        small,
    })
}

fn case(case: u64, rng: &mut Rng, rep: &mut Report, quick: bool) {
    let corpus = gen_corpus(rng, quick);
    let threads = *rng.pick(&[0usize, 0, 0, 2, 4]);
    let Some(env) = setup(case, corpus, threads, rep, false) else {
        return;
    };
    for qi in 0..8 {
        let (q, qkind) = gen_query(rng, env.corpus.mode);
        query_round(&env, rng, rep, &q, qkind, qi);
    }
}

fn query_round(env: &Env, rng: &mut Rng, rep: &mut Report, q: &Q, qkind: &'static str, qi: usize) {
    let Env {
        corpus,
        sch,
        searcher,
        tables,
        by_id,
        corpus_desc,
        exec,
        empty_column,
        ..
    } = env;
    let (case, nseg, has_deletes, small) = (env.case, env.nseg, env.has_deletes, env.small);
    let qdesc = q.describe();
    let query = q.to_query(&sch);
    let exact_q = is_exact(&q);
    let n_leaves = q.n_leaves().max(1);
    let hits: Vec<Hit> = match catch_search(|| searcher.search(&*query, &Exhaustive)) {
        Ok(Ok(h)) => h,
        Ok(Err(e)) => {
            rep.violation(
                "api-error:search[exhaustive]",
                json!({"error": e.to_string(), "query": qdesc, "corpus": corpus_desc}),
            );
            return;
        }
        Err(p) => {
            rep.violation(
                panic_sig(&p),
                json!({"panic": p, "collector": "exhaustive scoring collector (Weight::for_each)", "query": qdesc, "corpus": corpus_desc}),
            );
            return;
        }
    };
    rep.count("exhaustive_passes", 1);
    let m = hits.len();
    rep.count("matches_scored_exhaustively", m as u64);
    if hits.iter().any(|h| !by_id.contains_key(&h.id)) {
        rep.harness_error(format!("case {case}: exhaustive hit with unknown id"));
        return;
    }
    // boosts / constant scores <= 0
    let neg_q = has_negative(q);
    if has_nonpositive(q) {
        rep.count("queries_with_a_boost_or_constant_score_<=0", 1);
        rep.observe("non_positive_boost_query_kind", qkind);
    }
    if hits.iter().any(|h| h.score <= 0.0) {
        rep.count("queries_with_matches_scored_<=0", 1);
    }
    // float sums with negative addends: the rounding tolerance is relative to the magnitude of the
    // addends, obtained from the same exhaustive collector on the |boost| twin of the query
    let mags: Option<HashMap<DocAddress, f32>> = if neg_q && !exact_q {
        let twin = abs_twin(q).to_query(sch);
        match catch_search(|| searcher.search(&*twin, &Exhaustive)) {
            Ok(Ok(h)) => {
                rep.count("exhaustive_passes_on_the_absolute_boost_twin", 1);
                Some(h.into_iter().map(|h| (h.addr, h.score)).collect())
            }
            Ok(Err(e)) => {
                rep.violation(
                    "api-error:search[exhaustive]",
                    json!({"error": e.to_string(), "query": abs_twin(q).describe(), "corpus": corpus_desc}),
                );
                return;
            }
            Err(p) => {
                rep.violation(
                    panic_sig(&p),
                    json!({"panic": p, "collector": "exhaustive scoring collector (Weight::for_each)", "query": abs_twin(q).describe(), "corpus": corpus_desc}),
                );
                return;
            }
        }
    } else {
        None
    };
    // complete order by relevance score (for the TopDocs-by-score companion of composed searches)
    let mut expected_by_score: Vec<(CKey, Hit)> = hits
        .iter()
        .map(|h| (CKey::One(Some(OrdVal::Sc(h.score))), *h))
        .collect();
    expected_by_score.sort_by(|a, b| {
        b.1.score
            .partial_cmp(&a.1.score)
            .expect("no NaN score")
            .then_with(|| a.1.addr.cmp(&b.1.addr))
    });
    let neg_block_wand_query = matches!(q, Q::Bool(_) | Q::MinShould(..)) && negatively_weighted_term(q, false);
    // posting-list shape of the query terms (reach evidence + non-triviality)
    let mut terms = vec![];
    q.terms(&mut terms);
    let mut max_df_seg = 0u32;
    for (f, w) in &terms {
        let t = Term::from_field_text(Q::field(&sch, *f), &word(*w));
        for seg in searcher.segment_readers() {
            if let Ok(inv) = seg.inverted_index(t.field()) {
                if let Ok(df) = inv.doc_freq(&t) {
                    max_df_seg = max_df_seg.max(df);
                }
            }
        }
    }
    // queries made of term clauses only (possibly boosted): the ones that can take a
    // block-max pruning path
    let is_term = |c: &Q| match c {
        Q::Term { .. } => true,
        Q::Boost(inner, _) => matches!(&**inner, Q::Term { .. }),
        _ => false,
    };
    let pruning_terms: Option<Vec<(TF, u16)>> = match &q {
        c if is_term(c) => Some(terms.clone()),
        Q::Bool(cs) if cs.iter().all(|(_, c)| is_term(c)) => Some(terms.clone()),
        Q::MinShould(cs, _) if cs.iter().all(is_term) => Some(terms.clone()),
        _ => None,
    };
    let blk = if max_df_seg > 4096 {
        ">4096"
    } else if max_df_seg > 128 {
        ">128"
    } else {
        "<=128"
    };
    rep.observe("longest_posting_list_in_a_segment", blk);
    rep.observe("query_kind", qkind);
    if let (Some(pt), Q::Bool(_) | Q::MinShould(..)) = (&pruning_terms, &q) {
        let all_must = match &q {
            Q::Bool(cs) => cs.iter().all(|(o, _)| *o == Occur::Must),
            Q::MinShould(cs, need) => *need == cs.len(),
            _ => false,
        };
        if all_must {
            rep.observe("term_conjunction_width", pt.len().min(9).to_string());
            if pt.len() >= 4 && m >= 2 {
                rep.count("conjunctions_of_4_or_more_term_clauses_with_matches", 1);
            }
        }
    }
    rep.observe("key_comparison", if exact_q { "exact" } else { "float-sum-tolerance" });
    // matches per segment (for the attribution of the merge defect, see below)
    let mut per_seg: BTreeMap<u32, usize> = BTreeMap::new();
    for h in &hits {
        *per_seg.entry(h.addr.segment_ord).or_insert(0) += 1;
    }
    // the grid of (K, O): the K values of the property, plus mid-size K (several segments
    // deliver full per-segment lists, so the merge has to truncate)
    let mut ks: Vec<usize> = vec![1, 2, 10, m + 5];
    if m >= 2 {
        ks.push(m - 1);
    }
    if m >= 1 {
        ks.push(m);
    }
    if m >= 8 {
        ks.push(m / 2);
        ks.push(m / 3);
        ks.push(rng.urange(3, m - 1));
    }
    // plan: (kind, K, O, is_paging_page)
    let mut plan: Vec<(SortKind, usize, usize, bool)> = vec![];
    if small {
        // tiny corpus: the whole (K, O) grid for order_by_score and three more sort kinds
        let mut kinds = vec![SortKind::Score];
        for _ in 0..3 {
            kinds.push(random_sort_kind(rng, exact_q));
        }
        let mut gk: Vec<usize> = (1..=(m + 1).min(5)).collect();
        let mut go: Vec<usize> = (0..=m.min(4)).collect();
        for x in [m, m + 1] {
            if x >= 1 && !gk.contains(&x) {
                gk.push(x);
            }
            if !go.contains(&x) {
                go.push(x);
            }
        }
        for kind in kinds {
            for &k in &gk {
                for &o in &go {
                    plan.push((kind, k, o, false));
                }
            }
        }
    }
    let n_searches = if small {
        0
    } else if qi == 0 {
        10
    } else {
        8
    };
    for si in 0..n_searches {
        let kind = if si < 3 { SortKind::Score } else { random_sort_kind(rng, exact_q) };
        let k = if m >= 8 && nseg >= 3 && rng.chance(1, 3) {
            rng.urange(2, m / 2 + 1)
        } else {
            *rng.pick(&ks)
        };
        let o = match rng.below(4) {
            0 => 0,
            1 => 1,
            2 => k,
            _ => m + rng.urange(0, 3),
        };
        plan.push((kind, k, o, false));
    }
    // queries that can take a block-max path over posting lists with full blocks: more
    // order_by_score searches with a K far below the number of matches (the threshold rises
    // early and whole blocks / candidates have to be skipped on the stored bounds)
    if pruning_terms.is_some() && max_df_seg > 128 && m >= 3 {
        for _ in 0..3 {
            let k = (*rng.pick(&[1usize, 2, 3, 5, 10, 20, 50])).min(m - 1);
            let o = *rng.pick(&[0usize, 0, 0, 1, 3]);
            plan.push((SortKind::Score, k, o, false));
            rep.count("extra_small_K_score_searches_on_block_max_paths", 1);
        }
    }
    // four or more segments that each hold more matches than O+K: every per-segment top list
    // is cut to O+K entries (and handed over in no particular order), the merge receives far
    // more than 2(O+K) entries and has to cut repeatedly, in the middle of a segment's list
    if nseg >= 4 && m >= 8 {
        let mut counts: Vec<usize> = per_seg.values().copied().collect();
        counts.sort_unstable_by(|a, b| b.cmp(a));
        if counts.len() >= 4 {
            for _ in 0..4 {
                let c = counts[rng.urange(3, counts.len() - 1)];
                if c < 4 {
                    continue;
                }
                let cut = rng.urange((c * 35 / 100).max(2), (c * 95 / 100).max(2));
                let o = (*rng.pick(&[0usize, 0, 1, 3, cut / 2, cut - 1])).min(cut - 1);
                let kind = loop {
                    let k = if rng.chance(3, 4) {
                        random_field_kind(rng)
                    } else {
                        random_sort_kind(rng, exact_q)
                    };
                    if exact_q || !k.uses_score() {
                        break k;
                    }
                };
                plan.push((kind, cut - o, o, false));
                rep.count("searches_with_O+K_below_the_match_count_of_4_or_more_segments", 1);
            }
        }
    }
    // targeted (K,O): the cut O+K falls inside a group of equal keys that lies in the third or
    // a later segment (resolved below, once the full order for the sort kind is known)
    if nseg >= 3 && m >= 4 {
        for _ in 0..2 {
            let kind = loop {
                let k = random_sort_kind(rng, exact_q);
                if exact_q || !k.uses_score() {
                    break k;
                }
            };
            plan.push((kind, usize::MAX, rng.usize_below(3), false));
        }
    }
    // 3- and 4-component keys: the cut falls inside a group of documents that tie on the first
    // two (or three) components and belong to a segment holding more matches than O+K, so the
    // per-segment top-N has to decide on the last components (resolved below); plus a
    // paging run over such a key
    if m >= 3 {
        for _ in 0..3 {
            let kind = random_multi_kind(rng, exact_q);
            plan.push((kind, usize::MAX - 1, rng.usize_below(3), false));
        }
        if rng.chance(1, 3) {
            let kind = random_multi_kind(rng, exact_q);
            let mut p = *rng.pick(&[1usize, 2, 3, 5, 10, 33]);
            if m / p > 16 {
                p = m / 16 + 1;
            }
            let mut off = 0usize;
            while off <= m {
                plan.push((kind, p, off, true));
                off += p;
            }
            rep.count("paging_runs", 1);
            rep.count("paging_runs_over_3_or_4_component_keys", 1);
        }
    }
    // paging: successive offsets over exactly comparable keys enumerate every match exactly
    // once, i.e. page i equals entries i*P..(i+1)*P of the full order
    if m >= 1 && rng.chance(1, 2) {
        let kind = loop {
            let k = random_sort_kind(rng, exact_q);
            if exact_q || !k.uses_score() {
                break k;
            }
        };
        let mut p = *rng.pick(&[1usize, 2, 3, 7, 10, 50, 128]);
        if m / p > 24 {
            p = m / 24 + 1;
        }
        let mut off = 0usize;
        while off <= m {
            plan.push((kind, p, off, true));
            off += p;
        }
        rep.count("paging_runs", 1);
    }
    let mut paging_broken = false;
    for (si, (kind, k, o, paging)) in plan.into_iter().enumerate() {
        if paging && paging_broken {
            continue;
        }
        let mut expected_all: Vec<(CKey, Hit)> = hits
            .iter()
            .map(|h| (kind.key_of(h, &corpus.docs[by_id[&h.id]]), *h))
            .collect();
        let spec = kind.cmp();
        expected_all.sort_by(|a, b| spec.rank(&a.0, &b.0).then_with(|| a.1.addr.cmp(&b.1.addr)));
        let (k, o) = if k == usize::MAX {
            let cands: Vec<usize> = (0..m.saturating_sub(1))
                .filter(|&i| {
                    let (a, b) = (&expected_all[i], &expected_all[i + 1]);
                    a.1.addr.segment_ord >= 2
                        && a.1.addr.segment_ord == b.1.addr.segment_ord
                        && spec.rank(&a.0, &b.0) == Ordering::Equal
                })
                .collect();
            if cands.is_empty() {
                continue;
            }
            // preferably a segment that holds more matches than O+K: its own top list is
            // cut (and handed over in no particular order) before the merge
            let deep: Vec<usize> = cands
                .iter()
                .copied()
                .filter(|&i| per_seg[&expected_all[i].1.addr.segment_ord] > i + 1)
                .collect();
            let t = if !deep.is_empty() && rng.chance(3, 4) {
                rep.count("searches_with_cut_inside_a_tie_group_of_a_late_segment_holding_more_matches_than_the_cut", 1);
                *rng.pick(&deep) + 1
            } else {
                *rng.pick(&cands) + 1
            };
            let o = o.min(t - 1);
            rep.count("searches_with_cut_inside_a_tie_group_of_a_late_segment", 1);
            (t - o, o)
        } else if k == usize::MAX - 1 {
            let arity = match spec {
                CmpSpec::Four(..) => 4,
                _ => 3,
            };
            // prefer groups tied on all but the last component, else on the first two
            let find = |n: usize| -> Vec<usize> {
                (0..m.saturating_sub(1))
                    .filter(|&i| {
                        let (a, b) = (&expected_all[i], &expected_all[i + 1]);
                        a.1.addr.segment_ord == b.1.addr.segment_ord
                            && per_seg[&a.1.addr.segment_ord] > i + 1
                            && prefix_tied(&a.0, &b.0, n)
                            && spec.rank(&a.0, &b.0) != Ordering::Equal
                    })
                    .collect()
            };
            let mut cands = find(arity - 1);
            if cands.is_empty() || rng.chance(1, 3) {
                let c2 = find(2);
                if !c2.is_empty() {
                    cands = c2;
                }
            }
            if cands.is_empty() {
                // no such group: any K below the largest segment's match count
                let big = per_seg.values().copied().max().unwrap_or(1);
                let t = rng.urange(1, big.max(2) - 1).max(1);
                let o = o.min(t - 1);
                (t - o, o)
            } else {
                let t = *rng.pick(&cands) + 1;
                let o = o.min(t - 1);
                rep.count("searches_with_cut_inside_a_group_tied_on_a_key_prefix_of_a_3_or_4_tuple", 1);
                (t - o, o)
            }
        } else {
            (k, o)
        };
        let oclass = if o == 0 {
            "0"
        } else if o == 1 {
            "1"
        } else if o >= m {
            "beyond-end"
        } else if paging {
            "page"
        } else {
            "K"
        };
        let exact = exact_q || !kind.uses_score();
        rep.eval();
        if paging {
            rep.count("paging_pages", 1);
        }
        rep.observe("sort_kind", kind.name());
        rep.observe("K_class", kclass(k, m));
        rep.observe("O_class", oclass);
        let plain_req = Req {
            searcher,
            q: &*query,
            shape: Shape::Plain,
            k,
            o,
            k2: 1,
            o2: 0,
            k3: 1,
            o3: 0,
            pred: 0,
        };
        let got = match do_search(kind, &plain_req, tables) {
            Ok(g) => g.page,
            Err(e) => {
                let field = match kind {
                    SortKind::U64Field(_) => Some("fu"),
                    SortKind::Fast(f, _) | SortKind::FastCmp(f, _) | SortKind::Erased(f, _) => Some(f.field()),
                    SortKind::TupleUI(..) => {
                        if empty_column["fu"] {
                            Some("fu")
                        } else {
                            Some("fi")
                        }
                    }
                    SortKind::TupleScoreStr(_) => Some("fs"),
                    SortKind::Tuple3UIF(..)
                    | SortKind::Tuple3BCI(..)
                    | SortKind::Tuple3ScoreStrU(..)
                    | SortKind::Tuple4BUSI(..)
                    | SortKind::Tuple4UScoreDF(..) => ["fu", "fi", "ff", "fb", "fs", "fd"]
                        .into_iter()
                        .find(|f| empty_column[*f]),
                    _ => None,
                };
                let sig = match field {
                    _ if e.starts_with(PANIC_PREFIX) => panic_sig(&e),
                    // (never observed: a sort on a fast field when one segment holds no value
                    // at all for that field)
                    Some(f) if empty_column[f] => format!(
                        "{}:search-fails-when-a-segment-has-no-value-for-the-sort-field",
                        kind.family()
                    ),
                    _ => format!("api-error:search[{}]", kind.family()),
                };
                rep.violation(
                    sig,
                    json!({"error": e, "sort": kind.name(), "query": qdesc, "K": k, "O": o, "corpus": corpus_desc}),
                );
                paging_broken |= paging;
                continue;
            }
        };
        let c6 = Ctx6 {
            corpus_desc: &corpus_desc,
            qdesc: &qdesc,
            qkind,
            kind,
            n_leaves,
            shape: Shape::Plain,
            mags: mags.as_ref(),
        };
        let mut extra = String::new();
        // attribution 0 (negative weight on a block-max path): order_by_score on a boolean query
        // with a negatively weighted term clause returns a wrong page, while the very same page
        // requested through `(TopDocs, Count)` - same collector, same per-segment top-K and
        // merge, but Weight::for_each instead of Weight::for_each_pruning - is right
        if matches!(kind, SortKind::Score) && neg_block_wand_query {
            rep.count("order_by_score_searches_on_boolean_queries_with_a_negatively_weighted_term", 1);
            let wrong = |page: &[(CKey, DocAddress)]| {
                if exact {
                    diagnose_exact(spec, &expected_all, page, k, o).is_some()
                } else {
                    diagnose_approx(&c6, &expected_all, page, k, o).is_some()
                }
            };
            if wrong(&got) {
                let req2 = Req {
                    shape: Shape::TopCount,
                    ..plain_req
                };
                if let Ok(out2) = do_search(kind, &req2, tables) {
                    if !wrong(&out2.page) {
                        extra = "negboost".to_string();
                    }
                }
            }
        }
        // attribution 1 (see `stale_block_max`): some document that belongs to the first O+K
        // entries but was not returned sits in a posting block whose stored block-max pair
        // underestimates the block at search time
        if extra.is_empty() && matches!(kind, SortKind::Score) && nseg >= 2 && pruning_terms.is_some() {
            let hi = (o + k).min(m);
            let got_set: HashSet<DocAddress> = got.iter().map(|x| x.1).collect();
            'attr: for (_, h) in expected_all[..hi].iter().filter(|(_, h)| !got_set.contains(&h.addr)).take(30) {
                for (f, w) in pruning_terms.as_ref().unwrap() {
                    if stale_block_max(&searcher, &sch, *f, *w, h.addr) == Some(true) {
                        extra = "stale".to_string();
                        break 'attr;
                    }
                }
            }
        }
        // attribution 2: merge_fruits feeds the per-segment lists (in heap / buffer order,
        // not in address order) to a TopNComputer of capacity 2*(O+K); that computer only
        // truncates - and then starts rejecting keys equal to its threshold - when more than
        // 2*(O+K) entries arrive. With at most two segments this cannot happen.
        let delivered: usize = per_seg.values().map(|&c| c.min(o + k)).sum();
        let merge_truncates = delivered > 2 * (o + k);
        let ok = if exact {
            check_exact(rep, &c6, &expected_all, &got, k, o, &extra, merge_truncates)
        } else {
            check_approx(rep, &c6, &expected_all, &got, k, o, &extra)
        };
        if !ok {
            paging_broken |= paging;
        }
        // non-triviality
        let tie = if o + k < m && o + k >= 1 {
            let a = &expected_all[o + k - 1];
            let b = &expected_all[o + k];
            if exact {
                spec.rank(&a.0, &b.0) == Ordering::Equal
            } else {
                (a.1.score - b.1.score).abs() <= 4.0 * n_leaves as f32 * ulp(a.1.score)
            }
        } else {
            false
        };
        if tie {
            rep.count("searches_with_a_tie_at_the_page_boundary", 1);
            if merge_truncates {
                rep.count("searches_with_boundary_tie_and_truncating_merge", 1);
            }
        }
        if o + k < m && (tie || max_df_seg > 128) {
            rep.nontrivial(format!(
                "{qkind}|{}|K{}|O{oclass}|s{nseg}|{exec}|tie{}|{blk}|{}",
                kind.name(),
                kclass(k, m),
                tie as u8,
                if has_deletes { "del" } else { "nodel" }
            ));
        }
        if ok && case < 2 && qi < 2 && si < 2 {
            rep.sample(json!({
                "corpus": corpus_desc, "query": qdesc, "sort": kind.name(), "K": k, "O": o, "matches": m,
                "comparison": if exact {"exact"} else {"tolerance"},
                "returned_head": brief(&got, 0),
            }));
        }
        // ---- the same page with the TopDocs collector composed with other collectors
        if !(small || rng.chance(1, 2)) {
            continue;
        }
        let shape = *rng.pick(&SHAPES);
        let (k2, o2) = match rng.below(3) {
            0 => (k, o + k),
            1 => (*rng.pick(&ks), rng.usize_below(m + 2)),
            _ => (k.max(2) - 1, o + 1),
        };
        let k3 = *rng.pick(&[1usize, 2, 3, 10]);
        let o3 = *rng.pick(&[0usize, 0, 1, 2, 5]);
        let pred = rng.below(3) as u8;
        let req = Req {
            shape,
            k2,
            o2,
            k3,
            o3,
            pred,
            ..plain_req
        };
        rep.eval();
        rep.count("composed_searches", 1);
        rep.observe("composition", shape.name());
        rep.observe("composition_x_collector_family", format!("{}|{}", shape.name(), kind.family()));
        rep.observe("composition_x_executor", format!("{}|{exec}", shape.name()));
        let out = match do_search(kind, &req, tables) {
            Ok(out) => out,
            Err(e) => {
                let sig = if e.starts_with(PANIC_PREFIX) {
                    panic_sig(&e)
                } else {
                    format!("composed-collector:api-error:search[{}]", kind.family())
                };
                rep.violation(
                    sig,
                    json!({"error": e, "collector": shape.name(), "sort": kind.name(), "query": qdesc, "K": k, "O": o, "corpus": corpus_desc}),
                );
                continue;
            }
        };
        let cc = Ctx6 {
            corpus_desc: &corpus_desc,
            qdesc: &qdesc,
            qkind,
            kind,
            n_leaves,
            shape,
            mags: mags.as_ref(),
        };
        // every Count of the composition saw every match
        if out.counts.iter().any(|&c| c != m) {
            rep.violation(
                "composed-collector:count-differs-from-the-number-of-matches",
                json!({"collector": shape.name(), "sort": kind.name(), "query": qdesc, "K": k, "O": o,
                       "counts": out.counts, "matches": m, "corpus": corpus_desc}),
            );
        }
        // FilterCollector: the complete order restricted to the documents that pass the predicate
        let filtered: Option<Vec<(CKey, Hit)>> = if shape == Shape::Filtered {
            Some(
                expected_all
                    .iter()
                    .filter(|(_, h)| corpus.docs[by_id[&h.id]].fu.map(|v| fu_pred(pred, v)).unwrap_or(false))
                    .cloned()
                    .collect(),
            )
        } else {
            None
        };
        let exp_list: &[(CKey, Hit)] = filtered.as_deref().unwrap_or(&expected_all);
        let m_eff = exp_list.len();
        let ok_c = if exact {
            check_exact(rep, &cc, exp_list, &out.page, k, o, "", false)
        } else {
            check_approx(rep, &cc, exp_list, &out.page, k, o, "")
        };
        if let Some(p2) = &out.page2 {
            rep.count("composed_second_pages_of_the_same_sort", 1);
            if exact {
                check_exact(rep, &cc, exp_list, p2, k2, o2, "", false);
            } else {
                check_approx(rep, &cc, exp_list, p2, k2, o2, "");
            }
        }
        if let Some(sp) = &out.score_page {
            rep.count("composed_companion_pages_by_score", 1);
            let cs = Ctx6 {
                kind: SortKind::Score,
                ..cc
            };
            let sp: Page = sp.iter().map(|(s, a)| (CKey::One(Some(OrdVal::Sc(*s))), *a)).collect();
            if exact_q {
                check_exact(rep, &cs, &expected_by_score, &sp, k3, o3, "", false);
            } else {
                check_approx(rep, &cs, &expected_by_score, &sp, k3, o3, "");
            }
        }
        if ok && ok_c && shape != Shape::Filtered {
            // both equal the oracle's page; for exactly comparable keys they are identical lists
            if exact {
                let same = got.len() == out.page.len()
                    && got.iter().zip(out.page.iter()).all(|(a, b)| a.1 == b.1 && a.0.same(&b.0));
                if same {
                    rep.count("composed_pages_identical_to_the_plain_page", 1);
                } else {
                    rep.harness_error(format!(
                        "case {case}: composed page and plain page both equal the oracle page but differ from each other"
                    ));
                }
            } else {
                rep.count("composed_pages_equal_to_the_plain_page_up_to_rounding", 1);
            }
        }
        if o > 0 {
            rep.count("composed_searches_with_offset>0", 1);
        }
        // non-triviality: with O > 0, some segment holds more than K of the first O+K entries
        // (its per-segment list must be O+K long, not K long)
        let hi = (o + k).min(m_eff);
        let mut first: BTreeMap<u32, usize> = BTreeMap::new();
        for (_, h) in &exp_list[..hi] {
            *first.entry(h.addr.segment_ord).or_insert(0) += 1;
        }
        let deep = o > 0 && first.values().any(|&c| c > k);
        if deep {
            rep.count("composed_searches_with_O>0_where_a_segment_holds_more_than_K_of_the_first_O+K", 1);
        }
        if o + k < m_eff || deep {
            rep.nontrivial(format!(
                "composed|{}|{}|K{}|O{oclass}|s{nseg}|{exec}|deep{}",
                shape.name(),
                kind.family(),
                kclass(k, m_eff),
                deep as u8
            ));
        }
    }
}

// ---------------------------------------------------------------------------------------------
// stream `small`: tiny corpora (3-14 documents, 1-3 segments, three words), queries with boosts
// and constant scores <= 0, the complete (K, O) grid, every search plain and composed. The first
// cases are hand-made minimal scenarios.

fn small_doc(id: u64, body: &[u16]) -> MDoc {
    let mut d = MDoc::empty(id);
    d.body = body.to_vec();
    d.fu = Some(id % 3);
    d.fi = Some(id as i64 - 2);
    d.fs = Some(["a", "b"][(id % 2) as usize].to_string());
    d
}

fn small_corpus_of(docs: Vec<MDoc>, cuts: Vec<usize>, deletes: Vec<u64>) -> Corpus {
    Corpus {
        docs,
        cuts,
        del_mode: if deletes.is_empty() { "none" } else { "few" },
        deletes,
        mode: Mode::Random,
        value_profile: "few-values",
        body_opt: IndexRecordOption::WithFreqs,
        allmiss: None,
    }
}

const N_PINNED: u64 = 3;

fn pinned(i: u64) -> Option<(Corpus, Vec<(Q, &'static str)>)> {
    let t = |w: u16| Q::term(TF::Body, w);
    let neg = |w: u16, b: f32| Q::Boost(Box::new(Q::term(TF::Body, w)), b);
    match i {
        // w0 OR w1^-2 ("apple OR spam^-2"): d0 = apple, d1 = spam, d2 = apple apple
        0 => Some((
            small_corpus_of(
                vec![small_doc(1, &[0]), small_doc(2, &[1]), small_doc(3, &[0, 0])],
                vec![],
                vec![],
            ),
            vec![(
                Q::Bool(vec![(Occur::Should, t(0)), (Occur::Should, neg(1, -2.0))]),
                "non-positive-boost",
            )],
        )),
        // +w0 +w1^-2: every document holds both words
        1 => Some((
            small_corpus_of(
                vec![small_doc(1, &[0, 1]), small_doc(2, &[0, 0, 0, 1, 100, 101]), small_doc(3, &[0, 1, 1])],
                vec![],
                vec![],
            ),
            vec![(
                Q::Bool(vec![(Occur::Must, t(0)), (Occur::Must, neg(1, -2.0))]),
                "non-positive-boost",
            )],
        )),
        // constant scores 0 and < 0 over two segments (pages beyond the first hit of a segment)
        2 => Some((
            small_corpus_of(
                vec![
                    small_doc(1, &[0]),
                    small_doc(2, &[0, 1]),
                    small_doc(3, &[1]),
                    small_doc(4, &[0, 1]),
                    small_doc(5, &[1, 1]),
                ],
                vec![3],
                vec![],
            ),
            vec![
                (Q::Const(Box::new(t(1)), 0.0), "term-variant"),
                (
                    Q::Bool(vec![(Occur::Should, t(0)), (Occur::Should, Q::Const(Box::new(t(1)), -2.0))]),
                    "non-positive-boost",
                ),
            ],
        )),
        _ => None,
    }
}

fn small_corpus(rng: &mut Rng) -> Corpus {
    let n = rng.urange(3, 14);
    let nseg = rng.urange(1, 3).min(n);
    let cuts = distinct_sizes(random_cuts(rng, n, nseg), n);
    let p_word: Vec<u64> = (0..3).map(|_| *rng.pick(&[35u64, 55, 80])).collect();
    let mut docs = vec![];
    for i in 0..n {
        let mut d = MDoc::empty(i as u64 + 1);
        let mut body = vec![];
        for (w, p) in p_word.iter().enumerate() {
            if rng.chance(*p, 100) {
                for _ in 0..*rng.pick(&[1usize, 1, 2, 3]) {
                    body.push(w as u16);
                }
            }
        }
        for _ in 0..rng.urange(0, 3) {
            body.push(100 + rng.below(4) as u16);
        }
        rng.shuffle(&mut body);
        d.body = body;
        d.tag = rng.below(3) as u8;
        if rng.chance(4, 5) {
            d.fu = Some(*rng.pick(&[0u64, 1, 2, 7]));
        }
        if rng.chance(4, 5) {
            d.fi = Some(*rng.pick(&[-1i64, 0, 1, 5]));
        }
        if rng.chance(4, 5) {
            d.ff = Some(*rng.pick(&[-2.5f64, 0.0, 0.5, 1e10]));
        }
        if rng.chance(4, 5) {
            d.fd = Some(*rng.pick(&[0i64, 86_400, 1_700_000_000]));
        }
        if rng.chance(4, 5) {
            d.fs = Some((*rng.pick(&["a", "b", "zz"])).to_string());
        }
        if rng.chance(4, 5) {
            d.fb = Some(rng.bool());
        }
        docs.push(d);
    }
    let deletes: Vec<u64> = if rng.chance(1, 3) {
        (0..rng.urange(1, 2)).map(|_| rng.range(1, n as u64)).collect()
    } else {
        vec![]
    };
    small_corpus_of(docs, cuts, deletes)
}

fn small_query(rng: &mut Rng) -> (Q, &'static str) {
    let mut words = vec![0u16, 1, 2];
    rng.shuffle(&mut words);
    match rng.weighted(&[6, 1, 1, 1, 1]) {
        0 => {
            words.truncate(rng.urange(1, 3));
            let ts = words.into_iter().map(|w| Q::term(TF::Body, w)).collect();
            (demotion(rng, ts), "non-positive-boost")
        }
        1 => (Q::term(TF::Body, words[0]), "term"),
        2 => (Q::Const(Box::new(Q::term(TF::Body, words[0])), nonpos(rng)), "term-variant"),
        3 => {
            words.truncate(rng.urange(2, 3));
            (
                Q::Bool(words.into_iter().map(|w| (Occur::Should, Q::term(TF::Body, w))).collect()),
                "term-union",
            )
        }
        _ => (Q::Boost(Box::new(Q::All), nonpos(rng)), "tree"),
    }
}

fn small_case(case: u64, rng: &mut Rng, rep: &mut Report) {
    let (corpus, queries, threads) = match pinned(case) {
        Some((c, qs)) => (c, qs, 0),
        None => {
            let c = small_corpus(rng);
            let qs = (0..6).map(|_| small_query(rng)).collect();
            (c, qs, *rng.pick(&[0usize, 0, 2]))
        }
    };
    rep.count("tiny_corpora_searched_over_the_whole_(K,O)_grid", 1);
    let Some(env) = setup(case, corpus, threads, rep, true) else {
        return;
    };
    for (qi, (q, qkind)) in queries.iter().enumerate() {
        query_round(&env, rng, rep, q, qkind, qi);
    }
}

/// stream `erased-json`: TopDocs ordered by `SortByErasedType` on a JSON numeric path whose
/// column type differs between segments (integers only -> i64 column, floats only or mixed -> f64
/// column): the merged page compares values of different numeric types. Integers are even,
/// floats are k + 0.5, so values of different types never tie and every value is exact as f64;
/// every document has the value (no None placement involved). Oracle: sort of all (value,
/// address) pairs, ties by ascending address.
fn erased_json_case(case: u64, rng: &mut Rng, rep: &mut Report) {
    let mut sb = Schema::builder();
    let attrs = sb.add_json_field("attrs", tantivy::schema::JsonObjectOptions::default().set_fast(None));
    let idf = sb.add_u64_field("id", tantivy::schema::FAST);
    let index = Index::create_in_ram(sb.build());
    let mut w: tantivy::IndexWriter = match index.writer_with_num_threads(1, 20_000_000) {
        Ok(w) => w,
        Err(e) => {
            rep.violation("api-error:erased-json:writer", json!({"error": e.to_string()}));
            return;
        }
    };
    w.set_merge_policy(Box::new(tantivy::indexer::NoMergePolicy));
    rep.eval();
    let nseg = rng.urange(2, 4);
    let mut value_of: BTreeMap<u64, f64> = BTreeMap::new();
    let mut next_id = 0u64;
    let mut modes = vec![];
    for seg in 0..nseg {
        let mode = if seg < 2 { seg as u64 } else { rng.below(3) };
        modes.push(["ints", "floats", "mixed"][mode as usize]);
        for _ in 0..rng.urange(1, 14) {
            let is_int = match mode {
                0 => true,
                1 => false,
                _ => rng.bool(),
            };
            let k = rng.below(41) as i64 - 20;
            let mut doc = tantivy::TantivyDocument::default();
            let v = if is_int {
                doc.add_object(attrs, [("x".to_string(), OwnedValue::I64(2 * k))].into_iter().collect());
                (2 * k) as f64
            } else {
                doc.add_object(attrs, [("x".to_string(), OwnedValue::F64(k as f64 + 0.5))].into_iter().collect());
                k as f64 + 0.5
            };
            doc.add_u64(idf, next_id);
            value_of.insert(next_id, v);
            next_id += 1;
            if let Err(e) = w.add_document(doc) {
                rep.violation("api-error:erased-json:add_document", json!({"error": e.to_string()}));
                return;
            }
        }
        if let Err(e) = w.commit() {
            rep.violation("api-error:erased-json:commit", json!({"error": e.to_string()}));
            return;
        }
    }
    let searcher = match index.reader() {
        Ok(r) => r.searcher(),
        Err(e) => {
            rep.violation("api-error:erased-json:reader", json!({"error": e.to_string()}));
            return;
        }
    };
    let mut all: Vec<(f64, DocAddress)> = vec![];
    let mut col_types = vec![];
    for (ord, sr) in searcher.segment_readers().iter().enumerate() {
        let Ok(ids) = sr.fast_fields().u64("id") else {
            rep.harness_error("erased-json: no id column".to_string());
            return;
        };
        for doc in 0..sr.max_doc() {
            let Some(id) = ids.first(doc) else {
                rep.harness_error("erased-json: doc without id".to_string());
                return;
            };
            all.push((value_of[&id], DocAddress::new(ord as u32, doc)));
        }
        let t = if sr.fast_fields().i64("attrs.x").is_ok() { "i64" } else if sr.fast_fields().f64("attrs.x").is_ok() { "f64" } else { "other" };
        col_types.push(t);
    }
    let distinct_types: HashSet<&str> = col_types.iter().copied().collect();
    for (cmp, name) in [(ComparatorEnum::Natural, "natural"), (ComparatorEnum::Reverse, "reverse")] {
        let mut expected = all.clone();
        expected.sort_by(|a, b| {
            let by_value = a.0.partial_cmp(&b.0).unwrap_or(Ordering::Equal);
            let by_value = if name == "natural" { by_value.reverse() } else { by_value };
            by_value.then(a.1.cmp(&b.1))
        });
        for _ in 0..4 {
            let limit = rng.urange(1, all.len() + 2);
            let offset = if rng.bool() { 0 } else { rng.usize_below(all.len() + 1) };
            let collector = TopDocs::with_limit(limit).and_offset(offset).order_by((SortByErasedType::for_field("attrs.x"), cmp));
            let got: Vec<(OwnedValue, DocAddress)> = match searcher.search(&tantivy::query::AllQuery, &collector) {
                Ok(g) => g,
                Err(e) => {
                    rep.violation(format!("erased-json:{name}:api-error:search"), json!({"case": case, "error": e.to_string(), "segments": modes}));
                    return;
                }
            };
            let want: Vec<(f64, DocAddress)> = expected.iter().skip(offset).take(limit).cloned().collect();
            let got_n: Vec<(Option<f64>, DocAddress)> = got
                .iter()
                .map(|(v, a)| {
                    (
                        match v {
                            OwnedValue::I64(i) => Some(*i as f64),
                            OwnedValue::U64(u) => Some(*u as f64),
                            OwnedValue::F64(x) => Some(*x),
                            _ => None,
                        },
                        *a,
                    )
                })
                .collect();
            rep.count("erased_json_pages_compared", 1);
            let same = got_n.len() == want.len() && got_n.iter().zip(&want).all(|(g, w)| g.0 == Some(w.0) && g.1 == w.1);
            if !same {
                rep.violation(
                    format!("erased-json:{name}:page-differs-from-the-sorted-corpus[column-types={}]", if distinct_types.len() > 1 { "mixed-across-segments" } else { "same" }),
                    json!({"case": case, "limit": limit, "offset": offset, "segments": modes, "column_types": col_types,
                           "got": got_n.iter().take(8).map(|(v, a)| json!([v, a.segment_ord, a.doc_id])).collect::<Vec<_>>(),
                           "expected": want.iter().take(8).map(|(v, a)| json!([v, a.segment_ord, a.doc_id])).collect::<Vec<_>>()}),
                );
                return;
            }
        }
    }
    if distinct_types.len() > 1 {
        rep.nontrivial(format!("erased-json:{}", col_types.join("+")));
    }
}

fn main() {
    let ctx = Ctx::from_env("C06", "exploration");
    let quick = ctx.quick();
    let n = ctx.scale(480, 5000) as u64;
    let mut rep = run_cases(&ctx, "topk", n, |c, rng, rep| case(c, rng, rep, quick));
    let n_small = N_PINNED + ctx.scale(150, 3000) as u64;
    rep.merge(run_cases(&ctx, "small", n_small, |c, rng, rep| small_case(c, rng, rep)));
    rep.merge(run_cases(&ctx, "erased-json", if quick { 300 } else { 20000 }, erased_json_case));
    simple_finish(
        &ctx,
        rep,
        "evaluation = one TopDocs search (a (K,O) grid point or one page of a paging run) compared with entries O..O+K of the exhaustive list of the same searcher (own non-pruning scoring collector; fast-field / tweak / custom keys from the generator's model) ordered by (key per documented comparator, address asc). Exact comparison for single scoring clauses, two-term sums and all non-score keys; 4*n ulp tolerance for float sums of n>=3 clauses. Corpora: Ties / BlockMax / Random / Skew plus Dense (4-8 clause term conjunctions with many matches), Short and Sparse (average body length 1-5 tokens resp. < 1 token, few (length, tf) shapes, half of them single-segment) and fast-field values with per-segment weights; extra order_by_score searches with K in 1..50 on every term-only query over posting lists with full blocks; O+K placed just below the match count of >= 4 segments. Every second search (every search of stream `small`) is repeated with the TopDocs collector COMPOSED with other collectors - (TopDocs,Count), (Count,TopDocs), MultiCollector{TopDocs}, {TopDocs,Count}, {Count,TopDocs,second TopDocs of the same sort,TopDocs by score}, (Count,TopDocs,Count), (TopDocs,Count,TopDocs',Count), ((TopDocs,Count),Count), (Count,(Count,TopDocs)), ((Count,(TopDocs,Count)),TopDocs'), (Some(TopDocs),None), (TopDocs,TopDocs by score), FilterCollector(fu predicate,TopDocs) - for every sort kind, K, O and executor of the plan: the composed page, the second page of the same sort, the companion page by score and every Count are compared with the same oracle (FilterCollector: the complete order restricted by the model to the documents passing the predicate), and the composed page with the plain one. Queries carry boosts and constant scores <= 0 (kind non-positive-boost: unions / intersections / must+should / lone should clause / n-of-n should clauses of term clauses with one or two demoted ones, plus non-positive boosts and constants in trees and single clauses). Stream `small`: 3-14 documents, 1-3 segments, three words, such queries, the complete (K,O) grid for order_by_score and three random sort kinds, plain and composed; its first cases are hand-made minimal scenarios. Non-trivial = K+O < matches and (a tie exactly at the page boundary or a query term whose posting list spans more than one 128-doc block in some segment); composed: K+O < matches or (O > 0 and a segment holds more than K of the first O+K entries). Distinct = query kind x collector flavour x K class x O class x segment count x executor x tie x posting size class x deletes (composed: composition x collector family x K class x O class x segment count x executor x deep).",
        ctx.scale(400, 6000),
        &[
            "the exhaustive pass uses Weight::for_each (scorer.score() for every alive match); TopDocs::order_by_score uses Weight::for_each_pruning",
            "fast-field keys of the oracle come from the generated documents (looked up through the `id` fast field), not from tantivy's column readers",
            "f64 fast-field values never contain NaN or -0.0; date keys are whole seconds (the default fast-field precision); the sign of a zero score is not compared (0.0 and -0.0 are the same key)",
            "score keys are 'exact' for one scoring leaf or the sum of exactly two term clauses (plain, boosted or constant-scored; float addition is commutative); otherwise 4*n ulp; when a boost or constant is negative the ulp is taken at the document's score under the same query with every boost and constant replaced by its absolute value (own exhaustive pass), because the rounding error of a sum with cancellation is relative to the magnitude of its addends",
            "composed searches: 2-tuples and MultiCollector hold the TopDocs collector itself; the deeper shapes (3-/4-tuples, nested tuples, Option, FilterCollector, TopDocs + TopDocs-by-score) hold it behind a type-erasing adapter of the harness that forwards for_segment / collect / collect_block / harvest / merge_fruits and - like every composing collector - does not forward collect_segment",
            "a wrong order_by_score page is attributed to `negative-boost-block-wand-bound` only when the query is a boolean query containing a term clause whose weight is negative (product of the boosts around it) AND the same page requested through (TopDocs, Count) - Weight::for_each instead of Weight::for_each_pruning - equals the oracle's page",
            "a left-out document is attributed to the known segment-local-avgdl defect only for order_by_score over >= 2 segments on a term-only query when the document lies in a full posting block whose stored (fieldnorm, tf) pair - recomputed under the segment's own average length - scores below the block's true maximum under the searcher-wide average; in a single segment no such attribution exists",
            "tuple keys (2, 3 and 4 components mixing u64/i64/f64/date/bool/string fast fields, a custom computer and the score) are ordered lexicographically by the component comparators, then by address; K/O cuts are placed inside groups tied on a key prefix in segments holding more matches than O+K",
        ],
    );
}
