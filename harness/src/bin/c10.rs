//! C10 — garbage collection never removes a needed file and leaves no orphan.
use std::collections::BTreeSet;
use std::time::Duration;

use serde_json::{json, Value};
use tantivy::{Index, IndexWriter};
use tvmon::crash::*;
use tvmon::hist::*;
use tvmon::mondir::{file_kind, FaultMode, MonCfg, MonDir, OpKind, OpPred};
use tvmon::report::*;
use tvmon::rng::Rng;

/// At quiescence: directory == files of the committed segments + meta.json + .managed.json,
/// and .managed.json lists exactly the managed (non-dot) files that exist.
fn quiescent_check(index: &Index, mon: &MonDir, what: &str) -> Vec<(String, Value)> {
    let mut errs = vec![];
    let n_segments = match index.searchable_segment_metas() {
        Ok(m) => m.len(),
        Err(e) => return vec![("api-error:searchable_segment_metas".into(), json!(e.to_string()))],
    };
    let present: BTreeSet<String> = mon.list_files().into_iter().collect();
    // the files of the committed segments, derived from meta.json by the harness itself (the six
    // components of every segment and its delete file): tantivy's own SegmentMeta::list_files()
    // is part of what is being checked, not an oracle
    let refs = match mon.raw_bytes("meta.json").map(|b| tvmon::mondir::meta_referenced_files(&b)) {
        Some(Ok(r)) => r,
        Some(Err(e)) => return vec![("quiescent:meta.json-unparsable".into(), json!(e))],
        None => return vec![("quiescent:no-meta.json".into(), json!({"at": what}))],
    };
    let mut expected: BTreeSet<String> = BTreeSet::new();
    for (f, _) in &refs {
        if present.contains(f) {
            expected.insert(f.clone());
        } else {
            errs.push((
                format!("quiescent:needed-file-missing:{}", file_kind(f)),
                json!({"file": f, "at": what}),
            ));
        }
    }
    expected.insert("meta.json".into());
    expected.insert(".managed.json".into());
    let orphans: Vec<&String> = present.difference(&expected).collect();
    if !orphans.is_empty() {
        let kinds: BTreeSet<&str> = orphans.iter().map(|f| file_kind(f)).collect();
        let by_merge = mon.segment_ids_created_by_merge();
        let all_merge_created =
            orphans.iter().all(|f| f.split_once('.').map(|(id, _)| by_merge.contains(id)).unwrap_or(false));
        errs.push((
            format!("quiescent:orphan-files:{}", kinds.into_iter().collect::<Vec<_>>().join("+")),
            json!({"orphans": orphans.iter().take(12).collect::<Vec<_>>(), "at": what, "n_segments": n_segments,
                   "all_merge_created": all_merge_created}),
        ));
    }
    // persisted managed list == managed files that exist
    match mon.raw_bytes(".managed.json") {
        None => errs.push(("quiescent:no-managed.json".into(), json!({"at": what}))),
        Some(b) => match serde_json::from_slice::<Vec<String>>(&b) {
            Err(e) => errs.push(("quiescent:managed.json-unparsable".into(), json!(e.to_string()))),
            Ok(list) => {
                let listed: BTreeSet<String> = list.into_iter().collect();
                let managed_present: BTreeSet<String> =
                    present.iter().filter(|f| !f.starts_with('.')).cloned().collect();
                if listed != managed_present {
                    let only_listed: Vec<&String> = listed.difference(&managed_present).take(8).collect();
                    let only_present: Vec<&String> = managed_present.difference(&listed).take(8).collect();
                    let sig = match (only_listed.is_empty(), only_present.is_empty()) {
                        (false, true) => "quiescent:managed.json-lists-missing-files",
                        (true, false) => "quiescent:existing-files-not-in-managed.json",
                        _ => "quiescent:managed.json-differs-both-ways",
                    };
                    errs.push((
                        sig.into(),
                        json!({"listed_but_absent": only_listed, "present_but_unlisted": only_present, "at": what}),
                    ));
                }
            }
        },
    }
    errs
}

/// `quiescent_check`, re-running GC (bounded, with back-off) while the only discrepancy is a
/// set of orphan files: a thread that is about to exit (merge thread of a rolled-back / dropped
/// writer, or one that has just handed its result over) keeps segments registered in the index
/// inventory until it has returned, which nothing in the API or on the directory lets the
/// harness observe ("merges have finished" is only reached then) - GC rightly keeps their files.
/// A permanent leak survives the retries (<= 4.3 s) and is reported.
fn quiescent_check_settled(ex: &Exec, mon: &MonDir, what: &str, rep: &mut Report) -> Vec<(String, Value)> {
    let mut errs = quiescent_check(&ex.index, mon, what);
    for wait_ms in [2u64, 10, 50, 200, 1000, 3000] {
        // orphan files only (nothing missing, .managed.json consistent): some thread that has
        // just finished (merge thread, indexing worker of a replaced writer) may still hold the
        // segment in the index inventory for a moment
        // (a merge thread that is creating its files right now also shows as a file that
        // .managed.json lists - it is registered first - but that does not exist yet)
        let only_orphans = !errs.is_empty()
            && errs.iter().all(|(s, _)| {
                s.starts_with("quiescent:orphan-files:")
                    || s == "quiescent:managed.json-lists-missing-files"
                    || s == "quiescent:managed.json-differs-both-ways"
            });
        if !only_orphans {
            break;
        }
        let _ = mon.wait_no_merge_in_flight(std::time::Duration::from_secs(10));
        let by_merge = errs.iter().all(|(_, d)| d["all_merge_created"] == json!(true));
        rep.count(
            if by_merge { "quiescent_recheck_for_finishing_merge_thread" } else { "quiescent_recheck_for_files_of_segments_still_in_the_inventory" },
            1,
        );
        std::thread::sleep(std::time::Duration::from_millis(wait_ms));
        if let Some(w) = ex.writer.as_ref() {
            let _ = w.garbage_collect_files().wait();
        }
        errs = quiescent_check(&ex.index, mon, what);
    }
    errs
}

/// brings the executor to quiescence: merges awaited (writer consumed), new writer, GC.
/// quiescence WITHOUT replacing the writer (only sound while no merge policy can start merges
/// behind our back): explicit merges awaited, no merge thread active, GC on the same writer.
/// A replaced writer re-reads its segment metas from meta.json and so hides whatever the live
/// one wrongly keeps alive.
fn quiesce_same_writer(ex: &mut Exec, mon: &MonDir) -> Result<(), String> {
    ex.drain_merges();
    if !mon.wait_no_merge_in_flight(std::time::Duration::from_secs(20)) {
        return Err("orphan-merge-still-running".into());
    }
    ex.writer
        .as_ref()
        .ok_or("no writer")?
        .garbage_collect_files()
        .wait()
        .map_err(|e| format!("gc: {e}"))?;
    Ok(())
}

fn quiesce(ex: &mut Exec, mon: &MonDir) -> Result<(), String> {
    ex.drain_merges();
    if let Some(w) = ex.writer.take() {
        w.wait_merging_threads().map_err(|e| format!("wait_merging_threads: {e}"))?;
    }
    // merge threads of writers replaced by rollback() are not joined by anything in the API:
    // "merges have finished" has to be observed on the directory
    if !mon.wait_no_merge_in_flight(std::time::Duration::from_secs(20)) {
        return Err("orphan-merge-still-running".into());
    }
    ex.model.rollback();
    ex.op_stamps.clear();
    ex.open_writer()?;
    ex.writer
        .as_ref()
        .unwrap()
        .garbage_collect_files()
        .wait()
        .map_err(|e| format!("gc: {e}"))?;
    Ok(())
}

fn history_case(case: u64, rng: &mut Rng, rep: &mut Report) {
    let cfg = ExecCfg::random(rng, true);
    let len = rng.urange(8, 50);
    let mut gcfg = GenCfg::standard(len).no_delete_all();
    if rng.chance(3, 4) {
        gcfg = gcfg.no_cutters();
    }
    // more rollbacks / merges / reopen than the default mix
    gcfg.w[7] = 6;
    gcfg.w[8] = 8;
    gcfg.w[10] = 4;
    let mut g = HistGen::new();
    let ops = g.history(rng, &gcfg);
    let inject_merge_fault = rng.chance(1, 5);
    let mon = MonDir::new(MonCfg {
        monitors: true,
        keep_payloads: false,
        noise_permille: if rng.bool() { 30 } else { 0 },
        noise_seed: rng.next_u64(),
        ..Default::default()
    });
    let mut ex = match Exec::create(Box::new(mon.clone()), cfg.clone(), Some(mon.clone())) {
        Ok(e) => e,
        Err(e) => {
            rep.violation("api-error:create", json!(e));
            return;
        }
    };
    if inject_merge_fault {
        // a failing background merge must be discarded without leaving files behind
        mon.add_fault(
            OpPred::kind(OpKind::Write).role("merge"),
            rng.below(20),
            FaultMode::Once,
            std::io::ErrorKind::Other,
        );
        ex.errors_are_violations = false;
    }
    rep.eval();
    let mut deleted_files_seen = 0usize;
    let mut quiescent_points = 0u64;
    let mut failed = false;
    let files_deleted_before = |m: &MonDir| {
        m.log()
            .iter()
            .filter(|e| e.kind == OpKind::Delete && e.ok)
            .count()
    };
    let mut policy_on = cfg.merge_policy;
    for (i, op) in ops.iter().enumerate() {
        ex.step(op);
        match op {
            Op::SetPolicy(on) => policy_on = *on,
            // rollback() / abort() replace the writer inside tantivy: the replacement comes with
            // the DEFAULT merge policy (a log merge policy), whatever was set before
            Op::Rollback | Op::PrepCommit { abort: true, .. } => policy_on = true,
            // the executor opens its writers with the configured policy
            Op::Reopen { .. } => policy_on = cfg.merge_policy,
            _ => {}
        }
        rep.count(&format!("op:{}", op.kind()), 1);
        let at_commit = matches!(op, Op::Commit | Op::PrepCommit { abort: false, .. });
        if (at_commit && rng.chance(1, 2)) || i + 1 == ops.len() {
            let same_writer = at_commit && !policy_on && ex.writer.is_some() && rng.bool();
            if same_writer {
                rep.count("quiescent_points_on_the_same_writer", 1);
            }
            match if same_writer { quiesce_same_writer(&mut ex, &mon) } else { quiesce(&mut ex, &mon) } {
                Err(e) if e == "orphan-merge-still-running" => {
                    rep.count("quiescent_point_skipped:orphan-merge-still-running", 1);
                }
                Err(e) => {
                    if !inject_merge_fault {
                        rep.violation("api-error:quiesce", json!({"case": case, "err": e}));
                        failed = true;
                    }
                }
                Ok(()) => {
                    quiescent_points += 1;
                    deleted_files_seen = files_deleted_before(&mon);
                    let mut errs = quiescent_check_settled(&ex, &mon, &format!("after op {i} ({})", op.kind()), rep);
                    errs.extend(ex.check_committed(false));
                    if !errs.is_empty() && std::env::var("C10_DEBUG").is_ok() {
                        eprintln!("MANAGED {:?}", mon.raw_bytes(".managed.json").map(|b| String::from_utf8_lossy(&b).to_string()));
                        eprintln!("IN-FLIGHT {:?}", mon.merges_in_flight());
                        for e in mon.log() {
                            if !matches!(e.kind, OpKind::Write | OpKind::ReadBytes | OpKind::Flush | OpKind::Exists | OpKind::OpenRead) {
                                eprintln!("{:5} {:24} {:8} {:?} {} ok={} {}", e.seq, e.tname, e.role, e.kind, e.path, e.ok, e.note);
                            }
                        }
                    }
                    for (sig, d) in errs {
                        rep.violation(
                            sig,
                            json!({"case": case, "cfg": cfg.describe(), "detail": d, "merge_fault": inject_merge_fault,
                                   "history": ops.iter().take(i + 1).map(|o| o.kind()).collect::<Vec<_>>()}),
                        );
                        failed = true;
                    }
                }
            }
        }
        for (sig, d) in ex.problems.drain(..) {
            if is_known("C02", &sig) {
                continue;
            }
            rep.violation(format!("live:{sig}"), json!({"case": case, "detail": d}));
            failed = true;
        }
        if failed {
            break;
        }
    }
    for v in mon.take_violations() {
        if v.sig.starts_with("T3") {
            rep.violation(v.sig, json!({"case": case, "detail": v.detail}));
        }
    }
    for r in mon.read_after_gc_events() {
        rep.count(&format!("open_of_deleted_path_by:{r}"), 1);
        if r.starts_with("client:") || r.starts_with("reader:") {
            rep.violation(format!("read-after-gc:{r}"), json!({"case": case}));
        }
    }
    let (_, _, t3, ml, ..) = mon.counters();
    rep.count("T3_delete_checks", t3);
    rep.count("meta_lock_acquisitions", ml);
    rep.count("quiescent_points_checked", quiescent_points);
    rep.count("files_deleted_by_gc", deleted_files_seen as u64);
    if deleted_files_seen > 0 && quiescent_points > 0 {
        let kinds: BTreeSet<&str> = ops.iter().map(|o| o.kind()).collect();
        rep.nontrivial(format!(
            "hist:{}|{}",
            kinds.into_iter().collect::<Vec<_>>().join(","),
            cfg.describe()
        ));
    }
    if case < 2 {
        rep.sample(json!({"cfg": cfg.describe(), "history": ops.iter().map(|o| o.kind()).collect::<Vec<_>>(),
            "files_deleted": deleted_files_seen, "quiescent_points": quiescent_points,
            "final_files": mon.list_files()}));
    }
}

/// Forced schedule: a worker / merge thread is parked right before creating or writing a file
/// of a segment under construction while GC runs; afterwards everything must still commit and
/// be readable, and the parked thread's files must not have been collected.
fn forced_gc_case(case: u64, rng: &mut Rng, rep: &mut Report) {
    let cfg = ExecCfg {
        threads: *rng.pick(&[1usize, 2]),
        merge_policy: false,
        sort: None,
        budget_per_thread: 15_000_000,
    };
    let mon = MonDir::new(MonCfg {
        monitors: true,
        ..Default::default()
    });
    let mut ex = match Exec::create(Box::new(mon.clone()), cfg.clone(), Some(mon.clone())) {
        Ok(e) => e,
        Err(e) => {
            rep.violation("api-error:create", json!(e));
            return;
        }
    };
    rep.eval();
    let mut g = HistGen::new();
    // two committed segments so that a merge is possible
    for _ in 0..2 {
        for _ in 0..rng.urange(2, 6) {
            ex.step(&Op::Add(g.doc(rng, 3)));
        }
        ex.step(&Op::Commit);
    }
    let target_role = if rng.bool() { "worker" } else { "merge" };
    // worker: file creations happen when it receives its first document; writes/terminates when
    // the segment is finalised, which a cutter document triggers without any call from us
    let kind = if target_role == "worker" {
        *rng.pick(&[OpKind::OpenWrite, OpKind::OpenWrite, OpKind::Write, OpKind::Terminate])
    } else {
        *rng.pick(&[OpKind::OpenWrite, OpKind::Write, OpKind::Terminate])
    };
    let nth = if kind == OpKind::OpenWrite { rng.below(6) } else { rng.below(12) };
    let gate = mon.add_gate(OpPred::kind(kind).role(target_role), nth);
    let mut merge_fut = None;
    if target_role == "merge" {
        let ids = ex.index.searchable_segment_ids().unwrap_or_default();
        if ids.len() >= 2 {
            merge_fut = Some(ex.writer.as_mut().unwrap().merge(&ids));
        }
    } else {
        for _ in 0..rng.urange(1, 4) {
            ex.step(&Op::Add(g.doc(rng, 3)));
        }
        if kind != OpKind::OpenWrite {
            let mut d = g.doc(rng, 3);
            d.pad = CUTTER_PAD;
            ex.step(&Op::Add(d));
        }
    }
    let parked = mon.wait_parked(gate, Duration::from_secs(5));
    let mut gc_result = None;
    if parked {
        // GC while the thread sits in the middle of writing its segment
        let r = ex.writer.as_ref().unwrap().garbage_collect_files().wait();
        gc_result = Some(r.is_ok());
        if target_role == "merge" {
            // more activity while the merge is parked: a commit with a delete, and GC again
            ex.step(&Op::DeleteTerm(Pred::Grp(rng.below(3))));
            ex.step(&Op::Commit);
            let r2 = ex.writer.as_ref().unwrap().garbage_collect_files().wait();
            gc_result = Some(gc_result.unwrap() && r2.is_ok());
        } else {
            // more adds queue up behind the parked worker
            for _ in 0..rng.urange(0, 3) {
                ex.step(&Op::Add(g.doc(rng, 3)));
            }
        }
    }
    mon.release_gate(gate);
    if let Some(f) = merge_fut {
        match f.wait() {
            Ok(_) => rep.count("forced_merge_completed", 1),
            Err(_) => rep.count("forced_merge_discarded", 1),
        }
    }
    mon.release_all_gates();
    rep.count(if parked { "forced_gc_schedules_parked" } else { "forced_gc_gate_not_reached" }, 1);
    // everything must still work and be consistent
    ex.step(&Op::Add(g.doc(rng, 3)));
    ex.step(&Op::Commit);
    let mut errs = ex.check_committed(true);
    match quiesce(&mut ex, &mon) {
        Ok(()) => errs.extend(quiescent_check_settled(&ex, &mon, "after forced schedule", rep)),
        Err(e) if e == "orphan-merge-still-running" => rep.count("quiescent_point_skipped:orphan-merge-still-running", 1),
        Err(e) => errs.push(("api-error:quiesce".into(), json!(e))),
    }
    errs.extend(ex.check_committed(false));
    for (sig, d) in ex.problems.drain(..) {
        if !is_known("C02", &sig) {
            errs.push((format!("live:{sig}"), d));
        }
    }
    for v in mon.take_violations() {
        if v.sig.starts_with("T3") {
            errs.push((v.sig, v.detail));
        }
    }
    for (sig, d) in errs {
        rep.violation(
            format!("forced:{sig}"),
            json!({"case": case, "role": target_role, "gate": format!("{}#{}", kind.name(), nth), "parked": parked, "gc_ok": gc_result, "detail": d}),
        );
    }
    if parked {
        rep.nontrivial(format!("forced:{target_role}:{}:{}", kind.name(), nth.min(8)));
    }
}


/// Forced schedule: a reader (second Index on the same directory) is parked in the middle of
/// loading (before the meta lock, before meta.json, or before its k-th segment-file open) while
/// the writer commits, merges and collects garbage: no file the reader still needs may vanish.
fn forced_reader_case(case: u64, rng: &mut Rng, rep: &mut Report) {
    use std::sync::{Arc, Mutex};
    let cfg = ExecCfg { threads: 1, merge_policy: false, sort: None, budget_per_thread: 15_000_000 };
    let mon = MonDir::new(MonCfg { monitors: true, ..Default::default() });
    mon.set_lock_timeout(Duration::from_millis(150));
    let mut ex = match Exec::create(Box::new(mon.clone()), cfg, Some(mon.clone())) {
        Ok(e) => e,
        Err(e) => {
            rep.violation("api-error:create", json!(e));
            return;
        }
    };
    rep.eval();
    let mut g = HistGen::new();
    let nseg = rng.urange(2, 4);
    for _ in 0..nseg {
        for _ in 0..rng.urange(1, 5) {
            ex.step(&Op::Add(g.doc(rng, 3)));
        }
        ex.step(&Op::Commit);
    }
    let gate_kind = rng.below(6);
    let nth = rng.below((nseg * 7) as u64);
    let gate = match gate_kind {
        4 => mon.add_gate(OpPred::kind(OpKind::LockAcquire).role("reader").path(".tantivy-meta.lock"), 0),
        5 => mon.add_gate(OpPred::kind(OpKind::AtomicRead).role("reader").path("meta.json"), 0),
        _ => mon.add_gate(OpPred::kind(OpKind::OpenRead).role("reader"), nth),
    };
    let mon2 = mon.clone();
    let result: Arc<Mutex<Option<Result<usize, String>>>> = Arc::new(Mutex::new(None));
    let res2 = result.clone();
    let h = std::thread::Builder::new()
        .name("tvmon-reader-forced".into())
        .spawn(move || {
            let r: Result<usize, String> = (|| {
                let idx = Index::open(mon2).map_err(|e| format!("open: {e}"))?;
                let reader = idx.reader().map_err(|e| format!("reader: {e}"))?;
                live_ids(&reader.searcher()).map(|s| s.len())
            })();
            *res2.lock().unwrap() = Some(r);
        })
        .expect("spawn");
    let parked = mon.wait_parked(gate, Duration::from_secs(5));
    if parked {
        ex.step(&Op::DeleteTerm(Pred::Grp(rng.below(3))));
        ex.step(&Op::Add(g.doc(rng, 3)));
        ex.step(&Op::Commit);
        ex.step(&Op::Merge { pick: rng.next_u64(), n: 4, wait: true });
        let _ = ex.writer.as_ref().unwrap().garbage_collect_files().wait();
    }
    mon.release_gate(gate);
    let _ = h.join();
    mon.release_all_gates();
    rep.count(if parked { "forced_reader_parked" } else { "forced_reader_gate_not_reached" }, 1);
    match result.lock().unwrap().take() {
        None => rep.harness_error("forced reader produced no result"),
        Some(Err(e)) => rep.violation(
            "forced-reader:load-failed-while-gc-ran",
            json!({"case": case, "gate_kind": gate_kind, "parked_at": mon.gate_parked_at(gate).map(|p| p.2), "err": e}),
        ),
        Some(Ok(_)) => {}
    }
    for r in mon.read_after_gc_events() {
        if r.starts_with("reader:") {
            rep.violation(format!("forced-reader:read-after-gc:{r}"), json!({"case": case}));
        }
    }
    for v in mon.take_violations() {
        if v.sig.starts_with("T3") {
            rep.violation(format!("forced-reader:{}", v.sig), json!({"case": case, "detail": v.detail}));
        }
    }
    if parked {
        rep.nontrivial(format!(
            "forced-reader:{}",
            match gate_kind { 4 => "before-meta-lock".to_string(), 5 => "before-meta.json".to_string(), _ => format!("open#{}", nth.min(20)) }
        ));
    }
}

/// Crash clause: recovered crash image + one commit + one GC leaves exactly the committed files.
fn crash_case(case: u64, rng: &mut Rng, rep: &mut Report) {
    let cfg = ExecCfg {
        threads: *rng.pick(&[1usize, 2]),
        merge_policy: rng.bool(),
        sort: None,
        budget_per_thread: 15_000_000,
    };
    let mon = MonDir::new(MonCfg {
        monitors: false,
        keep_payloads: true,
        ..Default::default()
    });
    let mut ex = match Exec::create(Box::new(mon.clone()), cfg.clone(), Some(mon.clone())) {
        Ok(e) => e,
        Err(e) => {
            rep.violation("api-error:create", json!(e));
            return;
        }
    };
    let created = mon.seq();
    let mut g = HistGen::new();
    let hl = rng.urange(8, 25);
    let ops = g.history(rng, &GenCfg::standard(hl).no_cutters().no_delete_all());
    for op in &ops {
        ex.step(op);
    }
    ex.drain_merges();
    if let Some(w) = ex.writer.take() {
        let _ = w.wait_merging_threads();
    }
    let hs = ex.hs.clone();
    let log = mon.log();
    rep.eval();
    let mut st = CrashState::new();
    let mut prng = Rng::new(rng.next_u64());
    let n_mut = log.iter().filter(|e| e.kind.mutates() && e.ok).count();
    let stride = (n_mut / 60).max(1);
    let mut idx = 0;
    let mut images = 0u64;
    for ev in &log {
        st.apply(ev);
        if ev.seq <= created || !ev.kind.mutates() || !ev.ok {
            continue;
        }
        idx += 1;
        if idx % stride != 0 {
            continue;
        }
        let outcomes = outcomes_for(st.pending.len(), st.unsynced_files(), false, &mut prng);
        for o in outcomes.iter().take(6) {
            let img = st.image(o, &mut prng);
            let dir = MonDir::from_image(&img, MonCfg::default());
            let Ok(index) = Index::open(dir.clone()) else {
                continue; // C01's business
            };
            let res: Result<(), (String, Value)> = (|| {
                let mut w: IndexWriter = index
                    .writer_with_num_threads(1, 15_000_000)
                    .map_err(|e| ("crash:writer".to_string(), json!(e.to_string())))?;
                let extra = MDoc { id: 9_000_000, grp: 0, val: None, body: vec![], tag: 0, pad: 0 };
                w.add_document(extra.to_doc(&hs))
                    .map_err(|e| ("crash:add".to_string(), json!(e.to_string())))?;
                w.commit().map_err(|e| ("crash:commit".to_string(), json!(e.to_string())))?;
                w.garbage_collect_files()
                    .wait()
                    .map_err(|e| ("crash:gc".to_string(), json!(e.to_string())))?;
                w.wait_merging_threads()
                    .map_err(|e| ("crash:wait".to_string(), json!(e.to_string())))?;
                Ok(())
            })();
            images += 1;
            let model = if o.is_m1() { "M1" } else { "M2" };
            match res {
                Err((sig, d)) => {
                    // inability to continue is C01's clause; recorded there
                    let _ = (sig, d);
                }
                Ok(()) => {
                    for (sig, d) in quiescent_check(&index, &dir, "recovered image + commit + gc") {
                        rep.violation(
                            format!("crash[{model}]:{sig}"),
                            json!({"case": case, "boundary": ev.brief(), "outcome": o.label(), "detail": d}),
                        );
                    }
                    rep.nontrivial(format!("crash:{}:{}:{}", ev.kind.name(), file_kind(&ev.path), o.label()));
                }
            }
        }
    }
    rep.count("crash_images_continued_with_commit_and_gc", images);
}

/// A save of meta.json fails (commit, or the end of a merge of committed segments) and garbage
/// collection runs on the same writer before anything else succeeds: the commit that is still on
/// storage must keep all its files.
fn failed_save_case(case: u64, rng: &mut Rng, rep: &mut Report) {
    let cfg = ExecCfg { threads: 1, merge_policy: false, sort: None, budget_per_thread: 15_000_000 };
    let mon = MonDir::new(MonCfg { monitors: true, ..Default::default() });
    let mut ex = match Exec::create(Box::new(mon.clone()), cfg, Some(mon.clone())) {
        Ok(e) => e,
        Err(e) => {
            rep.violation("api-error:create", json!(e));
            return;
        }
    };
    rep.eval();
    let mut g = HistGen::new();
    let nseg = rng.urange(2, 4);
    for _ in 0..nseg {
        for _ in 0..rng.urange(2, 5) {
            ex.step(&Op::Add(g.doc(rng, 3)));
        }
        ex.step(&Op::Commit);
    }
    // give one segment a first generation of deletes (a second one supersedes the .del file)
    if rng.bool() {
        ex.step(&Op::DeleteTerm(Pred::Grp(rng.below(3))));
        ex.step(&Op::Commit);
    }
    for (sig, d) in ex.problems.drain(..) {
        if !is_known("C02", &sig) {
            rep.violation(format!("live:{sig}"), json!({"case": case, "detail": d}));
            return;
        }
    }
    let variant = rng.below(3);
    // where the save fails: the replacement of meta.json itself, the directory sync in front of
    // it, or the directory sync BEHIND it (meta.json already replaced: memory and storage must
    // agree on the new commit although the call returns an error)
    let site = rng.below(4);
    match site {
        0 | 1 => mon.add_fault(OpPred::kind(OpKind::AtomicWrite).path("meta.json"), 0, FaultMode::Once, std::io::ErrorKind::Other),
        2 => mon.add_fault(OpPred::kind(OpKind::SyncDir).role("updater"), 0, FaultMode::Once, std::io::ErrorKind::Other),
        _ => mon.add_fault(OpPred::kind(OpKind::SyncDir).role("updater"), 1, FaultMode::Once, std::io::ErrorKind::Other),
    }
    rep.observe("failed_save_site", ["atomic-write", "atomic-write", "dir-sync-before", "dir-sync-after-rename"][site as usize]);
    ex.errors_are_violations = false;
    let what = match variant {
        0 => {
            for grp in 0..3 {
                ex.step(&Op::DeleteTerm(Pred::Grp(grp)));
            }
            ex.step(&Op::Add(g.doc(rng, 3)));
            ex.step(&Op::Commit);
            "commit"
        }
        1 => {
            ex.step(&Op::Merge { pick: rng.next_u64(), n: 4, wait: true });
            "merge"
        }
        _ => {
            ex.step(&Op::DeleteTerm(Pred::Grp(rng.below(3))));
            ex.step(&Op::PrepCommit { payload: None, abort: false });
            "prepare+commit"
        }
    };
    ex.problems.clear();
    let fired = mon.faults_fired() > 0;
    rep.count(if fired { "failed_save:fault_fired" } else { "failed_save:fault_not_reached" }, 1);
    let present_before: BTreeSet<String> = mon.list_files().into_iter().collect();
    for _ in 0..rng.urange(1, 2) {
        if let Some(w) = ex.writer.as_ref() {
            let _ = w.garbage_collect_files().wait();
        }
    }
    let present_after: BTreeSet<String> = mon.list_files().into_iter().collect();
    let mut errs: Vec<(String, Value)> = vec![];
    match mon.raw_bytes("meta.json").map(|b| tvmon::mondir::meta_referenced_files(&b)) {
        Some(Ok(refs)) => {
            let gone: Vec<&String> = refs
                .iter()
                .map(|(f, _)| f)
                .filter(|f| present_before.contains(*f) && !present_after.contains(*f))
                .collect();
            if !gone.is_empty() {
                let kinds: BTreeSet<&str> = gone.iter().map(|f| file_kind(f)).collect();
                errs.push((
                    format!("failed-save:{what}:gc-removed-files-of-the-commit-on-storage:{}", kinds.into_iter().collect::<Vec<_>>().join("+")),
                    json!({"gone": gone.iter().take(12).collect::<Vec<_>>()}),
                ));
            }
        }
        Some(Err(e)) => errs.push(("failed-save:meta.json-unparsable".into(), json!(e))),
        None => errs.push(("failed-save:meta.json-missing".into(), json!(null))),
    }
    for v in mon.take_violations() {
        if v.sig.starts_with("T3:delete-of-file-referenced-by-visible") {
            errs.push((format!("failed-save:{what}:{}", v.sig), v.detail));
        }
    }
    // the commit on storage must still be readable by a fresh index
    ex.writer.take();
    match Index::open(mon.clone()).map_err(|e| e.to_string()).and_then(|i| i.reader().map_err(|e| e.to_string())) {
        Ok(reader) => {
            if let Err(e) = live_ids(&reader.searcher()) {
                errs.push((format!("failed-save:{what}:commit-on-storage-unreadable"), json!(e)));
            }
        }
        Err(e) => errs.push((format!("failed-save:{what}:commit-on-storage-unreadable"), json!(e))),
    }
    for (sig, d) in errs {
        rep.violation(sig, json!({"case": case, "variant": what, "detail": d}));
    }
    if fired {
        rep.nontrivial(format!("failed-save:{what}:site={site}:nseg={nseg}:gc_deleted={}", present_before.len() - present_after.len().min(present_before.len())));
    }
}

/// Forced schedule `tvmon::sched::stale_gc_window_schedule`: the old generation finishes its merge
/// while the successor's commit stands between the replacement of meta.json and the directory sync.
fn gc_window_case(case: u64, rng: &mut Rng, rep: &mut Report) {
    rep.eval();
    let out = tvmon::sched::stale_gc_window_schedule(rng);
    for c in &out.counters {
        rep.count(c, 1);
    }
    for (sig, d) in out.problems {
        rep.violation(format!("gc-window:{sig}"), json!({"case": case, "shape": out.shape, "detail": d}));
    }
    if out.forced {
        rep.nontrivial(format!("gc-window:{}", out.shape));
    }
}

fn main() {
    let ctx = Ctx::from_env("C10", "exploration");
    let mut rep = run_cases(&ctx, "hist", ctx.scale(150, 6000) as u64, history_case);
    rep.merge(run_cases(&ctx, "forced", ctx.scale(120, 6000) as u64, forced_gc_case));
    rep.merge(run_cases(&ctx, "forced-reader", ctx.scale(60, 3000) as u64, forced_reader_case));
    rep.merge(run_cases(&ctx, "crash", ctx.scale(12, 400) as u64, crash_case));
    rep.merge(run_cases(&ctx, "failed-save", ctx.scale(60, 3000) as u64, failed_save_case));
    rep.merge(run_cases(&ctx, "gc-window", ctx.scale(40, 1500) as u64, gc_window_case));
    simple_finish(
        &ctx,
        rep,
        "case = (a) one generated history on MonDir with the online delete monitor T3 and, at quiescent points (commit returned, merges awaited, GC run), directory == files of the committed segments + meta.json + .managed.json and .managed.json == managed files present; (b) one forced schedule with a worker or merge thread parked at its k-th file creation/write/terminate while GC and commits run; (c) recovered crash images continued with one commit + GC and checked the same way; (d) a failing meta.json write (commit / prepare+commit / end of a merge) followed by GC on the same writer: the commit still on storage keeps every file; (e) forced schedule gc-window: the old generation of a dropped writer finishes its merge while the commit of the successor stands between the meta.json replacement and the directory sync (T3 against the durable meta). Non-trivial = GC actually deleted files / the gate was reached / the image was recoverable; distinct = op-kind set x config, gate position, boundary kind x outcome.",
        ctx.scale(40, 200),
        &["quiescence is reached by wait_merging_threads + a new writer + explicit garbage_collect_files", "crash images follow the durability model of DESIGN.md §3.1"],
    );
}
