#!/bin/bash
# Sanitizer / Miri / valgrind add-ons of the thorough tier.
#   scripts/addons.sh <ID> <out.json>
# Re-runs the property's own workload (same binary, reduced case counts) under ASan / TSan /
# valgrind memcheck, and the purpose-built Miri workloads, as configured per property below.
# Writes {"addons":[...], "violations":[{"sig":..,"detail":..}]} to <out.json>.
# A sanitizer report is a violation of the property under whose workload it occurs; an add-on
# that cannot be built or run is recorded as unavailable (never as a violation).
set -u
id=$1; out=$2
bin=$(echo "$id" | tr 'A-Z' 'a-z')
root=/verif
H=$root/harness
export CARGO_NET_OFFLINE=true
seed=${VERIF_SEED:-1}
tmp=$(mktemp -d /tmp/addons-$bin-XXXX)
addons="[]"; viols="[]"
add_addon() { addons=$(jq -c --argjson a "$1" '. + [$a]' <<<"$addons"); }
add_viol()  { viols=$(jq -c --arg s "$1" --arg d "$2" '. + [{"sig":$s,"detail":$d}]' <<<"$viols"); }

case "$id" in
  C05) asan=1; tsan=1; miri="ownedbytes"; vg=0;;
  C02|C04|C10|C18) asan=0; tsan=1; miri=""; vg=0;;
  C06) asan=1; tsan=0; miri="topn"; vg=0;;
  C07) asan=1; tsan=0; miri="stacker bitpacker"; vg=0;;
  C08) asan=1; tsan=0; miri="bitpacker optidx"; vg=0;;
  C09) asan=1; tsan=1; miri=""; vg=1;;
  C13|C15|C16|C19) asan=1; tsan=0; miri=""; vg=0;;
  *) asan=0; tsan=0; miri=""; vg=0;;
esac

first_repo_frame() { # stdin: sanitizer log
  grep -oE "(/repo/[A-Za-z0-9_./-]+\.rs)" | head -1 | sed 's|/repo/||'
}

run_san() { # name rustflags extra-cargo-args env-opts div
  local name=$1 flags=$2 extra=$3 envopts=$4 div=$5
  local t0=$(date +%s)
  local tdir=$H/target-$name
  if ! ( cd $H && RUSTFLAGS="$flags" CARGO_TARGET_DIR=$tdir cargo +nightly build --profile verif $extra --target x86_64-unknown-linux-gnu --bin $bin ) >$tmp/build-$name.log 2>&1; then
    add_addon "$(jq -nc --arg n "$name" --arg e "$(tail -3 $tmp/build-$name.log | tr '\n' ' ')" '{name:$n, available:false, reason:("build failed: "+$e)}')"
    return
  fi
  local exe=$tdir/x86_64-unknown-linux-gnu/verif/$bin
  ( cd $root && env $envopts VERIF_SCALE_DIV=$div VERIF_SEED=$seed VERIF_QUICK_SECS=240 timeout 900 $exe quick --no-evidence 1 ) >$tmp/run-$name.out 2>$tmp/run-$name.err
  local rc=$?
  local reports=$(cat $tmp/run-$name.err $tmp/$name.log.* 2>/dev/null | grep -cE "ERROR: AddressSanitizer|WARNING: ThreadSanitizer|ERROR: LeakSanitizer")
  local t1=$(date +%s)
  add_addon "$(jq -nc --arg n "$name" --argjson rc $rc --argjson r $reports --argjson w $((t1-t0)) --arg s "$(grep -E "^$id tier=" $tmp/run-$name.out | tail -1)" '{name:$n, available:true, exit:$rc, reports:$r, wall_s:$w, summary:$s}')"
  if [ "$reports" -gt 0 ]; then
    local kind=$(cat $tmp/run-$name.err $tmp/$name.log.* 2>/dev/null | grep -E "ERROR: AddressSanitizer|WARNING: ThreadSanitizer" | head -1 | sed -E 's/.*(AddressSanitizer|ThreadSanitizer): ([a-zA-Z-]+).*/\2/')
    local frame=$(cat $tmp/run-$name.err $tmp/$name.log.* 2>/dev/null | first_repo_frame)
    add_viol "sanitizer:$name:$kind:${frame:-unknown-frame}" "$(cat $tmp/run-$name.err $tmp/$name.log.* 2>/dev/null | grep -vE '^ *#[0-9]+ .*(/rustc/|/library/|rayon|registry/src)' | cut -c1-220 | head -40)"
  elif [ $rc -ge 128 ] || [ $rc -eq 66 ]; then
    add_viol "sanitizer:$name:abnormal-exit-$rc" "$(tail -30 $tmp/run-$name.err | cut -c1-220)"
  fi
}

if [ $asan = 1 ]; then
  run_san asan "-Zsanitizer=address -Cforce-frame-pointers=yes" "" "ASAN_OPTIONS=halt_on_error=1:abort_on_error=0:detect_leaks=0:log_path=$tmp/asan.log" 8
fi
if [ $tsan = 1 ]; then
  run_san tsan "-Zsanitizer=thread" "-Zbuild-std" "TSAN_OPTIONS=halt_on_error=0:exitcode=66:suppressions=$root/scripts/tsan.supp:log_path=$tmp/tsan.log" 10
fi
if [ $vg = 1 ]; then
  t0=$(date +%s)
  exe=$H/target/verif/$bin
  ( cd $root && VERIF_SCALE_DIV=40 VERIF_THREADS=4 VERIF_SEED=$seed VERIF_QUICK_SECS=400 timeout 1200 valgrind --error-exitcode=99 --track-origins=no --log-file=$tmp/vg.log $exe quick --no-evidence 1 ) >$tmp/run-vg.out 2>$tmp/run-vg.err
  rc=$?
  errs=$(grep -E "ERROR SUMMARY" $tmp/vg.log | tail -1 | sed -E 's/.*ERROR SUMMARY: ([0-9]+) errors.*/\1/')
  t1=$(date +%s)
  add_addon "$(jq -nc --argjson rc $rc --arg e "${errs:-?}" --argjson w $((t1-t0)) '{name:"valgrind-memcheck", available:true, exit:$rc, errors:$e, wall_s:$w}')"
  if [ "${errs:-0}" != "0" ] && [ -n "${errs:-}" ]; then
    frame=$(first_repo_frame < $tmp/vg.log)
    kind=$(grep -E "Invalid (read|write)|uninitialised|Mismatched|Invalid free" $tmp/vg.log | head -1 | sed -E 's/==[0-9]+== //' | cut -c1-40 | tr ' ' '-')
    add_viol "valgrind:$kind:${frame:-unknown-frame}" "$(grep -vE '^==[0-9]+== *$' $tmp/vg.log | cut -c1-220 | head -40)"
  fi
fi
for w in $miri; do
  t0=$(date +%s)
  ( cd $root/miri && MIRIFLAGS="-Zmiri-disable-isolation" CARGO_TARGET_DIR=$root/miri/target timeout 1500 cargo +nightly miri run --bin $w -- $seed ) >$tmp/miri-$w.out 2>$tmp/miri-$w.err
  rc=$?
  t1=$(date +%s)
  ub=$(grep -cE "error: Undefined Behavior|error: unsupported operation|Data race detected" $tmp/miri-$w.err)
  add_addon "$(jq -nc --arg n "miri:$w" --argjson rc $rc --argjson ub $ub --argjson w $((t1-t0)) --arg s "$(tail -1 $tmp/miri-$w.out)" '{name:$n, available:true, exit:$rc, ub_reports:$ub, wall_s:$w, summary:$s}')"
  if [ $ub -gt 0 ]; then
    kind=$(grep -E "error: Undefined Behavior" $tmp/miri-$w.err | head -1 | cut -c1-120)
    frame=$(first_repo_frame < $tmp/miri-$w.err)
    if grep -qE "Stacked Borrows|Tree Borrows|borrow stack|tag does not exist" $tmp/miri-$w.err; then
      # aliasing-model-only reports are advisory (DESIGN.md §6.1)
      add_addon "$(jq -nc --arg n "miri:$w" --arg k "$kind" '{name:$n, advisory:("aliasing-model report: "+$k)}')"
    else
      add_viol "miri:$w:${frame:-unknown-frame}" "$(head -40 $tmp/miri-$w.err | cut -c1-220)"
    fi
  elif [ $rc -ne 0 ]; then
    if grep -q "MIRI-WORKLOAD-MISMATCH" $tmp/miri-$w.out; then
      add_viol "miri:$w:workload-oracle-mismatch" "$(tail -20 $tmp/miri-$w.out)"
    else
      add_addon "$(jq -nc --arg n "miri:$w" --arg e "$(tail -5 $tmp/miri-$w.err | tr '\n' ' ')" '{name:$n, available:false, reason:$e}')"
    fi
  fi
done
jq -nc --argjson a "$addons" --argjson v "$viols" '{addons:$a, violations:$v}' > "$out"
rm -rf "$tmp"
exit 0
