//! Shared pieces of the C06 (top-K) and C12 (BM25 / explain) checks:
//! model documents, schema, index builder with a prescribed segmentation, a query AST that can be
//! turned into a tantivy query, a non-pruning exhaustive collector, ulp helpers and an independent
//! field-norm table.
#![allow(dead_code)]

use std::collections::HashMap;

use tantivy::collector::{Collector, SegmentCollector};
use tantivy::columnar::Column;
use tantivy::indexer::NoMergePolicy;
use tantivy::query::{
    AllQuery, BooleanQuery, BoostQuery, ConstScoreQuery, DisjunctionMaxQuery, Occur, PhraseQuery,
    Query, TermQuery,
};
use tantivy::schema::{
    DateOptions, Field, IndexRecordOption, NumericOptions, Schema, TextFieldIndexing, TextOptions,
};
use tantivy::{
    DateTime, DocAddress, DocId, Index, IndexWriter, Score, SegmentOrdinal, SegmentReader,
    TantivyDocument, Term,
};
use tvmon::rng::Rng;

// ---------------------------------------------------------------------------------------------
// floats

/// distance to the next representable f32 above |x| (x finite)
pub fn ulp(x: f32) -> f32 {
    let a = x.abs().max(f32::MIN_POSITIVE);
    f32::from_bits(a.to_bits() + 1) - a
}

/// number of representable f32 between two finite floats of the same sign (0 = bit-identical)
pub fn ulps_apart(a: f32, b: f32) -> u64 {
    if a.to_bits() == b.to_bits() {
        return 0;
    }
    if !a.is_finite() || !b.is_finite() {
        return u64::MAX;
    }
    let ka = key(a);
    let kb = key(b);
    (ka - kb).unsigned_abs()
}

fn key(x: f32) -> i64 {
    let b = x.to_bits();
    if b & 0x8000_0000 != 0 {
        -((b & 0x7fff_ffff) as i64)
    } else {
        b as i64
    }
}

// ---------------------------------------------------------------------------------------------
// field norms: the documented one-byte code, written from the rule (not copied from tantivy):
// ids below 24 are the length itself; above, 3 mantissa bits and an exponent.

pub fn my_fieldnorm_table() -> [u32; 256] {
    let mut t = [0u32; 256];
    for (i, slot) in t.iter_mut().enumerate() {
        let b = i as u32;
        *slot = if b < 24 {
            b
        } else {
            let e = b - 24;
            let bits = e & 7;
            let shift = e >> 3;
            24 + if shift == 0 { bits } else { (bits | 8) << (shift - 1) }
        };
    }
    t
}

/// quantisation: the largest representable length that is <= the real length
pub fn floor_bucket(table: &[u32; 256], len: u32) -> u8 {
    let mut id = 0usize;
    for (i, &v) in table.iter().enumerate() {
        if v <= len {
            id = i;
        } else {
            break;
        }
    }
    id as u8
}

// ---------------------------------------------------------------------------------------------
// model documents and schema

#[derive(Clone, Debug)]
pub struct MDoc {
    pub id: u64,
    pub body: Vec<u16>,
    pub title: Vec<u16>,
    pub tag: u8,
    pub fu: Option<u64>,
    pub fi: Option<i64>,
    pub ff: Option<f64>,
    /// whole seconds
    pub fd: Option<i64>,
    pub fs: Option<String>,
    pub fb: Option<bool>,
}

impl MDoc {
    pub fn empty(id: u64) -> MDoc {
        MDoc {
            id,
            body: vec![],
            title: vec![],
            tag: 0,
            fu: None,
            fi: None,
            ff: None,
            fd: None,
            fs: None,
            fb: None,
        }
    }
}

pub const TAGS: [&str; 5] = ["red", "green", "blue", "black", "white"];

pub fn word(i: u16) -> String {
    format!("w{i}")
}

#[derive(Clone)]
pub struct Sch {
    pub schema: Schema,
    pub id: Field,
    pub body: Field,
    pub title: Field,
    pub tag: Field,
    pub fu: Field,
    pub fi: Field,
    pub ff: Field,
    pub fd: Field,
    pub fs: Field,
    pub fb: Field,
    pub body_opt: IndexRecordOption,
}

pub fn mk_schema(body_opt: IndexRecordOption) -> Sch {
    let mut b = Schema::builder();
    let id = b.add_u64_field("id", NumericOptions::default().set_indexed().set_fast());
    let body = b.add_text_field(
        "body",
        TextOptions::default().set_indexing_options(
            TextFieldIndexing::default()
                .set_tokenizer("default")
                .set_fieldnorms(true)
                .set_index_option(body_opt),
        ),
    );
    let title = b.add_text_field(
        "title",
        TextOptions::default().set_indexing_options(
            TextFieldIndexing::default()
                .set_tokenizer("default")
                .set_fieldnorms(true)
                .set_index_option(IndexRecordOption::WithFreqsAndPositions),
        ),
    );
    let tag = b.add_text_field(
        "tag",
        TextOptions::default().set_indexing_options(
            TextFieldIndexing::default()
                .set_tokenizer("raw")
                .set_fieldnorms(true)
                .set_index_option(IndexRecordOption::Basic),
        ),
    );
    let fu = b.add_u64_field("fu", NumericOptions::default().set_fast());
    let fi = b.add_i64_field("fi", NumericOptions::default().set_fast());
    let ff = b.add_f64_field("ff", NumericOptions::default().set_fast());
    let fd = b.add_date_field("fd", DateOptions::default().set_fast());
    let fs = b.add_text_field("fs", TextOptions::default().set_fast(Some("raw")));
    let fb = b.add_bool_field("fb", NumericOptions::default().set_fast());
    Sch {
        schema: b.build(),
        id,
        body,
        title,
        tag,
        fu,
        fi,
        ff,
        fd,
        fs,
        fb,
        body_opt,
    }
}

pub fn join_words(ws: &[u16]) -> String {
    let mut s = String::with_capacity(ws.len() * 4);
    for (i, w) in ws.iter().enumerate() {
        if i > 0 {
            s.push(' ');
        }
        s.push('w');
        // small manual itoa (hot for 100k-token documents)
        let mut buf = [0u8; 5];
        let mut n = *w;
        let mut k = 5;
        loop {
            k -= 1;
            buf[k] = b'0' + (n % 10) as u8;
            n /= 10;
            if n == 0 {
                break;
            }
        }
        s.push_str(std::str::from_utf8(&buf[k..]).unwrap());
    }
    s
}

impl MDoc {
    pub fn to_doc(&self, s: &Sch) -> TantivyDocument {
        let mut d = TantivyDocument::new();
        d.add_u64(s.id, self.id);
        if !self.body.is_empty() {
            d.add_text(s.body, join_words(&self.body));
        }
        if !self.title.is_empty() {
            d.add_text(s.title, join_words(&self.title));
        }
        d.add_text(s.tag, TAGS[self.tag as usize % TAGS.len()]);
        if let Some(v) = self.fu {
            d.add_u64(s.fu, v);
        }
        if let Some(v) = self.fi {
            d.add_i64(s.fi, v);
        }
        if let Some(v) = self.ff {
            d.add_f64(s.ff, v);
        }
        if let Some(v) = self.fd {
            d.add_date(s.fd, DateTime::from_timestamp_secs(v));
        }
        if let Some(v) = &self.fs {
            d.add_text(s.fs, v);
        }
        if let Some(v) = self.fb {
            d.add_bool(s.fb, v);
        }
        d
    }
}

/// Indexes `docs` in order, committing after every index in `cuts` (positions in `docs`, exclusive
/// ends), then deletes `deletes` (by id) in one more commit. `merge_first` merges the first n
/// segments afterwards. Returns the index; errors are rendered as strings "call: error".
pub fn build_index(
    s: &Sch,
    docs: &[MDoc],
    cuts: &[usize],
    deletes: &[u64],
    merge_first: usize,
) -> Result<Index, (String, String)> {
    let index = Index::create_in_ram(s.schema.clone());
    let mut w: IndexWriter = index
        .writer_with_num_threads(1, 100_000_000)
        .map_err(|e| ("writer".to_string(), e.to_string()))?;
    w.set_merge_policy(Box::new(NoMergePolicy));
    let mut start = 0usize;
    let mut ends: Vec<usize> = cuts.iter().copied().filter(|&c| c > 0 && c < docs.len()).collect();
    ends.sort_unstable();
    ends.dedup();
    ends.push(docs.len());
    for end in ends {
        for d in &docs[start..end] {
            w.add_document(d.to_doc(s))
                .map_err(|e| ("add_document".to_string(), e.to_string()))?;
        }
        if end > start {
            w.commit().map_err(|e| ("commit".to_string(), e.to_string()))?;
        }
        start = end;
    }
    if !deletes.is_empty() {
        for id in deletes {
            w.delete_term(Term::from_field_u64(s.id, *id));
        }
        w.commit().map_err(|e| ("commit".to_string(), e.to_string()))?;
    }
    if merge_first >= 2 {
        let ids = index
            .searchable_segment_ids()
            .map_err(|e| ("searchable_segment_ids".to_string(), e.to_string()))?;
        if ids.len() >= merge_first {
            let _ = w
                .merge(&ids[..merge_first])
                .wait()
                .map_err(|e| ("merge".to_string(), e.to_string()))?;
        }
    }
    w.wait_merging_threads()
        .map_err(|e| ("wait_merging_threads".to_string(), e.to_string()))?;
    Ok(index)
}

// ---------------------------------------------------------------------------------------------
// exhaustive, non-pruning collector: every alive matching doc with its score and its `id`

#[derive(Clone, Copy, Debug)]
pub struct Hit {
    pub addr: DocAddress,
    pub score: Score,
    pub id: u64,
}

pub struct Exhaustive;

pub struct ExhaustiveSeg {
    ord: SegmentOrdinal,
    ids: Column<u64>,
    out: Vec<Hit>,
}

impl Collector for Exhaustive {
    type Fruit = Vec<Hit>;
    type Child = ExhaustiveSeg;

    fn for_segment(&self, ord: SegmentOrdinal, seg: &SegmentReader) -> tantivy::Result<ExhaustiveSeg> {
        let ids = seg.fast_fields().u64("id")?;
        Ok(ExhaustiveSeg {
            ord,
            ids,
            out: vec![],
        })
    }

    fn requires_scoring(&self) -> bool {
        true
    }

    fn merge_fruits(&self, fruits: Vec<Vec<Hit>>) -> tantivy::Result<Vec<Hit>> {
        let mut all: Vec<Hit> = fruits.into_iter().flatten().collect();
        all.sort_by_key(|h| h.addr);
        Ok(all)
    }
}

impl SegmentCollector for ExhaustiveSeg {
    type Fruit = Vec<Hit>;

    fn collect(&mut self, doc: DocId, score: Score) {
        let id = self.ids.first(doc).unwrap_or(u64::MAX);
        self.out.push(Hit {
            addr: DocAddress::new(self.ord, doc),
            score,
            id,
        });
    }

    fn harvest(self) -> Vec<Hit> {
        self.out
    }
}

// ---------------------------------------------------------------------------------------------
// query AST

#[derive(Clone, Copy, Debug, PartialEq, Eq, Hash, PartialOrd, Ord)]
pub enum TF {
    Body,
    Title,
}

#[derive(Clone, Debug)]
pub enum Q {
    Term { f: TF, w: u16, opt: IndexRecordOption },
    Tag(u8),
    Phrase { f: TF, ws: Vec<u16> },
    All,
    Bool(Vec<(Occur, Q)>),
    /// should clauses with minimum_number_should_match
    MinShould(Vec<Q>, usize),
    Boost(Box<Q>, f32),
    Const(Box<Q>, f32),
    DisMax(Vec<Q>, f32),
}

impl Q {
    pub fn term(f: TF, w: u16) -> Q {
        Q::Term {
            f,
            w,
            opt: IndexRecordOption::WithFreqs,
        }
    }

    pub fn field(s: &Sch, f: TF) -> Field {
        match f {
            TF::Body => s.body,
            TF::Title => s.title,
        }
    }

    pub fn to_query(&self, s: &Sch) -> Box<dyn Query> {
        match self {
            Q::Term { f, w, opt } => Box::new(TermQuery::new(
                Term::from_field_text(Q::field(s, *f), &word(*w)),
                *opt,
            )),
            Q::Tag(t) => Box::new(TermQuery::new(
                Term::from_field_text(s.tag, TAGS[*t as usize % TAGS.len()]),
                IndexRecordOption::Basic,
            )),
            Q::Phrase { f, ws } => Box::new(PhraseQuery::new(
                ws.iter()
                    .map(|w| Term::from_field_text(Q::field(s, *f), &word(*w)))
                    .collect(),
            )),
            Q::All => Box::new(AllQuery),
            Q::Bool(cs) => Box::new(BooleanQuery::new(
                cs.iter().map(|(o, q)| (*o, q.to_query(s))).collect(),
            )),
            Q::MinShould(qs, m) => Box::new(BooleanQuery::union_with_minimum_required_clauses(
                qs.iter().map(|q| q.to_query(s)).collect(),
                *m,
            )),
            Q::Boost(q, b) => Box::new(BoostQuery::new(q.to_query(s), *b)),
            Q::Const(q, c) => Box::new(ConstScoreQuery::new(q.to_query(s), *c)),
            Q::DisMax(qs, t) => Box::new(DisjunctionMaxQuery::with_tie_breaker(
                qs.iter().map(|q| q.to_query(s)).collect(),
                *t,
            )),
        }
    }

    /// number of leaves that contribute a score
    pub fn n_leaves(&self) -> usize {
        match self {
            Q::Term { .. } | Q::Tag(_) | Q::Phrase { .. } | Q::All => 1,
            Q::Bool(cs) => cs
                .iter()
                .filter(|(o, _)| *o != Occur::MustNot)
                .map(|(_, q)| q.n_leaves())
                .sum(),
            Q::MinShould(qs, _) | Q::DisMax(qs, _) => qs.iter().map(|q| q.n_leaves()).sum(),
            Q::Boost(q, _) => q.n_leaves(),
            Q::Const(_, _) => 1,
        }
    }

    pub fn depth(&self) -> usize {
        match self {
            Q::Term { .. } | Q::Tag(_) | Q::Phrase { .. } | Q::All => 0,
            Q::Bool(cs) => 1 + cs.iter().map(|(_, q)| q.depth()).max().unwrap_or(0),
            Q::MinShould(qs, _) | Q::DisMax(qs, _) => {
                1 + qs.iter().map(|q| q.depth()).max().unwrap_or(0)
            }
            Q::Boost(q, _) | Q::Const(q, _) => 1 + q.depth(),
        }
    }

    pub fn describe(&self) -> String {
        match self {
            Q::Term { f, w, opt } => format!(
                "{}:w{}{}",
                if *f == TF::Body { "body" } else { "title" },
                w,
                if *opt == IndexRecordOption::Basic { "/basic" } else { "" }
            ),
            Q::Tag(t) => format!("tag:{}", TAGS[*t as usize % TAGS.len()]),
            Q::Phrase { f, ws } => format!(
                "{}:\"{}\"",
                if *f == TF::Body { "body" } else { "title" },
                ws.iter().map(|w| format!("w{w}")).collect::<Vec<_>>().join(" ")
            ),
            Q::All => "*".into(),
            Q::Bool(cs) => format!(
                "({})",
                cs.iter()
                    .map(|(o, q)| format!(
                        "{}{}",
                        match o {
                            Occur::Must => "+",
                            Occur::Should => "",
                            Occur::MustNot => "-",
                        },
                        q.describe()
                    ))
                    .collect::<Vec<_>>()
                    .join(" ")
            ),
            Q::MinShould(qs, m) => format!(
                "({})~{}",
                qs.iter().map(|q| q.describe()).collect::<Vec<_>>().join(" "),
                m
            ),
            Q::Boost(q, b) => format!("{}^{}", q.describe(), b),
            Q::Const(q, c) => format!("const({},{})", q.describe(), c),
            Q::DisMax(qs, t) => format!(
                "dismax[{};tie={}]",
                qs.iter().map(|q| q.describe()).collect::<Vec<_>>().join(" | "),
                t
            ),
        }
    }

    pub fn terms(&self, out: &mut Vec<(TF, u16)>) {
        match self {
            Q::Term { f, w, .. } => out.push((*f, *w)),
            Q::Phrase { f, ws } => out.extend(ws.iter().map(|w| (*f, *w))),
            Q::Tag(_) | Q::All => {}
            Q::Bool(cs) => cs.iter().for_each(|(_, q)| q.terms(out)),
            Q::MinShould(qs, _) | Q::DisMax(qs, _) => qs.iter().for_each(|q| q.terms(out)),
            Q::Boost(q, _) | Q::Const(q, _) => q.terms(out),
        }
    }
}

// ---------------------------------------------------------------------------------------------
// small helpers

pub fn ids_to_docs(docs: &[MDoc]) -> HashMap<u64, usize> {
    docs.iter().enumerate().map(|(i, d)| (d.id, i)).collect()
}

/// random cut points producing `nseg` non-empty chunks of `n` docs (boundary aware)
pub fn random_cuts(rng: &mut Rng, n: usize, nseg: usize) -> Vec<usize> {
    if n < 2 || nseg < 2 {
        return vec![];
    }
    let mut cuts = vec![];
    let interesting = [1usize, 127, 128, 129, 255, 256, 257, 4095, 4096, 4097];
    for _ in 0..nseg - 1 {
        let c = if rng.chance(1, 4) {
            let base = if cuts.is_empty() || rng.bool() { 0 } else { *rng.pick(&cuts) };
            base + *rng.pick(&interesting)
        } else {
            rng.urange(1, n - 1)
        };
        if c >= 1 && c < n {
            cuts.push(c);
        }
    }
    cuts.sort_unstable();
    cuts.dedup();
    cuts
}

// ---------------------------------------------------------------------------------------------
// panics inside a search (possibly on a thread of the search pool, where the harness' panic hook
// cannot attribute a location): caught here, keyed on the message

pub const PANIC_PREFIX: &str = "PANIC: ";

/// runs a search; a panic is returned as Err("PANIC: <message>")
pub fn catch_search<T>(f: impl FnOnce() -> T) -> Result<T, String> {
    match std::panic::catch_unwind(std::panic::AssertUnwindSafe(f)) {
        Ok(v) => Ok(v),
        Err(p) => {
            let msg = if let Some(s) = p.downcast_ref::<&str>() {
                s.to_string()
            } else if let Some(s) = p.downcast_ref::<String>() {
                s.clone()
            } else {
                "<non-string panic>".to_string()
            };
            Err(format!("{PANIC_PREFIX}{msg}"))
        }
    }
}

/// stable signature of a caught panic: message with digits squashed
pub fn panic_sig(p: &str) -> String {
    let msg = p.strip_prefix(PANIC_PREFIX).unwrap_or(p);
    let mut m: String = msg.chars().map(|c| if c.is_ascii_digit() { '#' } else { c }).collect();
    while m.contains("##") {
        m = m.replace("##", "#");
    }
    let m: String = m.chars().take(90).collect();
    format!("panic-in-search:{m}")
}
