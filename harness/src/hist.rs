//! History workloads: a fixed schema with unique document ids, a generator of operation
//! histories, a pure sequential model of the index, and an executor that drives a real
//! `IndexWriter` while recording client events. Shared by C01 C02 C04 C05 C10 C11 C17 C18.

use std::collections::{BTreeMap, BTreeSet};
use std::ops::Bound;

use serde_json::{json, Value};
use tantivy::collector::{Count, DocSetCollector};
use tantivy::indexer::{LogMergePolicy, NoMergePolicy, UserOperation};
use tantivy::query::{AllQuery, BooleanQuery, Occur, Query, RangeQuery, TermQuery};
use tantivy::schema::{
    Field, IndexRecordOption, Schema, Value as _, FAST, INDEXED, STORED, STRING, TEXT,
};
use tantivy::{
    DocAddress, Index, IndexReader, IndexSettings, IndexSortByField, IndexWriter, Order,
    ReloadPolicy, Searcher, TantivyDocument, Term,
};

use crate::mondir::MonDir;
use crate::rng::Rng;

pub const WORDS: [&str; 8] = ["aa", "bb", "cc", "dd", "ee", "ff", "gg", "hh"];
pub const TAGS: [&str; 4] = ["t0", "t1", "t2", "t3"];
/// a stored padding of this size makes the segment writer cut the segment right after the doc
pub const CUTTER_PAD: usize = 14_100_000;

#[derive(Clone)]
pub struct HSchema {
    pub schema: Schema,
    pub id: Field,
    pub grp: Field,
    pub val: Field,
    pub body: Field,
    pub tag: Field,
    pub pad: Field,
    /// sort-key twins of `val` in the other sortable types (present iff `val` is present and
    /// ordered like `val`)
    pub uval: Field,
    pub fval: Field,
    pub dval: Field,
    pub sval: Field,
    pub bval: Field,
    /// JSON object {"code": val (i64, when present), "flag": id is even, "w": first body word}
    pub attrs: Field,
}

pub const SORT_FIELDS: [&str; 6] = ["val", "uval", "fval", "dval", "sval", "bval"];

pub fn hschema() -> HSchema {
    let mut b = Schema::builder();
    let id = b.add_u64_field("id", INDEXED | FAST | STORED);
    let grp = b.add_u64_field("grp", INDEXED | FAST | STORED);
    let val = b.add_i64_field("val", INDEXED | FAST | STORED);
    let body = b.add_text_field("body", TEXT | STORED);
    let tag = b.add_text_field("tag", STRING | STORED | FAST);
    let pad = b.add_bytes_field("pad", STORED);
    let uval = b.add_u64_field("uval", FAST | STORED);
    let fval = b.add_f64_field("fval", FAST | STORED);
    let dval = b.add_date_field("dval", FAST | STORED);
    let sval = b.add_text_field("sval", STRING | FAST | STORED);
    let bval = b.add_bytes_field("bval", FAST | STORED);
    let attrs = b.add_json_field("attrs", TEXT | STORED);
    HSchema {
        schema: b.build(),
        id,
        grp,
        val,
        body,
        tag,
        pad,
        uval,
        fval,
        dval,
        sval,
        bval,
        attrs,
    }
}

#[derive(Clone, Debug, PartialEq, Eq)]
pub struct MDoc {
    pub id: u64,
    pub grp: u64,
    pub val: Option<i64>,
    pub body: Vec<u8>,
    pub tag: u8,
    pub pad: usize,
}

impl MDoc {
    pub fn to_doc(&self, hs: &HSchema) -> TantivyDocument {
        let mut d = TantivyDocument::new();
        d.add_u64(hs.id, self.id);
        d.add_u64(hs.grp, self.grp);
        if let Some(v) = self.val {
            d.add_i64(hs.val, v);
            d.add_u64(hs.uval, (v + 1_000) as u64);
            d.add_f64(hs.fval, v as f64 * 0.5);
            d.add_date(hs.dval, tantivy::DateTime::from_timestamp_secs(v * 3600));
            d.add_text(hs.sval, format!("s{:06}", v + 100_000));
            d.add_bytes(hs.bval, &((v + 100_000) as u32).to_be_bytes());
        }
        let body: Vec<&str> = self.body.iter().map(|&w| WORDS[w as usize]).collect();
        d.add_text(hs.body, body.join(" "));
        d.add_text(hs.tag, TAGS[self.tag as usize]);
        if self.pad > 0 {
            d.add_bytes(hs.pad, &vec![0u8; self.pad]);
        }
        let mut obj: BTreeMap<String, tantivy::schema::OwnedValue> = BTreeMap::new();
        if let Some(v) = self.val {
            obj.insert("code".into(), tantivy::schema::OwnedValue::I64(v));
        }
        obj.insert("flag".into(), tantivy::schema::OwnedValue::Bool(self.id % 2 == 0));
        if let Some(w) = self.body.first() {
            obj.insert("w".into(), tantivy::schema::OwnedValue::Str(WORDS[*w as usize].to_string()));
        }
        d.add_object(hs.attrs, obj);
        d
    }
    pub fn brief(&self) -> Value {
        json!({"id": self.id, "grp": self.grp, "val": self.val, "body": self.body, "tag": self.tag, "pad": self.pad})
    }
}

#[derive(Clone, Debug, PartialEq)]
pub enum Pred {
    Grp(u64),
    Tag(u8),
    Word(u8),
    Id(u64),
    ValRange(i64, i64),
    WordAndGrp(u8, u64),
    WordNotTag(u8, u8),
    All,
    /// JSON numeric term attrs.code:v
    Code(i64),
    /// JSON boolean term attrs.flag:b
    Flag(bool),
}

impl Pred {
    pub fn matches(&self, d: &MDoc) -> bool {
        match self {
            Pred::Grp(g) => d.grp == *g,
            Pred::Tag(t) => d.tag == *t,
            Pred::Word(w) => d.body.contains(w),
            Pred::Id(i) => d.id == *i,
            Pred::ValRange(lo, hi) => d.val.map(|v| v >= *lo && v <= *hi).unwrap_or(false),
            Pred::WordAndGrp(w, g) => d.body.contains(w) && d.grp == *g,
            Pred::WordNotTag(w, t) => d.body.contains(w) && d.tag != *t,
            Pred::All => true,
            Pred::Code(v) => d.val == Some(*v),
            Pred::Flag(b) => (d.id % 2 == 0) == *b,
        }
    }
    pub fn term(&self, hs: &HSchema) -> Option<Term> {
        match self {
            Pred::Grp(g) => Some(Term::from_field_u64(hs.grp, *g)),
            Pred::Tag(t) => Some(Term::from_field_text(hs.tag, TAGS[*t as usize])),
            Pred::Word(w) => Some(Term::from_field_text(hs.body, WORDS[*w as usize])),
            Pred::Id(i) => Some(Term::from_field_u64(hs.id, *i)),
            Pred::Code(v) => {
                let mut t = Term::from_field_json_path(hs.attrs, "code", false);
                t.append_type_and_fast_value(*v);
                Some(t)
            }
            Pred::Flag(b) => {
                let mut t = Term::from_field_json_path(hs.attrs, "flag", false);
                t.append_type_and_fast_value(*b);
                Some(t)
            }
            _ => None,
        }
    }
    pub fn query(&self, hs: &HSchema) -> Box<dyn Query> {
        match self {
            Pred::ValRange(lo, hi) => Box::new(RangeQuery::new(
                Bound::Included(Term::from_field_i64(hs.val, *lo)),
                Bound::Included(Term::from_field_i64(hs.val, *hi)),
            )),
            Pred::WordAndGrp(w, g) => Box::new(BooleanQuery::new(vec![
                (Occur::Must, Pred::Word(*w).query(hs)),
                (Occur::Must, Pred::Grp(*g).query(hs)),
            ])),
            Pred::WordNotTag(w, t) => Box::new(BooleanQuery::new(vec![
                (Occur::Must, Pred::Word(*w).query(hs)),
                (Occur::MustNot, Pred::Tag(*t).query(hs)),
            ])),
            Pred::All => Box::new(AllQuery),
            p => Box::new(TermQuery::new(p.term(hs).unwrap(), IndexRecordOption::Basic)),
        }
    }
    pub fn kind(&self) -> &'static str {
        match self {
            Pred::Grp(_) => "grp",
            Pred::Tag(_) => "tag",
            Pred::Word(_) => "word",
            Pred::Id(_) => "id",
            Pred::ValRange(..) => "valrange",
            Pred::WordAndGrp(..) => "word&grp",
            Pred::WordNotTag(..) => "word-tag",
            Pred::All => "all",
            Pred::Code(_) => "json-code",
            Pred::Flag(_) => "json-flag",
        }
    }
}

#[derive(Clone, Debug)]
pub enum BOp {
    Add(MDoc),
    Delete(Pred),
}

#[derive(Clone, Debug)]
pub enum Op {
    Add(MDoc),
    DeleteTerm(Pred),
    DeleteQuery(Pred),
    Batch(Vec<BOp>),
    DeleteAll,
    Commit,
    PrepCommit { payload: Option<String>, abort: bool },
    Rollback,
    /// merge `n` of the committed segments chosen by `pick`; wait for the result or not
    Merge { pick: u64, n: usize, wait: bool },
    Gc,
    /// close the writer (consuming it with wait_merging_threads or dropping it) and open a new one
    Reopen { wait_merges: bool },
    /// switch the merge policy of the live writer (eager LogMergePolicy / NoMergePolicy)
    SetPolicy(bool),
    /// prepare_commit() and drop the PreparedCommit: flushes the pending documents into
    /// uncommitted segments without committing anything
    PrepDrop,
}

impl Op {
    pub fn kind(&self) -> &'static str {
        match self {
            Op::Add(d) => {
                if d.pad >= CUTTER_PAD {
                    "add-cutter"
                } else {
                    "add"
                }
            }
            Op::DeleteTerm(_) => "delete_term",
            Op::DeleteQuery(_) => "delete_query",
            Op::Batch(_) => "batch",
            Op::DeleteAll => "delete_all",
            Op::Commit => "commit",
            Op::PrepCommit { abort: false, .. } => "prepare+commit",
            Op::PrepCommit { abort: true, .. } => "prepare+abort",
            Op::Rollback => "rollback",
            Op::Merge { wait: true, .. } => "merge-wait",
            Op::Merge { wait: false, .. } => "merge-async",
            Op::Gc => "gc",
            Op::Reopen { wait_merges: true } => "reopen-wait",
            Op::Reopen { wait_merges: false } => "reopen-drop",
            Op::SetPolicy(true) => "policy-log",
            Op::SetPolicy(false) => "policy-none",
            Op::PrepDrop => "prepare+drop",
        }
    }
    pub fn brief(&self) -> Value {
        match self {
            Op::Add(d) => json!({"add": d.brief()}),
            Op::DeleteTerm(p) => json!({"delete_term": format!("{p:?}")}),
            Op::DeleteQuery(p) => json!({"delete_query": format!("{p:?}")}),
            Op::Batch(b) => json!({"batch": b.iter().map(|o| match o {
                BOp::Add(d) => json!({"add": d.brief()}),
                BOp::Delete(p) => json!({"delete": format!("{p:?}")}),
            }).collect::<Vec<_>>()}),
            o => json!(o.kind()),
        }
    }
}

// ---------------------------------------------------------------------------------------------
// generator

#[derive(Clone, Debug)]
pub struct GenCfg {
    pub len: usize,
    pub groups: u64,
    /// relative weights: add, delete_term, delete_query, batch, delete_all, commit, prepcommit,
    /// rollback, merge, gc, reopen, cutter, set-policy, prepare+drop
    pub w: [u32; 14],
    pub allow_delete_all: bool,
    pub final_commit: bool,
}

impl GenCfg {
    pub fn standard(len: usize) -> GenCfg {
        GenCfg {
            len,
            groups: 4,
            w: [40, 10, 6, 6, 2, 10, 3, 3, 5, 2, 2, 2, 2, 2],
            allow_delete_all: true,
            final_commit: true,
        }
    }
    pub fn no_cutters(mut self) -> GenCfg {
        self.w[11] = 0;
        self
    }
    pub fn no_delete_all(mut self) -> GenCfg {
        self.allow_delete_all = false;
        self
    }
}

pub struct HistGen {
    pub next_id: u64,
}

impl HistGen {
    pub fn new() -> HistGen {
        HistGen { next_id: 1 }
    }
    pub fn doc(&mut self, rng: &mut Rng, groups: u64) -> MDoc {
        let id = self.next_id;
        self.next_id += 1;
        let nb = rng.usize_below(6);
        MDoc {
            id,
            grp: rng.below(groups),
            val: if rng.chance(1, 6) {
                None
            } else {
                Some(rng.irange(-20, 20))
            },
            body: (0..nb).map(|_| rng.below(WORDS.len() as u64) as u8).collect(),
            tag: rng.below(TAGS.len() as u64) as u8,
            pad: 0,
        }
    }
    pub fn pred(&mut self, rng: &mut Rng, groups: u64, term_only: bool) -> Pred {
        if rng.chance(1, 8) {
            return if rng.chance(1, 6) { Pred::Flag(rng.bool()) } else { Pred::Code(rng.irange(-20, 20)) };
        }
        let k = if term_only { rng.below(4) } else { rng.below(8) };
        match k {
            0 => Pred::Grp(rng.below(groups)),
            1 => Pred::Tag(rng.below(TAGS.len() as u64) as u8),
            2 => Pred::Word(rng.below(WORDS.len() as u64) as u8),
            3 => Pred::Id(rng.range(1, self.next_id.max(2) - 1 + 1)),
            4 => {
                let a = rng.irange(-20, 20);
                let b = rng.irange(a, 20.min(a + 8));
                Pred::ValRange(a, b)
            }
            5 => Pred::WordAndGrp(rng.below(WORDS.len() as u64) as u8, rng.below(groups)),
            6 => Pred::WordNotTag(
                rng.below(WORDS.len() as u64) as u8,
                rng.below(TAGS.len() as u64) as u8,
            ),
            _ => Pred::Grp(rng.below(groups)),
        }
    }
    /// The first operations of a re-created writer are stamped right after the last commit's
    /// opstamp: now and then a delete is the very first one, followed by a merge of committed
    /// segments and a rollback or commit (the delete must neither be baked into the merged
    /// segment nor be lost).
    fn after_new_writer(&mut self, rng: &mut Rng, cfg: &GenCfg, ops: &mut Vec<Op>) {
        if cfg.w[8] == 0 || !rng.chance(1, 3) {
            return;
        }
        let p = self.pred(rng, cfg.groups, true);
        ops.push(if rng.bool() { Op::DeleteTerm(p) } else { Op::DeleteQuery(p) });
        if rng.bool() {
            ops.push(Op::Add(self.doc(rng, cfg.groups)));
        }
        ops.push(Op::Merge { pick: rng.next_u64(), n: rng.urange(2, 4), wait: rng.chance(2, 3) });
        ops.push(if rng.bool() { Op::Rollback } else { Op::Commit });
    }

    pub fn history(&mut self, rng: &mut Rng, cfg: &GenCfg) -> Vec<Op> {
        let mut ops = vec![];
        let mut w = cfg.w;
        if !cfg.allow_delete_all {
            w[4] = 0;
        }
        while ops.len() < cfg.len {
            match rng.weighted(&w) {
                0 => {
                    // a small burst of adds
                    for _ in 0..rng.urange(1, 4) {
                        ops.push(Op::Add(self.doc(rng, cfg.groups)));
                    }
                }
                1 => ops.push(Op::DeleteTerm(self.pred(rng, cfg.groups, true))),
                2 => ops.push(Op::DeleteQuery(self.pred(rng, cfg.groups, false))),
                3 => {
                    let n = rng.urange(0, 5);
                    let mut b = vec![];
                    for _ in 0..n {
                        if rng.chance(2, 3) {
                            b.push(BOp::Add(self.doc(rng, cfg.groups)));
                        } else {
                            b.push(BOp::Delete(self.pred(rng, cfg.groups, true)));
                        }
                    }
                    // a batch straddling a memory-budget cut: one oversized document followed by
                    // more operations of the same batch (the segment is cut at a group boundary,
                    // never inside a batch)
                    if w[11] > 0 && rng.chance(1, 4) {
                        let mut d = self.doc(rng, cfg.groups);
                        d.pad = CUTTER_PAD;
                        let at = rng.urange(0, b.len());
                        b.insert(at, BOp::Add(d));
                        for _ in 0..rng.urange(1, 3) {
                            b.push(BOp::Add(self.doc(rng, cfg.groups)));
                        }
                    }
                    ops.push(Op::Batch(b));
                }
                4 => ops.push(Op::DeleteAll),
                5 => {
                    ops.push(Op::Commit);
                    // now and then a delete-only transaction right after (no new segment, only
                    // new .del files)
                    if rng.chance(1, 4) {
                        let term_only = rng.bool();
                        let p = self.pred(rng, cfg.groups, term_only);
                        if rng.bool() {
                            ops.push(Op::DeleteQuery(p));
                        } else if p.term(&hschema()).is_some() {
                            ops.push(Op::DeleteTerm(p));
                        } else {
                            ops.push(Op::DeleteQuery(p));
                        }
                        ops.push(Op::Commit);
                    }
                }
                6 => ops.push(Op::PrepCommit {
                    payload: if rng.bool() {
                        Some(format!("payload-{}", rng.below(1000)))
                    } else {
                        None
                    },
                    abort: rng.chance(1, 3),
                }),
                7 => {
                    ops.push(Op::Rollback);
                    self.after_new_writer(rng, cfg, &mut ops);
                }
                8 => ops.push(Op::Merge {
                    pick: rng.next_u64(),
                    n: rng.urange(2, 4),
                    wait: rng.chance(2, 3),
                }),
                9 => ops.push(Op::Gc),
                10 => {
                    ops.push(Op::Reopen {
                        wait_merges: rng.bool(),
                    });
                    self.after_new_writer(rng, cfg, &mut ops);
                }
                12 => ops.push(Op::SetPolicy(rng.bool())),
                13 => ops.push(Op::PrepDrop),
                _ => {
                    let mut d = self.doc(rng, cfg.groups);
                    d.pad = CUTTER_PAD;
                    ops.push(Op::Add(d));
                }
            }
        }
        if cfg.final_commit {
            ops.push(Op::Commit);
        }
        ops
    }
}

// ---------------------------------------------------------------------------------------------
// model

#[derive(Clone, Debug)]
pub enum POp {
    Add(MDoc),
    Delete(Pred),
    DeleteAll,
}

pub type DocSetState = BTreeMap<u64, MDoc>;

#[derive(Clone, Debug, Default)]
pub struct Model {
    pub committed: DocSetState,
    pub pending: Vec<POp>,
    pub payload: Option<String>,
    /// every state that was ever committed, in order (index 0 = empty index)
    pub commits: Vec<DocSetState>,
}

pub fn apply_pending(base: &DocSetState, pending: &[POp]) -> DocSetState {
    let mut s = base.clone();
    for op in pending {
        match op {
            POp::Add(d) => {
                s.insert(d.id, d.clone());
            }
            POp::Delete(p) => {
                s.retain(|_, d| !p.matches(d));
            }
            POp::DeleteAll => s.clear(),
        }
    }
    s
}

impl Model {
    pub fn new() -> Model {
        Model {
            committed: BTreeMap::new(),
            pending: vec![],
            payload: None,
            commits: vec![BTreeMap::new()],
        }
    }
    pub fn would_commit(&self) -> DocSetState {
        apply_pending(&self.committed, &self.pending)
    }
    pub fn commit(&mut self, payload: Option<String>) {
        self.committed = self.would_commit();
        self.pending.clear();
        self.payload = payload;
        self.commits.push(self.committed.clone());
    }
    pub fn rollback(&mut self) {
        self.pending.clear();
    }
}

// ---------------------------------------------------------------------------------------------
// observation: dump of a searcher keyed by unique id

#[derive(Clone, Debug, PartialEq, Eq)]
pub struct DocDump {
    pub doc: MDoc,
    pub seg_ord: u32,
    pub doc_id: u32,
}

fn first_u64(d: &TantivyDocument, f: Field) -> Option<u64> {
    d.get_first(f).and_then(|v| v.as_u64())
}

/// Reads every live document of the searcher through the doc store and the fast fields.
/// Returns the id -> doc map, or a list of inconsistencies (signature, detail).
pub fn dump_searcher(
    searcher: &Searcher,
    hs: &HSchema,
) -> Result<BTreeMap<u64, DocDump>, Vec<(String, Value)>> {
    let mut out: BTreeMap<u64, DocDump> = BTreeMap::new();
    let mut errs = vec![];
    for (ord, sr) in searcher.segment_readers().iter().enumerate() {
        let ff = sr.fast_fields();
        let idc = match ff.u64("id") {
            Ok(c) => c,
            Err(e) => {
                errs.push(("dump:fast-id-open".to_string(), json!(e.to_string())));
                continue;
            }
        };
        let grpc = ff.u64("grp").ok();
        let valc = ff.i64("val").ok();
        let tagc = ff.str("tag").ok().flatten();
        let store = match sr.get_store_reader(4) {
            Ok(s) => s,
            Err(e) => {
                errs.push(("dump:store-open".to_string(), json!(e.to_string())));
                continue;
            }
        };
        for doc in 0..sr.max_doc() {
            if sr.is_deleted(doc) {
                continue;
            }
            let d: TantivyDocument = match store.get(doc) {
                Ok(d) => d,
                Err(e) => {
                    errs.push(("dump:store-get".to_string(), json!({"seg": ord, "doc": doc, "err": e.to_string()})));
                    continue;
                }
            };
            let Some(id) = first_u64(&d, hs.id) else {
                errs.push(("dump:stored-doc-without-id".to_string(), json!({"seg": ord, "doc": doc})));
                continue;
            };
            let grp = first_u64(&d, hs.grp).unwrap_or(u64::MAX);
            let val = d.get_first(hs.val).and_then(|v| v.as_i64());
            let body_txt = d
                .get_first(hs.body)
                .and_then(|v| v.as_str())
                .unwrap_or("")
                .to_string();
            let body: Vec<u8> = body_txt
                .split_whitespace()
                .map(|w| WORDS.iter().position(|x| *x == w).map(|p| p as u8).unwrap_or(255))
                .collect();
            let tag_txt = d.get_first(hs.tag).and_then(|v| v.as_str()).unwrap_or("");
            let tag = TAGS.iter().position(|x| *x == tag_txt).map(|p| p as u8).unwrap_or(255);
            let pad = d
                .get_first(hs.pad)
                .and_then(|v| v.as_bytes())
                .map(|b| b.len())
                .unwrap_or(0);
            // fast fields must agree with the stored document
            let ff_id: Vec<u64> = idc.values_for_doc(doc).collect();
            if ff_id != vec![id] {
                errs.push((
                    "dump:fast-id-differs-from-stored".to_string(),
                    json!({"seg": ord, "doc": doc, "stored": id, "fast": ff_id}),
                ));
            }
            if let Some(c) = &grpc {
                let v: Vec<u64> = c.values_for_doc(doc).collect();
                if v != vec![grp] {
                    errs.push((
                        "dump:fast-grp-differs-from-stored".to_string(),
                        json!({"id": id, "stored": grp, "fast": v}),
                    ));
                }
            }
            match &valc {
                Some(c) => {
                    let v: Vec<i64> = c.values_for_doc(doc).collect();
                    let exp: Vec<i64> = val.into_iter().collect();
                    if v != exp {
                        errs.push((
                            "dump:fast-val-differs-from-stored".to_string(),
                            json!({"id": id, "stored": val, "fast": v}),
                        ));
                    }
                }
                None => {
                    if val.is_some() {
                        errs.push(("dump:fast-val-column-missing".to_string(), json!({"id": id})));
                    }
                }
            }
            if let Some(c) = &tagc {
                let mut s = String::new();
                let ords: Vec<u64> = c.term_ords(doc).collect();
                if ords.len() != 1 {
                    errs.push(("dump:fast-tag-cardinality".to_string(), json!({"id": id, "ords": ords})));
                } else {
                    let _ = c.ord_to_str(ords[0], &mut s);
                    if s != tag_txt {
                        errs.push((
                            "dump:fast-tag-differs-from-stored".to_string(),
                            json!({"id": id, "stored": tag_txt, "fast": s}),
                        ));
                    }
                }
            }
            let md = MDoc {
                id,
                grp,
                val,
                body,
                tag,
                pad,
            };
            if let Some(prev) = out.insert(
                id,
                DocDump {
                    doc: md,
                    seg_ord: ord as u32,
                    doc_id: doc,
                },
            ) {
                errs.push((
                    "dump:duplicate-id".to_string(),
                    json!({"id": id, "first": [prev.seg_ord, prev.doc_id], "second": [ord, doc]}),
                ));
            }
        }
    }
    if errs.is_empty() {
        Ok(out)
    } else {
        Err(errs)
    }
}

/// Compares a searcher with an expected document set: documents (all fields), exactly-once,
/// inverted index (term query per id, per word, per group, per tag), range query on `val`.
/// Returns the list of discrepancies (empty = equal).
pub fn compare_searcher(
    searcher: &Searcher,
    hs: &HSchema,
    expected: &DocSetState,
    deep: bool,
) -> Vec<(String, Value)> {
    let mut errs = vec![];
    let dump = match dump_searcher(searcher, hs) {
        Ok(d) => d,
        Err(e) => return e,
    };
    let got: BTreeSet<u64> = dump.keys().copied().collect();
    let exp: BTreeSet<u64> = expected.keys().copied().collect();
    if got != exp {
        let missing: Vec<u64> = exp.difference(&got).copied().take(10).collect();
        let extra: Vec<u64> = got.difference(&exp).copied().take(10).collect();
        let sig = match (missing.is_empty(), extra.is_empty()) {
            (false, true) => "state:missing-docs",
            (true, false) => "state:extra-docs",
            _ => "state:missing-and-extra-docs",
        };
        errs.push((
            sig.to_string(),
            json!({"missing_ids": missing, "extra_ids": extra, "expected_n": exp.len(), "got_n": got.len()}),
        ));
        return errs;
    }
    for (id, dd) in &dump {
        let e = &expected[id];
        if &dd.doc != e {
            errs.push((
                "state:doc-content-differs".to_string(),
                json!({"id": id, "expected": e.brief(), "got": dd.doc.brief()}),
            ));
        }
    }
    if searcher.num_docs() != expected.len() as u64 {
        errs.push((
            "state:num_docs".to_string(),
            json!({"num_docs": searcher.num_docs(), "expected": expected.len()}),
        ));
    }
    if !deep || !errs.is_empty() {
        return errs;
    }
    let mut check_query = |name: String, q: &dyn Query, want: BTreeSet<u64>| {
        let addrs = match searcher.search(q, &DocSetCollector) {
            Ok(a) => a,
            Err(e) => {
                errs.push((format!("query-error:{name}"), json!(e.to_string())));
                return;
            }
        };
        let cnt = searcher.search(q, &Count).unwrap_or(usize::MAX);
        let mut got = BTreeSet::new();
        for a in &addrs {
            if let Some(dd) = dump
                .values()
                .find(|dd| dd.seg_ord == a.segment_ord && dd.doc_id == a.doc_id)
            {
                got.insert(dd.doc.id);
            } else {
                got.insert(u64::MAX);
            }
        }
        if got != want || cnt != want.len() || addrs.len() != want.len() {
            errs.push((
                format!("state:query-mismatch:{}", name.split(':').next().unwrap_or("")),
                json!({"query": name, "expected": want.iter().take(20).collect::<Vec<_>>(),
                       "got": got.iter().take(20).collect::<Vec<_>>(), "count": cnt}),
            ));
        }
    };
    for id in expected.keys() {
        let p = Pred::Id(*id);
        check_query(format!("id:{id}"), &*p.query(hs), [*id].into_iter().collect());
    }
    for w in 0..WORDS.len() as u8 {
        let p = Pred::Word(w);
        let want = expected.values().filter(|d| p.matches(d)).map(|d| d.id).collect();
        check_query(format!("word:{w}"), &*p.query(hs), want);
    }
    for t in 0..TAGS.len() as u8 {
        let p = Pred::Tag(t);
        let want = expected.values().filter(|d| p.matches(d)).map(|d| d.id).collect();
        check_query(format!("tag:{t}"), &*p.query(hs), want);
    }
    let grps: BTreeSet<u64> = expected.values().map(|d| d.grp).collect();
    for g in grps {
        let p = Pred::Grp(g);
        let want = expected.values().filter(|d| p.matches(d)).map(|d| d.id).collect();
        check_query(format!("grp:{g}"), &*p.query(hs), want);
    }
    let codes: BTreeSet<i64> = expected.values().filter_map(|d| d.val).collect();
    for v in codes {
        let p = Pred::Code(v);
        let want = expected.values().filter(|d| p.matches(d)).map(|d| d.id).collect();
        check_query(format!("json-code:{v}"), &*p.query(hs), want);
    }
    for b in [true, false] {
        let p = Pred::Flag(b);
        let want = expected.values().filter(|d| p.matches(d)).map(|d| d.id).collect();
        check_query(format!("json-flag:{b}"), &*p.query(hs), want);
    }
    for (lo, hi) in [(-20, 20), (-5, 5), (0, 0), (7, 20)] {
        let p = Pred::ValRange(lo, hi);
        let want = expected.values().filter(|d| p.matches(d)).map(|d| d.id).collect();
        check_query(format!("val:[{lo},{hi}]"), &*p.query(hs), want);
    }
    errs
}

/// ids of the live documents (cheap observation: fast field only)
pub fn live_ids(searcher: &Searcher) -> Result<BTreeSet<u64>, String> {
    let mut ids = BTreeSet::new();
    for sr in searcher.segment_readers() {
        let c = sr.fast_fields().u64("id").map_err(|e| e.to_string())?;
        for doc in sr.doc_ids_alive() {
            for v in c.values_for_doc(doc) {
                if !ids.insert(v) {
                    return Err(format!("duplicate id {v}"));
                }
            }
        }
    }
    Ok(ids)
}

pub fn doc_address_of(searcher: &Searcher, hs: &HSchema, id: u64) -> Option<DocAddress> {
    let q = Pred::Id(id).query(hs);
    searcher
        .search(&*q, &DocSetCollector)
        .ok()
        .and_then(|s| s.into_iter().next())
}

// ---------------------------------------------------------------------------------------------
// executor

#[derive(Clone, Debug)]
pub struct ExecCfg {
    pub threads: usize,
    /// LogMergePolicy with tiny thresholds (true) or NoMergePolicy
    pub merge_policy: bool,
    pub sort: Option<(String, Order)>,
    pub budget_per_thread: usize,
}

impl ExecCfg {
    pub fn describe(&self) -> String {
        format!(
            "threads={} policy={} sort={}",
            self.threads,
            if self.merge_policy { "log" } else { "none" },
            match &self.sort {
                None => "none".to_string(),
                Some((f, o)) => format!("{f}:{o:?}"),
            }
        )
    }
    pub fn random(rng: &mut Rng, allow_sort: bool) -> ExecCfg {
        ExecCfg {
            threads: *rng.pick(&[1usize, 1, 2, 3, 4, 8]),
            merge_policy: rng.bool(),
            sort: if allow_sort && rng.chance(1, 4) {
                Some((
                    rng.pick(&SORT_FIELDS).to_string(),
                    if rng.bool() { Order::Asc } else { Order::Desc },
                ))
            } else {
                None
            },
            budget_per_thread: 15_000_000,
        }
    }
}

thread_local! {
    /// doc store block size of the indexes created by `Exec::create` on this thread (0 = the
    /// default of 16 KB). A tiny block size gives every segment a multi-block `.store` file: the
    /// compressor thread then receives several messages per segment and merges take the
    /// block-stacking path.
    static DOCSTORE_BLOCKSIZE: std::cell::Cell<usize> = const { std::cell::Cell::new(0) };
}

pub fn set_docstore_blocksize(n: usize) {
    DOCSTORE_BLOCKSIZE.with(|c| c.set(n));
}

thread_local! {
    /// (compress on the indexing thread instead of the dedicated compressor thread,
    ///  compressor: 0 = default (lz4), 1 = none, 2 = zstd) for indexes created on this thread
    static DOCSTORE_VARIANT: std::cell::Cell<(bool, u8)> = const { std::cell::Cell::new((false, 0)) };
}

/// Doc store variant of the indexes `Exec::create` makes on this thread from now on; returns a
/// short name for evidence.
pub fn set_docstore_variant(same_thread: bool, compressor: u8) -> String {
    DOCSTORE_VARIANT.with(|c| c.set((same_thread, compressor)));
    format!(
        "{}+{}",
        if same_thread { "same-thread" } else { "compressor-thread" },
        match compressor {
            1 => "none",
            2 => "zstd",
            _ => "lz4",
        }
    )
}

pub fn index_settings(cfg: &ExecCfg) -> IndexSettings {
    let mut settings = IndexSettings {
        sort_by_field: cfg.sort.as_ref().map(|(f, o)| IndexSortByField {
            field: f.clone(),
            order: *o,
        }),
        ..Default::default()
    };
    let bs = DOCSTORE_BLOCKSIZE.with(|c| c.get());
    if bs > 0 {
        settings.docstore_blocksize = bs;
    }
    let (same_thread, compressor) = DOCSTORE_VARIANT.with(|c| c.get());
    if same_thread {
        settings.docstore_compress_dedicated_thread = false;
    }
    match compressor {
        1 => settings.docstore_compression = tantivy::store::Compressor::None,
        2 => settings.docstore_compression = tantivy::store::Compressor::Zstd(tantivy::store::ZstdCompressor::default()),
        _ => {}
    }
    settings
}

#[derive(Debug, Clone)]
pub struct StepOutcome {
    /// the API call(s) returned Ok
    pub ok: bool,
    pub err: Option<String>,
    /// for commits: opstamp returned
    pub opstamp: Option<u64>,
}

pub struct Exec {
    pub hs: HSchema,
    pub index: Index,
    pub writer: Option<IndexWriter>,
    pub reader: IndexReader,
    pub model: Model,
    pub cfg: ExecCfg,
    pub mon: Option<MonDir>,
    /// opstamps returned by operations since the last commit
    pub op_stamps: Vec<u64>,
    pub last_commit_opstamp: u64,
    pub n_commits: u64,
    pub problems: Vec<(String, Value)>,
    /// when true, errors returned by API calls are recorded as problems (fault-free runs)
    pub errors_are_violations: bool,
    pub pending_merges: Vec<tantivy::FutureResult<Option<tantivy::SegmentMeta>>>,
    /// extra sink for client events (used by the syscall twin to emit marker syscalls)
    pub marker: Option<std::sync::Arc<dyn Fn(&str, &str) + Send + Sync>>,
}

impl Exec {
    pub fn create(
        dir: Box<dyn tantivy::Directory>,
        cfg: ExecCfg,
        mon: Option<MonDir>,
    ) -> Result<Exec, String> {
        let hs = hschema();
        let index = Index::create(dir, hs.schema.clone(), index_settings(&cfg))
            .map_err(|e| format!("Index::create: {e}"))?;
        Exec::attach(index, hs, cfg, mon, Model::new())
    }

    pub fn attach(
        index: Index,
        hs: HSchema,
        cfg: ExecCfg,
        mon: Option<MonDir>,
        model: Model,
    ) -> Result<Exec, String> {
        let reader = index
            .reader_builder()
            .reload_policy(ReloadPolicy::Manual)
            .try_into()
            .map_err(|e| format!("reader: {e}"))?;
        let last_commit_opstamp = index.load_metas().map(|m| m.opstamp).unwrap_or(0);
        let mut ex = Exec {
            hs,
            index,
            writer: None,
            reader,
            model,
            cfg,
            mon,
            op_stamps: vec![],
            last_commit_opstamp,
            n_commits: 0,
            problems: vec![],
            errors_are_violations: true,
            pending_merges: vec![],
            marker: None,
        };
        ex.open_writer()?;
        Ok(ex)
    }

    fn apply_policy(w: &IndexWriter, log: bool) {
        if log {
            let mut p = LogMergePolicy::default();
            p.set_min_num_segments(2);
            p.set_min_layer_size(3);
            p.set_max_docs_before_merge(100_000);
            w.set_merge_policy(Box::new(p));
        } else {
            w.set_merge_policy(Box::new(NoMergePolicy));
        }
    }

    pub fn open_writer(&mut self) -> Result<(), String> {
        let opts = tantivy::indexer::IndexWriterOptions::builder()
            .num_worker_threads(self.cfg.threads)
            .memory_budget_per_thread(self.cfg.budget_per_thread)
            .num_merge_threads(2)
            .build();
        let w: IndexWriter = self
            .index
            .writer_with_options(opts)
            .map_err(|e| format!("writer: {e}"))?;
        Exec::apply_policy(&w, self.cfg.merge_policy);
        self.writer = Some(w);
        Ok(())
    }

    fn ev(&self, what: &str, note: &str) {
        if let Some(m) = &self.mon {
            m.client_event(what, note);
        }
        if let Some(f) = &self.marker {
            f(what, note);
        }
    }

    fn problem(&mut self, sig: impl Into<String>, detail: Value) {
        if self.problems.len() < 50 {
            self.problems.push((sig.into(), detail));
        }
    }

    fn api_err(&mut self, call: &str, e: String) -> StepOutcome {
        if self.errors_are_violations {
            self.problem(format!("api-error:{call}"), json!(e));
        }
        StepOutcome {
            ok: false,
            err: Some(format!("{call}: {e}")),
            opstamp: None,
        }
    }

    fn ok() -> StepOutcome {
        StepOutcome {
            ok: true,
            err: None,
            opstamp: None,
        }
    }

    /// checks performed on every successful commit return value
    fn on_commit_ok(&mut self, opstamp: u64, payload: Option<String>) {
        if let Some(&mx) = self.op_stamps.iter().max() {
            if opstamp <= mx {
                self.problem(
                    "opstamp:commit-not-larger-than-included-op",
                    json!({"commit_opstamp": opstamp, "max_op_opstamp": mx}),
                );
            }
        }
        self.op_stamps.clear();
        self.last_commit_opstamp = opstamp;
        self.n_commits += 1;
        self.model.commit(payload.clone());
        let w_op = self.writer.as_ref().map(|w| w.commit_opstamp());
        if w_op != Some(opstamp) {
            self.problem(
                "opstamp:writer-commit_opstamp-differs-from-last-commit",
                json!({"commit_returned": opstamp, "commit_opstamp()": w_op}),
            );
        }
        match self.index.load_metas() {
            Ok(m) => {
                if m.opstamp != opstamp {
                    self.problem(
                        "opstamp:meta-opstamp-differs-from-last-commit",
                        json!({"commit_returned": opstamp, "meta.opstamp": m.opstamp}),
                    );
                }
                if m.payload != payload {
                    self.problem(
                        "payload:meta-payload-differs",
                        json!({"expected": payload, "meta.payload": m.payload}),
                    );
                }
            }
            Err(e) => self.problem("api-error:load_metas", json!(e.to_string())),
        }
    }

    pub fn step(&mut self, op: &Op) -> StepOutcome {
        if self.writer.is_none() {
            if let Err(e) = self.open_writer() {
                return self.api_err("writer", e);
            }
        }
        let hs = self.hs.clone();
        match op {
            Op::Add(d) => {
                self.ev("call:add", &d.id.to_string());
                let r = self.writer.as_ref().unwrap().add_document(d.to_doc(&hs));
                self.ev("ret:add", if r.is_ok() { "ok" } else { "err" });
                match r {
                    Ok(s) => {
                        self.op_stamps.push(s);
                        self.model.pending.push(POp::Add(d.clone()));
                        Exec::ok()
                    }
                    Err(e) => self.api_err("add_document", e.to_string()),
                }
            }
            Op::DeleteTerm(p) => {
                self.ev("call:delete_term", p.kind());
                let s = self
                    .writer
                    .as_ref()
                    .unwrap()
                    .delete_term(p.term(&hs).expect("term pred"));
                self.ev("ret:delete_term", "ok");
                self.op_stamps.push(s);
                self.model.pending.push(POp::Delete(p.clone()));
                Exec::ok()
            }
            Op::DeleteQuery(p) => {
                self.ev("call:delete_query", p.kind());
                let r = self.writer.as_ref().unwrap().delete_query(p.query(&hs));
                self.ev("ret:delete_query", if r.is_ok() { "ok" } else { "err" });
                match r {
                    Ok(s) => {
                        self.op_stamps.push(s);
                        self.model.pending.push(POp::Delete(p.clone()));
                        Exec::ok()
                    }
                    Err(e) => self.api_err("delete_query", e.to_string()),
                }
            }
            Op::Batch(b) => {
                let uops: Vec<UserOperation> = b
                    .iter()
                    .map(|o| match o {
                        BOp::Add(d) => UserOperation::Add(d.to_doc(&hs)),
                        BOp::Delete(p) => UserOperation::Delete(p.term(&hs).expect("term pred")),
                    })
                    .collect();
                self.ev("call:run", &b.len().to_string());
                let r = self.writer.as_ref().unwrap().run(uops);
                self.ev("ret:run", if r.is_ok() { "ok" } else { "err" });
                match r {
                    Ok(s) => {
                        self.op_stamps.push(s);
                        for o in b {
                            match o {
                                BOp::Add(d) => self.model.pending.push(POp::Add(d.clone())),
                                BOp::Delete(p) => self.model.pending.push(POp::Delete(p.clone())),
                            }
                        }
                        Exec::ok()
                    }
                    Err(e) => self.api_err("run", e.to_string()),
                }
            }
            Op::DeleteAll => {
                self.ev("call:delete_all", "");
                let r = self.writer.as_ref().unwrap().delete_all_documents();
                self.ev("ret:delete_all", if r.is_ok() { "ok" } else { "err" });
                match r {
                    Ok(_) => {
                        self.model.pending.push(POp::DeleteAll);
                        Exec::ok()
                    }
                    Err(e) => self.api_err("delete_all_documents", e.to_string()),
                }
            }
            Op::Commit => {
                self.ev("call:commit", "");
                let r = self.writer.as_mut().unwrap().commit();
                self.ev("ret:commit", if r.is_ok() { "ok" } else { "err" });
                match r {
                    Ok(s) => {
                        self.on_commit_ok(s, None);
                        StepOutcome {
                            ok: true,
                            err: None,
                            opstamp: Some(s),
                        }
                    }
                    Err(e) => self.api_err("commit", e.to_string()),
                }
            }
            Op::PrepCommit { payload, abort } => {
                self.ev("call:prepare_commit", "");
                let w = self.writer.as_mut().unwrap();
                let res: Result<(bool, u64), String> = match w.prepare_commit() {
                    Err(e) => Err(format!("prepare_commit: {e}")),
                    Ok(mut pc) => {
                        if let Some(p) = payload {
                            pc.set_payload(p);
                        }
                        let pco = pc.opstamp();
                        if *abort {
                            pc.abort()
                                .map(|s| (true, s))
                                .map_err(|e| format!("abort: {e}"))
                        } else {
                            match pc.commit() {
                                Ok(s) => {
                                    if s != pco {
                                        Err(format!("prepared opstamp {pco} != committed {s}"))
                                    } else {
                                        Ok((false, s))
                                    }
                                }
                                Err(e) => Err(format!("commit: {e}")),
                            }
                        }
                    }
                };
                self.ev(
                    if *abort { "ret:abort" } else { "ret:commit" },
                    if res.is_ok() { "ok" } else { "err" },
                );
                match res {
                    Ok((true, s)) => {
                        self.model.rollback();
                        self.op_stamps.clear();
                        if s != self.last_commit_opstamp {
                            let l = self.last_commit_opstamp;
                            self.problem(
                                "opstamp:abort-returns-other-than-last-commit",
                                json!({"returned": s, "last_commit": l}),
                            );
                        }
                        Exec::ok()
                    }
                    Ok((false, s)) => {
                        self.on_commit_ok(s, payload.clone());
                        StepOutcome {
                            ok: true,
                            err: None,
                            opstamp: Some(s),
                        }
                    }
                    Err(e) => self.api_err("prepare_commit", e),
                }
            }
            Op::Rollback => {
                self.ev("call:rollback", "");
                let r = self.writer.as_mut().unwrap().rollback();
                self.ev("ret:rollback", if r.is_ok() { "ok" } else { "err" });
                match r {
                    Ok(s) => {
                        self.model.rollback();
                        self.op_stamps.clear();
                        self.pending_merges.clear();
                        if s != self.last_commit_opstamp {
                            let l = self.last_commit_opstamp;
                            self.problem(
                                "opstamp:rollback-returns-other-than-last-commit",
                                json!({"returned": s, "last_commit": l}),
                            );
                        }
                        Exec::ok()
                    }
                    Err(e) => self.api_err("rollback", e.to_string()),
                }
            }
            Op::Merge { pick, n, wait } => {
                let ids = match self.index.searchable_segment_ids() {
                    Ok(i) => i,
                    Err(e) => return self.api_err("searchable_segment_ids", e.to_string()),
                };
                if ids.len() < 2 {
                    return Exec::ok();
                }
                let mut r = Rng::new(*pick);
                let mut ids = ids;
                r.shuffle(&mut ids);
                ids.truncate((*n).min(ids.len()));
                self.ev("call:merge", &ids.len().to_string());
                let fut = self.writer.as_mut().unwrap().merge(&ids);
                if *wait {
                    let r = fut.wait();
                    self.ev("ret:merge", if r.is_ok() { "ok" } else { "err" });
                    // a merge may legitimately be refused (segments already in merge / gone)
                    match r {
                        Ok(_) => Exec::ok(),
                        Err(e) => StepOutcome {
                            ok: false,
                            err: Some(format!("merge: {e}")),
                            opstamp: None,
                        },
                    }
                } else {
                    self.pending_merges.push(fut);
                    self.ev("ret:merge", "async");
                    Exec::ok()
                }
            }
            Op::Gc => {
                self.ev("call:gc", "");
                let r = self.writer.as_ref().unwrap().garbage_collect_files().wait();
                self.ev("ret:gc", if r.is_ok() { "ok" } else { "err" });
                match r {
                    Ok(_) => Exec::ok(),
                    Err(e) => self.api_err("garbage_collect_files", e.to_string()),
                }
            }
            Op::PrepDrop => {
                self.ev("call:prepare_commit", "drop");
                let r = self.writer.as_mut().unwrap().prepare_commit().map(|pc| pc.opstamp());
                self.ev("ret:prepare_drop", if r.is_ok() { "ok" } else { "err" });
                match r {
                    Ok(s) => {
                        // the stamp drawn for the abandoned commit is larger than every earlier op
                        self.op_stamps.push(s);
                        Exec::ok()
                    }
                    Err(e) => self.api_err("prepare_commit", e.to_string()),
                }
            }
            Op::SetPolicy(log) => {
                self.cfg.merge_policy = *log;
                Exec::apply_policy(self.writer.as_ref().unwrap(), *log);
                Exec::ok()
            }
            Op::Reopen { wait_merges } => {
                self.ev("call:close_writer", if *wait_merges { "wait" } else { "drop" });
                self.pending_merges.clear();
                let w = self.writer.take().unwrap();
                let r = if *wait_merges {
                    w.wait_merging_threads().map_err(|e| e.to_string())
                } else {
                    drop(w);
                    Ok(())
                };
                self.ev("ret:close_writer", if r.is_ok() { "ok" } else { "err" });
                self.model.rollback();
                self.op_stamps.clear();
                let r2 = self.open_writer();
                match (r, r2) {
                    (Ok(()), Ok(())) => Exec::ok(),
                    (Err(e), _) => self.api_err("wait_merging_threads", e),
                    (_, Err(e)) => self.api_err("reopen-writer", e),
                }
            }
        }
    }

    /// drops whatever writer is left without any API call result being interpreted
    /// (used after injected faults): uncommitted work is gone
    pub fn abandon_writer(&mut self) {
        self.pending_merges.clear();
        self.writer = None;
        self.model.rollback();
        self.op_stamps.clear();
    }

    /// waits for async merges started by the history (results are not interpreted)
    pub fn drain_merges(&mut self) {
        for f in self.pending_merges.drain(..) {
            let _ = f.wait();
        }
    }

    /// reloads the reader and compares it with the model's committed state
    pub fn check_committed(&mut self, deep: bool) -> Vec<(String, Value)> {
        if let Err(e) = self.reader.reload() {
            return vec![("api-error:reload".to_string(), json!(e.to_string()))];
        }
        let s = self.reader.searcher();
        compare_searcher(&s, &self.hs, &self.model.committed, deep)
    }
}
