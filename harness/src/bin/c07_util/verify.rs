//! Read-back of one freshly written segment through the public reader API and comparison with
//! the model.
use std::collections::{BTreeMap, BTreeSet};

use serde_json::{json, Value};
use tantivy::fieldnorm::FieldNormReader;
use tantivy::postings::{BlockSegmentPostings, Postings, SegmentPostings, TermInfo};
use tantivy::schema::IndexRecordOption;
use tantivy::{DocSet, InvertedIndexReader, SegmentReader, Term, TERMINATED};
use tvmon::report::Report;
use tvmon::rng::Rng;

use super::model::*;

const BLOCK: usize = 128;
const ALL_OPTS: [IndexRecordOption; 3] = [
    IndexRecordOption::Basic,
    IndexRecordOption::WithFreqs,
    IndexRecordOption::WithFreqsAndPositions,
];

fn rank(o: IndexRecordOption) -> u8 {
    match o {
        IndexRecordOption::Basic => 0,
        IndexRecordOption::WithFreqs => 1,
        IndexRecordOption::WithFreqsAndPositions => 2,
    }
}
fn min_opt(a: IndexRecordOption, b: IndexRecordOption) -> IndexRecordOption {
    if rank(a) <= rank(b) {
        a
    } else {
        b
    }
}
fn bits(x: u32) -> u32 {
    32 - x.leading_zeros()
}

pub fn show(key: &[u8]) -> String {
    let mut s = format!("len={} ", key.len());
    for &b in key.iter().take(40) {
        if b.is_ascii_graphic() {
            s.push(b as char);
        } else {
            s.push_str(&format!("\\x{b:02x}"));
        }
    }
    if key.len() > 40 {
        s.push_str("..");
        for &b in &key[key.len() - 6..] {
            s.push_str(&format!("\\x{b:02x}"));
        }
    }
    s
}

pub fn df_class(df: usize) -> String {
    match df {
        1 | 2 | 126 | 127 | 128 | 129 | 130 | 255 | 256 | 257 | 383 | 384 | 385 => df.to_string(),
        _ if df >= 20_000 && df % BLOCK == 0 => "20000+,k*128".into(),
        _ if df >= 20_000 => "20000+".into(),
        _ if df % BLOCK == 0 => "k*128".into(),
        _ if df % BLOCK == 1 && df > BLOCK => "k*128+1".into(),
        _ if df % BLOCK == BLOCK - 1 && df > BLOCK => "k*128-1".into(),
        _ if df < BLOCK => "other<128".into(),
        _ if df < 2048 => "other<2048".into(),
        _ => "other>=2048".into(),
    }
}

fn len_class(n: usize) -> &'static str {
    match n {
        0 => "0",
        1..=39 => "1..39",
        40..=255 => "40..255",
        256..=4095 => "256..4095",
        4096..=32767 => "4096..32767",
        32768..=65525 => "32768..65525",
        65526..=65530 => "65526..65530",
        _ => ">65530",
    }
}

struct Cx<'a> {
    rep: &'a mut Report,
    plan: &'a str,
    ndocs: u32,
    field: String,
    /// when set, violations are listed at most that many times per signature and process
    cap: Option<usize>,
}

/// per-process cap for signatures of an already characterised defect class, so that they cannot
/// crowd other violations out of the (bounded) violation list
fn under_cap(sig: &str, cap: usize) -> bool {
    static SEEN: std::sync::Mutex<BTreeMap<String, usize>> = std::sync::Mutex::new(BTreeMap::new());
    let mut g = SEEN.lock().unwrap_or_else(|e| e.into_inner());
    let n = g.entry(sig.to_string()).or_insert(0);
    *n += 1;
    *n <= cap
}

impl Cx<'_> {
    fn viol(&mut self, sig: &str, tag: &str, detail: Value) {
        if let Some(cap) = self.cap {
            if !under_cap(&format!("{sig}[{tag}]"), cap) {
                self.rep.count(&format!("not-listed-again:{sig}"), 1);
                return;
            }
        }
        self.rep.violation(
            format!("{sig}[{tag}]"),
            json!({"plan": self.plan, "ndocs": self.ndocs, "field": self.field, "detail": detail}),
        );
    }
}

/// what to verify beyond the dictionary (cost control for big vocabularies)
pub struct Effort {
    pub max_terms_full: usize,
    pub seeks_per_term: usize,
}

pub struct SegStats {
    pub fields: u64,
    pub max_df: usize,
    pub shapes: Vec<(bool, String)>,
}

/// returns None when the commit produced != 1 segment (memory cut) - the case is skipped
pub fn verify_segment(
    rep: &mut Report,
    rng: &mut Rng,
    built: &Built,
    plan: &str,
    planted: &[(usize, Vec<u8>)],
    effort: &Effort,
) -> Option<SegStats> {
    let reader = match built.index.reader() {
        Ok(r) => r,
        Err(e) => {
            rep.violation("api-error:reader", json!({"plan": plan, "err": e.to_string()}));
            return None;
        }
    };
    let searcher = reader.searcher();
    let segs = searcher.segment_readers();
    if segs.len() != 1 {
        rep.count("skipped_not_exactly_one_segment", 1);
        return None;
    }
    let seg = &segs[0];
    if seg.max_doc() != built.ndocs {
        rep.violation(
            "segment:max_doc",
            json!({"plan": plan, "got": seg.max_doc(), "expected": built.ndocs}),
        );
        return None;
    }
    let mut stats = SegStats { fields: 0, max_df: 0, shapes: vec![] };
    for (fi, spec) in built.specs.iter().enumerate() {
        let model = &built.models[fi];
        let planted_keys: BTreeSet<&[u8]> = planted
            .iter()
            .filter(|(f, _)| *f == fi)
            .map(|(_, k)| k.as_slice())
            .collect();
        let mut cx = Cx { rep, plan, ndocs: built.ndocs, field: spec.proto.describe(), cap: None };
        let (nontrivial, shape, max_df) =
            check_field(&mut cx, rng, seg, spec, model, &planted_keys, effort);
        stats.fields += 1;
        stats.max_df = stats.max_df.max(max_df);
        stats.shapes.push((nontrivial, shape));
    }
    Some(stats)
}

fn check_field(
    cx: &mut Cx,
    rng: &mut Rng,
    seg: &SegmentReader,
    spec: &FieldSpec,
    model: &FieldModel,
    planted: &BTreeSet<&[u8]>,
    effort: &Effort,
) -> (bool, String, usize) {
    let kind = spec.proto.kind.name();
    let p = &spec.proto;
    cx.rep.observe("field_kind", kind);
    cx.rep.observe("indexed_record_option", format!("{kind}:{}", opt_name(p.opt)));
    if matches!(p.kind, Kind::Text | Kind::Json) {
        cx.rep.observe("tokenizer", format!("{kind}:{}", p.tok.name()));
    }
    cx.rep.observe("fieldnorms", format!("{kind}:{}", if p.norms { "on" } else { "off" }));
    let max_df = model.terms.values().map(|t| t.docs.len()).max().unwrap_or(0);
    let max_tf = model
        .terms
        .values()
        .flat_map(|t| t.tfs.iter().copied())
        .max()
        .unwrap_or(0);
    let nterms = model.terms.len();
    let shape = format!(
        "{}|df:{}|tf:{}|terms:{}|docs:{}",
        p.describe(),
        df_class(max_df),
        if max_tf >= 128 { "128+" } else if max_tf > 1 { "2+" } else { "1" },
        bits(nterms as u32),
        bits(cx.ndocs)
    );
    let nontrivial =
        max_df >= BLOCK || (p.opt == IndexRecordOption::WithFreqsAndPositions && nterms > 0);
    let bad = (false, shape.clone(), max_df);

    // ---- field norms
    check_fieldnorms(cx, seg, spec, model);

    // ---- dictionary
    let inv = match seg.inverted_index(spec.field) {
        Ok(i) => i,
        Err(e) => {
            cx.viol("api-error:inverted_index", kind, json!(e.to_string()));
            return bad;
        }
    };
    let dict = inv.terms();
    if dict.num_terms() != nterms {
        cx.viol(
            "termdict:num_terms",
            kind,
            json!({"got": dict.num_terms(), "expected": nterms}),
        );
    }
    if inv.total_num_tokens() != model.total_tokens {
        cx.viol(
            "total_num_tokens",
            kind,
            json!({"got": inv.total_num_tokens(), "expected": model.total_tokens}),
        );
    }
    let mut infos: Vec<TermInfo> = Vec::with_capacity(nterms);
    {
        let mut stream = match dict.stream() {
            Ok(s) => s,
            Err(e) => {
                cx.viol("api-error:terms.stream", kind, json!(e.to_string()));
                return bad;
            }
        };
        let mut it = model.terms.iter();
        let mut idx = 0usize;
        loop {
            match (stream.next(), it.next()) {
                (None, None) => break,
                (Some((k, ti)), Some((mk, tp))) => {
                    if k != mk.as_slice() {
                        let sig = if k < mk.as_slice() {
                            "termdict:unexpected-term"
                        } else {
                            "termdict:missing-term"
                        };
                        cx.viol(
                            sig,
                            kind,
                            json!({"index": idx, "got": show(k), "expected": show(mk), "model_terms": nterms, "dict_terms": dict.num_terms()}),
                        );
                        return bad;
                    }
                    if ti.doc_freq as usize != tp.docs.len() {
                        cx.viol(
                            "terminfo:doc_freq",
                            kind,
                            json!({"term": show(k), "got": ti.doc_freq, "expected": tp.docs.len()}),
                        );
                        return bad;
                    }
                    infos.push(ti.clone());
                }
                (Some((k, _)), None) => {
                    cx.viol(
                        "termdict:unexpected-term",
                        kind,
                        json!({"index": idx, "got": show(k), "expected": "end of dictionary"}),
                    );
                    return bad;
                }
                (None, Some((mk, _))) => {
                    cx.viol(
                        "termdict:missing-term",
                        kind,
                        json!({"index": idx, "got": "end of dictionary", "expected": show(mk)}),
                    );
                    return bad;
                }
            }
            idx += 1;
        }
    }
    cx.rep.count("terms_compared_in_dictionary", nterms as u64);

    // ---- which terms get the full postings treatment
    let selected: Vec<bool> = if nterms <= effort.max_terms_full {
        vec![true; nterms]
    } else {
        let mut sel = vec![false; nterms];
        for _ in 0..effort.max_terms_full {
            sel[rng.usize_below(nterms)] = true;
        }
        // always the heaviest lists and the planted ones
        let mut by_df: Vec<(usize, usize)> = model
            .terms
            .values()
            .enumerate()
            .map(|(i, t)| (t.docs.len(), i))
            .collect();
        by_df.sort_unstable_by(|a, b| b.cmp(a));
        for &(_, i) in by_df.iter().take(24) {
            sel[i] = true;
        }
        for (i, k) in model.terms.keys().enumerate() {
            if planted.contains(k.as_slice()) {
                sel[i] = true;
            }
        }
        sel
    };

    let mut reuse = Reuse::default();
    for (i, (key, tp)) in model.terms.iter().enumerate() {
        if !selected[i] {
            continue;
        }
        check_term(cx, rng, &inv, spec, key, tp, &infos[i], &mut reuse, effort);
    }
    (nontrivial, shape, max_df)
}

fn check_fieldnorms(cx: &mut Cx, seg: &SegmentReader, spec: &FieldSpec, model: &FieldModel) {
    let kind = spec.proto.kind.name();
    match seg.get_fieldnorms_reader(spec.field) {
        Ok(r) => {
            if !spec.proto.norms {
                // fieldnorms off: a reader may not exist; if one exists nothing is demanded of it
                cx.rep.count("fieldnorm_reader_present_although_off", 1);
                return;
            }
            if r.num_docs() != cx.ndocs {
                cx.viol(
                    "fieldnorm:num_docs",
                    kind,
                    json!({"got": r.num_docs(), "expected": cx.ndocs}),
                );
                return;
            }
            for (doc, &len) in model.norms.iter().enumerate() {
                let want = FieldNormReader::fieldnorm_to_id(len);
                let got = r.fieldnorm_id(doc as u32);
                if got != want {
                    cx.viol(
                        "fieldnorm:id",
                        kind,
                        json!({"doc": doc, "tokens": len, "got_id": got, "expected_id": want}),
                    );
                    return;
                }
                let fv = r.fieldnorm(doc as u32);
                if fv != FieldNormReader::id_to_fieldnorm(want) || fv > len {
                    cx.viol(
                        "fieldnorm:value",
                        kind,
                        json!({"doc": doc, "tokens": len, "got": fv}),
                    );
                    return;
                }
            }
            cx.rep.count("fieldnorms_compared", model.norms.len() as u64);
            let mx = model.norms.iter().copied().max().unwrap_or(0);
            cx.rep.observe(
                "fieldnorm_max_len_class",
                if mx > 40 { "lossy>40" } else if mx > 0 { "exact<=40" } else { "all-zero" },
            );
        }
        Err(e) => {
            if spec.proto.norms {
                cx.viol("api-error:get_fieldnorms_reader", kind, json!(e.to_string()));
            }
        }
    }
}

fn term_tag(spec: &FieldSpec, tp: &TermPost) -> &'static str {
    match spec.proto.kind {
        Kind::Json => {
            if tp.bears_tf {
                "json-str"
            } else {
                "json-typed"
            }
        }
        k => k.name(),
    }
}

#[allow(clippy::too_many_arguments)]
fn check_term(
    cx: &mut Cx,
    rng: &mut Rng,
    inv: &InvertedIndexReader,
    spec: &FieldSpec,
    key: &[u8],
    tp: &TermPost,
    streamed: &TermInfo,
    reuse: &mut Reuse,
    effort: &Effort,
) {
    let tag = term_tag(spec, tp);
    let df = tp.docs.len();
    observe_term(cx, spec, key, tp);
    let mut term = make_term(spec, key, tp);
    if term.serialized_value_bytes() != key {
        cx.viol(
            "term-constructor:bytes-differ-from-dictionary-key",
            tag,
            json!({"constructed": show(term.serialized_value_bytes()), "dictionary": show(key)}),
        );
        term = Term::from_field_bytes(spec.field, key);
    }
    let ti = match inv.get_term_info(&term) {
        Ok(Some(ti)) => ti,
        Ok(None) => {
            cx.viol("get_term_info:none-for-indexed-term", tag, json!({"term": show(key)}));
            return;
        }
        Err(e) => {
            cx.viol("api-error:get_term_info", tag, json!(e.to_string()));
            return;
        }
    };
    if &ti != streamed {
        cx.viol(
            "get_term_info:differs-from-stream",
            tag,
            json!({"term": show(key), "get": format!("{ti:?}"), "stream": format!("{streamed:?}")}),
        );
    }
    match inv.doc_freq(&term) {
        Ok(d) if d as usize == df => {}
        Ok(d) => cx.viol("doc_freq", tag, json!({"term": show(key), "got": d, "expected": df})),
        Err(e) => cx.viol("api-error:doc_freq", tag, json!(e.to_string())),
    }
    // requested options: all three for short lists, the full one + a random one otherwise
    let reqs: Vec<IndexRecordOption> = if df <= 4096 {
        ALL_OPTS.to_vec()
    } else {
        vec![IndexRecordOption::WithFreqsAndPositions, ALL_OPTS[rng.usize_below(2)]]
    };
    for req in reqs {
        let eff = min_opt(req, spec.proto.opt);
        cx.rep.observe(
            "requested_vs_indexed",
            format!("{}/{}", opt_name(req), opt_name(spec.proto.opt)),
        );
        scan_postings(cx, rng, inv, &term, key, tp, req, eff, tag);
        seek_postings(cx, rng, inv, &term, key, tp, req, eff, tag, effort);
        block_postings(cx, rng, inv, &term, key, tp, req, eff, tag);
    }
    // the reusable block cursor, reset from term to term (documented use of
    // reset_block_postings_from_terminfo); one cursor per term kind. In JSON fields recording
    // frequencies typed terms are encoded without frequencies, which the cursor only finds out
    // when it is opened (not when it is reset): every reset that involves such a term is checked
    // under its own signature, with panics caught here.
    let full = spec.proto.opt;
    let tf_real = full.has_freq() && tp.bears_tf;
    let json_freq = spec.proto.kind == Kind::Json && full.has_freq();
    let k = tp.bears_tf as usize;
    if !(json_freq && !tp.bears_tf) {
        match &mut reuse.same[k] {
            None => match inv.read_block_postings_from_terminfo(&ti, full) {
                Ok(bp) => reuse.same[k] = Some(bp),
                Err(e) => cx.viol("api-error:read_block_postings_from_terminfo", tag, json!(e.to_string())),
            },
            Some(bp) => match inv.reset_block_postings_from_terminfo(&ti, bp) {
                Ok(()) => {
                    block_scan(cx, bp, key, tp, tf_real, "block-reset", tag);
                    cx.rep.count("block_cursor_resets", 1);
                    cx.rep.observe("read_pattern", "block-reset");
                }
                Err(e) => cx.viol("api-error:reset_block_postings_from_terminfo", tag, json!(e.to_string())),
            },
        }
    }
    if json_freq && !reuse.mixed_dead {
        match &mut reuse.mixed {
            None => {
                if let Ok(bp) = inv.read_block_postings_from_terminfo(&ti, full) {
                    reuse.mixed = Some((bp, !tp.bears_tf));
                }
            }
            Some((bp, seen_typed)) => {
                if !tp.bears_tf {
                    *seen_typed = true;
                }
                if *seen_typed {
                    const SIG: &str = "block-reset-json-freq-field-typed-terms";
                    cx.cap = Some(4);
                    let mut ok = true;
                    let r = tvmon::report::guarded(|| {
                        match inv.reset_block_postings_from_terminfo(&ti, bp) {
                            Ok(()) => {
                                ok = block_scan(cx, bp, key, tp, tf_real, SIG, tag);
                            }
                            Err(e) => cx.viol(&format!("{SIG}:api-error"), tag, json!(e.to_string())),
                        }
                    });
                    cx.rep.count("block_cursor_resets_involving_typed_json_terms", 1);
                    if let Err(p) = r {
                        if p.in_harness() {
                            cx.rep.harness_error(format!("panic in harness at {}: {}", p.location, p.message));
                        } else {
                            cx.viol(
                                &format!("{SIG}:panic"),
                                tag,
                                json!({"term": show(key), "df": df, "panic_location": p.location, "panic_message": p.message}),
                            );
                        }
                        ok = false;
                    }
                    cx.cap = None;
                    if !ok {
                        // one report per field is enough; the cursor may be in any state now
                        reuse.mixed = None;
                        reuse.mixed_dead = true;
                    }
                } else if inv.reset_block_postings_from_terminfo(&ti, bp).is_err() {
                    reuse.mixed = None;
                }
            }
        }
    }
}

#[derive(Default)]
struct Reuse {
    same: [Option<BlockSegmentPostings>; 2],
    /// (cursor, has been opened on / reset onto a typed term)
    mixed: Option<(BlockSegmentPostings, bool)>,
    mixed_dead: bool,
}

fn observe_term(cx: &mut Cx, spec: &FieldSpec, key: &[u8], tp: &TermPost) {
    let kind = spec.proto.kind.name();
    let df = tp.docs.len();
    cx.rep.observe("df_class", df_class(df));
    cx.rep.observe("term_len_class", format!("{kind}:{}", len_class(key.len())));
    cx.rep.count("terms_read_back", 1);
    cx.rep.count("postings_in_terms_read_back", df as u64);
    // doc-id bit widths of the full blocks
    let nblocks = df / BLOCK;
    let mut prev: Option<u32> = None;
    for b in 0..nblocks {
        let mut mx = 0u32;
        let mut mxtf = 0u32;
        for i in b * BLOCK..(b + 1) * BLOCK {
            let d = tp.docs[i];
            let delta = match prev {
                Some(p) => d - p - 1,
                None => d,
            };
            mx = mx.max(delta);
            mxtf = mxtf.max(tp.tfs[i] - 1);
            prev = Some(d);
        }
        cx.rep.observe("doc_delta_bits_of_full_block", format!("{:02}", bits(mx)));
        if tp.bears_tf && spec.proto.opt.has_freq() {
            cx.rep.observe("tf_bits_of_full_block", format!("{:02}", bits(mxtf)));
        }
    }
    if df % BLOCK != 0 {
        cx.rep.observe("last_block", if nblocks == 0 { "vint-only" } else { "bitpacked+vint" });
    } else {
        cx.rep.observe("last_block", "bitpacked-only");
    }
    let mxtf = tp.tfs.iter().copied().max().unwrap_or(0);
    if tp.bears_tf {
        cx.rep.observe(
            "max_tf_class",
            match mxtf {
                0..=1 => "1".to_string(),
                2..=126 => "2..126".to_string(),
                127..=129 | 255..=257 => mxtf.to_string(),
                130..=254 => "130..254".to_string(),
                _ => "258+".to_string(),
            },
        );
    }
    if !tp.pos.is_empty() {
        // position-delta bit widths per block of 128 deltas
        let mut cnt = 0usize;
        let mut mx = 0u32;
        for i in 0..df {
            let mut prevp = 0u32;
            for &p in tp.positions(i) {
                mx = mx.max(p - prevp);
                prevp = p;
                cnt += 1;
                if cnt % BLOCK == 0 {
                    cx.rep.observe("position_delta_bits_of_full_block", format!("{:02}", bits(mx)));
                    mx = 0;
                }
            }
        }
        cx.rep.observe(
            "positions_per_term_class",
            match cnt {
                0..=126 => "<127".to_string(),
                127..=129 | 255..=257 => cnt.to_string(),
                _ if cnt % BLOCK == 0 => "k*128".to_string(),
                _ => ">129".to_string(),
            },
        );
        cx.rep.count("positions_in_terms_read_back", cnt as u64);
    }
}

#[derive(PartialEq, Clone, Copy)]
enum PosMode {
    Compare,
    ExpectEmpty,
    DontCall,
}

fn pos_mode(req: IndexRecordOption, eff: IndexRecordOption, tp: &TermPost) -> PosMode {
    if eff.has_positions() {
        if tp.bears_tf {
            PosMode::Compare
        } else {
            // JSON non-text term in a field with positions: no positions were recorded and
            // tantivy's own merger avoids calling positions() on them
            PosMode::DontCall
        }
    } else if req.has_positions() {
        PosMode::ExpectEmpty
    } else {
        PosMode::DontCall
    }
}

/// checks tf and positions of the current document of `p` (model index `i`); false = mismatch
#[allow(clippy::too_many_arguments)]
fn check_current(
    cx: &mut Cx,
    rng: &mut Rng,
    p: &mut SegmentPostings,
    key: &[u8],
    tp: &TermPost,
    i: usize,
    req: IndexRecordOption,
    eff: IndexRecordOption,
    pm: PosMode,
    buf: &mut Vec<u32>,
    mode: &str,
    tag: &str,
) -> bool {
    if req.has_freq() {
        let want = if eff.has_freq() && tp.bears_tf { tp.tfs[i] } else { 1 };
        let got = p.term_freq();
        if got != want {
            cx.viol(
                &format!("postings:{mode}:term_freq"),
                tag,
                json!({"term": show(key), "doc": tp.docs[i], "index": i, "df": tp.docs.len(), "got": got, "expected": want,
                       "requested": opt_name(req), "effective": opt_name(eff)}),
            );
            return false;
        }
    }
    match pm {
        PosMode::DontCall => {}
        PosMode::ExpectEmpty => {
            buf.clear();
            buf.push(42);
            p.positions(buf);
            if !buf.is_empty() {
                cx.viol(
                    &format!("postings:{mode}:positions-not-empty-although-not-indexed"),
                    tag,
                    json!({"term": show(key), "doc": tp.docs[i], "got": &buf[..buf.len().min(8)]}),
                );
                return false;
            }
        }
        PosMode::Compare => {
            // sometimes skip the read so that the position reader has to jump
            if rng.chance(1, 5) {
                return true;
            }
            let want = tp.positions(i);
            let (off, skip) = match rng.below(3) {
                0 => {
                    buf.push(7);
                    p.positions(buf);
                    (0u32, 0usize)
                }
                1 => {
                    let off = rng.below(5000) as u32;
                    buf.push(9);
                    p.positions_with_offset(off, buf);
                    (off, 0)
                }
                _ => {
                    let off = rng.below(5000) as u32;
                    buf.clear();
                    buf.extend_from_slice(&[11, 22]);
                    p.append_positions_with_offset(off, buf);
                    if buf.len() < 2 || buf[..2] != [11, 22] {
                        cx.viol(
                            &format!("postings:{mode}:append_positions-clobbered-prefix"),
                            tag,
                            json!({"term": show(key), "doc": tp.docs[i]}),
                        );
                        return false;
                    }
                    (off, 2)
                }
            };
            let got = &buf[skip..];
            let ok = got.len() == want.len()
                && got.iter().zip(want.iter()).all(|(g, w)| *g == *w + off);
            if !ok {
                let first_diff = got
                    .iter()
                    .zip(want.iter())
                    .position(|(g, w)| *g != *w + off)
                    .unwrap_or(got.len().min(want.len()));
                cx.viol(
                    &format!("postings:{mode}:positions"),
                    tag,
                    json!({"term": show(key), "doc": tp.docs[i], "index": i, "df": tp.docs.len(), "tf": tp.tfs[i],
                           "offset": off, "got_len": got.len(), "expected_len": want.len(), "first_diff_at": first_diff,
                           "got": got.iter().skip(first_diff.saturating_sub(2)).take(6).collect::<Vec<_>>(),
                           "expected": want.iter().skip(first_diff.saturating_sub(2)).take(6).collect::<Vec<_>>(),
                           "positions_before_this_doc": tp.pos_start[i]}),
                );
                return false;
            }
            cx.rep.count("position_lists_compared", 1);
        }
    }
    true
}

fn open_postings(
    cx: &mut Cx,
    inv: &InvertedIndexReader,
    term: &Term,
    key: &[u8],
    req: IndexRecordOption,
    tag: &str,
) -> Option<SegmentPostings> {
    match inv.read_postings(term, req) {
        Ok(Some(p)) => Some(p),
        Ok(None) => {
            cx.viol("read_postings:none-for-indexed-term", tag, json!({"term": show(key)}));
            None
        }
        Err(e) => {
            cx.viol("api-error:read_postings", tag, json!(e.to_string()));
            None
        }
    }
}

#[allow(clippy::too_many_arguments)]
fn scan_postings(
    cx: &mut Cx,
    rng: &mut Rng,
    inv: &InvertedIndexReader,
    term: &Term,
    key: &[u8],
    tp: &TermPost,
    req: IndexRecordOption,
    eff: IndexRecordOption,
    tag: &str,
) {
    let Some(mut p) = open_postings(cx, inv, term, key, req, tag) else { return };
    let df = tp.docs.len();
    if p.doc_freq() as usize != df {
        cx.viol("postings:doc_freq", tag, json!({"term": show(key), "got": p.doc_freq(), "expected": df}));
        return;
    }
    let pm = pos_mode(req, eff, tp);
    let mut buf = vec![];
    let mut d = p.doc();
    for i in 0..=df {
        let want = if i < df { tp.docs[i] } else { TERMINATED };
        if d != want {
            cx.viol(
                "postings:scan:doc",
                tag,
                json!({"term": show(key), "index": i, "df": df, "got": d, "expected": want, "requested": opt_name(req)}),
            );
            return;
        }
        if i == df {
            break;
        }
        if !check_current(cx, rng, &mut p, key, tp, i, req, eff, pm, &mut buf, "scan", tag) {
            return;
        }
        d = p.advance();
        if d != p.doc() {
            cx.viol("postings:scan:advance-result-differs-from-doc", tag, json!({"term": show(key), "index": i}));
            return;
        }
    }
    if p.advance() != TERMINATED || p.doc() != TERMINATED {
        cx.viol("postings:scan:advance-after-end", tag, json!({"term": show(key), "df": df}));
    }
    cx.rep.count("postings_scanned", df as u64);
    cx.rep.observe("read_pattern", "scan");
}

fn seek_targets(rng: &mut Rng, docs: &[u32], max_doc: u32, k: usize) -> Vec<u32> {
    let n = docs.len();
    let mut idxs: Vec<usize> = vec![0, n - 1, n / 2];
    for b in [126usize, 127, 128, 129, 255, 256, 257] {
        if b < n {
            idxs.push(b);
        }
    }
    let lbs = (n / BLOCK) * BLOCK;
    if lbs < n {
        idxs.push(lbs);
    }
    if lbs > 0 {
        idxs.push(lbs - 1);
    }
    for _ in 0..k {
        idxs.push(rng.usize_below(n));
    }
    let mut t: Vec<u32> = vec![];
    for i in idxs {
        let d = docs[i];
        t.push(d);
        if d > 0 {
            t.push(d - 1);
        }
        t.push(d + 1);
    }
    t.push(docs[n - 1] + 1);
    t.push(max_doc);
    t.push(max_doc + 1000);
    for _ in 0..k / 2 {
        t.push(rng.below(max_doc as u64 + 2) as u32);
    }
    t.sort_unstable();
    t.dedup();
    // thin out randomly so that jump lengths vary
    let keep = rng.range(2, 4);
    let mut out: Vec<u32> = t.into_iter().filter(|_| rng.chance(keep, 4)).collect();
    if rng.bool() {
        out.push(TERMINATED);
    }
    out
}

#[allow(clippy::too_many_arguments)]
fn seek_postings(
    cx: &mut Cx,
    rng: &mut Rng,
    inv: &InvertedIndexReader,
    term: &Term,
    key: &[u8],
    tp: &TermPost,
    req: IndexRecordOption,
    eff: IndexRecordOption,
    tag: &str,
    effort: &Effort,
) {
    let Some(mut p) = open_postings(cx, inv, term, key, req, tag) else { return };
    let df = tp.docs.len();
    let pm = pos_mode(req, eff, tp);
    let targets = seek_targets(rng, &tp.docs, cx.ndocs, effort.seeks_per_term);
    let mut buf = vec![];
    let mut i = 0usize; // model cursor
    let mut history: Vec<String> = vec![];
    for t in targets {
        // a few plain advances in between
        let adv = if rng.chance(1, 3) { rng.below(4) } else { 0 };
        for _ in 0..adv {
            let d = p.advance();
            if i < df {
                i += 1;
            }
            let want = if i < df { tp.docs[i] } else { TERMINATED };
            history.push("advance".into());
            if d != want {
                cx.viol(
                    "postings:seek:advance-doc",
                    tag,
                    json!({"term": show(key), "df": df, "index": i, "got": d, "expected": want, "calls": tail(&history)}),
                );
                return;
            }
        }
        let cur = if i < df { tp.docs[i] } else { TERMINATED };
        if t < cur {
            continue; // precondition of seek: target >= current doc
        }
        let d = p.seek(t);
        while i < df && tp.docs[i] < t {
            i += 1;
        }
        let want = if i < df { tp.docs[i] } else { TERMINATED };
        history.push(format!("seek({t})"));
        if d != want || p.doc() != want {
            cx.viol(
                "postings:seek:doc",
                tag,
                json!({"term": show(key), "df": df, "index": i, "target": t, "returned": d, "doc()": p.doc(), "expected": want,
                       "requested": opt_name(req), "calls": tail(&history)}),
            );
            return;
        }
        cx.rep.observe(
            "seek_landing",
            if i >= df {
                "beyond-end"
            } else if tp.docs[i] == t {
                "exact"
            } else {
                "between"
            },
        );
        if i < df {
            if i >= (df / BLOCK) * BLOCK {
                cx.rep.observe("seek_landing", "in-last-block");
            }
            if !check_current(cx, rng, &mut p, key, tp, i, req, eff, pm, &mut buf, "seek", tag) {
                return;
            }
        }
        cx.rep.count("seeks", 1);
    }
    cx.rep.observe("read_pattern", "seek+advance");
}

fn tail(h: &[String]) -> Vec<String> {
    h.iter().skip(h.len().saturating_sub(8)).cloned().collect()
}

/// full scan of a block cursor positioned on its first block
fn block_scan(
    cx: &mut Cx,
    bp: &mut BlockSegmentPostings,
    key: &[u8],
    tp: &TermPost,
    check_freqs: bool,
    mode: &str,
    tag: &str,
) -> bool {
    let df = tp.docs.len();
    if bp.doc_freq() as usize != df {
        cx.viol(&format!("{mode}:doc_freq"), tag, json!({"term": show(key), "got": bp.doc_freq(), "expected": df}));
        return false;
    }
    let mut off = 0usize;
    loop {
        let want_len = (df - off).min(BLOCK);
        let docs = bp.docs();
        if docs != &tp.docs[off..off + want_len] {
            let at = docs
                .iter()
                .zip(tp.docs[off..off + want_len].iter())
                .position(|(a, b)| a != b)
                .unwrap_or(docs.len().min(want_len));
            cx.viol(
                &format!("{mode}:docs"),
                tag,
                json!({"term": show(key), "df": df, "block_start": off, "got_len": docs.len(), "expected_len": want_len,
                       "first_diff_at": at, "got": docs.iter().skip(at).take(4).collect::<Vec<_>>(),
                       "expected": tp.docs[off..off + want_len].iter().skip(at).take(4).collect::<Vec<_>>()}),
            );
            return false;
        }
        if want_len == 0 {
            break;
        }
        if bp.block_len() != want_len {
            cx.viol(&format!("{mode}:block_len"), tag, json!({"term": show(key), "got": bp.block_len(), "expected": want_len}));
            return false;
        }
        if check_freqs {
            let freqs = bp.freqs();
            if freqs != &tp.tfs[off..off + want_len] {
                cx.viol(
                    &format!("{mode}:freqs"),
                    tag,
                    json!({"term": show(key), "df": df, "block_start": off, "got": freqs.iter().take(6).collect::<Vec<_>>(),
                           "got_len": freqs.len(), "expected": tp.tfs[off..off + want_len].iter().take(6).collect::<Vec<_>>()}),
                );
                return false;
            }
        }
        off += want_len;
        bp.advance();
    }
    true
}

#[allow(clippy::too_many_arguments)]
fn block_postings(
    cx: &mut Cx,
    rng: &mut Rng,
    inv: &InvertedIndexReader,
    term: &Term,
    key: &[u8],
    tp: &TermPost,
    req: IndexRecordOption,
    eff: IndexRecordOption,
    tag: &str,
) {
    let df = tp.docs.len();
    let open = |cx: &mut Cx| -> Option<BlockSegmentPostings> {
        match inv.read_block_postings(term, req) {
            Ok(Some(b)) => Some(b),
            Ok(None) => {
                cx.viol("read_block_postings:none-for-indexed-term", tag, json!({"term": show(key)}));
                None
            }
            Err(e) => {
                cx.viol("api-error:read_block_postings", tag, json!(e.to_string()));
                None
            }
        }
    };
    let Some(mut bp) = open(cx) else { return };
    let check_freqs = req.has_freq() && eff.has_freq() && tp.bears_tf;
    if !block_scan(cx, &mut bp, key, tp, check_freqs, "block:scan", tag) {
        return;
    }
    cx.rep.observe("read_pattern", "block-scan");
    // block seek + rank on fresh cursors, non-decreasing targets
    let targets = seek_targets(rng, &tp.docs, cx.ndocs, 6);
    let Some(mut bs) = open(cx) else { return };
    let Some(mut br) = open(cx) else { return };
    for t in targets {
        let first_ge = tp.docs.partition_point(|&d| d < t);
        let want = if first_ge < df { tp.docs[first_ge] } else { TERMINATED };
        let idx = bs.seek(t);
        let got = if idx < BLOCK { bs.doc(idx) } else { u32::MAX };
        if got != want {
            cx.viol(
                "block:seek",
                tag,
                json!({"term": show(key), "df": df, "target": t, "in_block_index": idx, "got": got, "expected": want}),
            );
            return;
        }
        if first_ge < df {
            // the loaded block must be the one containing the landing document
            let bstart = (first_ge / BLOCK) * BLOCK;
            let bend = (bstart + BLOCK).min(df);
            if bs.docs() != &tp.docs[bstart..bend] || idx != first_ge - bstart {
                cx.viol(
                    "block:seek:loaded-block",
                    tag,
                    json!({"term": show(key), "df": df, "target": t, "in_block_index": idx, "expected_index": first_ge - bstart}),
                );
                return;
            }
            if check_freqs && bs.freqs() != &tp.tfs[bstart..bend] {
                cx.viol("block:seek:freqs", tag, json!({"term": show(key), "df": df, "target": t}));
                return;
            }
        }
        let r = br.rank(t);
        if r as usize != first_ge {
            cx.viol(
                "block:rank",
                tag,
                json!({"term": show(key), "df": df, "target": t, "got": r, "expected": first_ge}),
            );
            return;
        }
    }
    cx.rep.observe("read_pattern", "block-seek+rank");
}
