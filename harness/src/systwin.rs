//! Real-filesystem twin of the crash enumeration (E6): a child process runs a history on a real
//! `MmapDirectory` under `strace -f -y`; the syscall trace (create, write, fdatasync, rename,
//! unlink, directory fdatasync) is replayed through the same durability model as MonDir's and
//! crash images are materialised in real directories and recovered with `Index::open_in_dir`.
//! This is where "terminate forgot sync_data", "sync_directory is a no-op" or "atomic_write
//! renames before syncing the temp file" become visible.

use std::collections::{BTreeMap, HashMap};
use std::io;
use std::path::{Path, PathBuf};
use std::sync::{Arc, Mutex};

use serde_json::{json, Value};
use tantivy::directory::error::{DeleteError, LockError, OpenReadError, OpenWriteError};
use tantivy::directory::{
    Directory, DirectoryLock, FileHandle, Lock, MmapDirectory, WatchCallback, WatchHandle, WritePtr,
};

use crate::rng::Rng;

pub const MARKER_ROOT: &str = "/verif-marker";

/// emits a marker syscall (a failing stat on a recognisable path) that shows up in the trace
pub fn marker(what: &str, note: &str) {
    let _ = std::fs::metadata(format!("{MARKER_ROOT}/{what}/{note}"));
}

#[derive(Default)]
pub struct TeeLog {
    pub graveyard: BTreeMap<String, Vec<u8>>,
    pub atomics: Vec<(String, Vec<u8>)>,
}

/// Delegates to MmapDirectory; keeps the content of deleted files and every atomic payload so
/// that the parent can reconstruct file contents at any point of the trace.
#[derive(Clone)]
pub struct TeeDir {
    pub inner: MmapDirectory,
    pub root: PathBuf,
    pub log: Arc<Mutex<TeeLog>>,
}

impl std::fmt::Debug for TeeDir {
    fn fmt(&self, f: &mut std::fmt::Formatter<'_>) -> std::fmt::Result {
        write!(f, "TeeDir({:?})", self.root)
    }
}

impl Directory for TeeDir {
    fn get_file_handle(&self, path: &Path) -> Result<Arc<dyn FileHandle>, OpenReadError> {
        self.inner.get_file_handle(path)
    }
    fn delete(&self, path: &Path) -> Result<(), DeleteError> {
        if let Ok(bytes) = std::fs::read(self.root.join(path)) {
            self.log
                .lock()
                .unwrap()
                .graveyard
                .insert(path.to_string_lossy().to_string(), bytes);
        }
        self.inner.delete(path)
    }
    fn exists(&self, path: &Path) -> Result<bool, OpenReadError> {
        self.inner.exists(path)
    }
    fn open_write(&self, path: &Path) -> Result<WritePtr, OpenWriteError> {
        self.inner.open_write(path)
    }
    fn atomic_read(&self, path: &Path) -> Result<Vec<u8>, OpenReadError> {
        self.inner.atomic_read(path)
    }
    fn atomic_write(&self, path: &Path, data: &[u8]) -> io::Result<()> {
        self.log
            .lock()
            .unwrap()
            .atomics
            .push((path.to_string_lossy().to_string(), data.to_vec()));
        self.inner.atomic_write(path, data)
    }
    fn sync_directory(&self) -> io::Result<()> {
        self.inner.sync_directory()
    }
    fn acquire_lock(&self, lock: &Lock) -> Result<DirectoryLock, LockError> {
        self.inner.acquire_lock(lock)
    }
    fn watch(&self, cb: WatchCallback) -> tantivy::Result<WatchHandle> {
        self.inner.watch(cb)
    }
}

pub fn hex(b: &[u8]) -> String {
    let mut s = String::with_capacity(b.len() * 2);
    for x in b {
        s.push_str(&format!("{x:02x}"));
    }
    s
}
pub fn unhex(s: &str) -> Vec<u8> {
    (0..s.len() / 2)
        .map(|i| u8::from_str_radix(&s[2 * i..2 * i + 2], 16).unwrap_or(0))
        .collect()
}

// ---------------------------------------------------------------------------------------------
// trace parsing

#[derive(Clone, Debug)]
pub enum Sys {
    Create { path: String },
    Write { path: String, n: usize },
    SyncFile { path: String },
    SyncDir,
    Rename { from: String, to: String },
    Unlink { path: String },
    Marker { what: String, note: String },
}

fn between<'a>(s: &'a str, a: &str, b: &str) -> Option<&'a str> {
    let i = s.find(a)? + a.len();
    let j = s[i..].find(b)? + i;
    Some(&s[i..j])
}

fn quoted_args(s: &str) -> Vec<String> {
    // all "..." string literals of the call (paths contain no escaped quotes here)
    let mut out = vec![];
    let mut rest = s;
    while let Some(i) = rest.find('"') {
        let r = &rest[i + 1..];
        let Some(j) = r.find('"') else { break };
        out.push(r[..j].to_string());
        rest = &r[j + 1..];
    }
    out
}

/// Parses `strace -f -y -o` output into storage events relative to `root` (canonical path).
pub fn parse_trace(text: &str, root: &str) -> Vec<Sys> {
    let mut out = vec![];
    let mut pending: HashMap<String, String> = HashMap::new();
    let rootp = format!("{root}/");
    let rel = |p: &str| -> Option<String> { p.strip_prefix(&rootp).map(|s| s.to_string()) };
    for line in text.lines() {
        let Some((pid, rest)) = line.split_once(' ') else { continue };
        let rest = rest.trim_start();
        let mut full = rest.to_string();
        if rest.ends_with("<unfinished ...>") {
            pending.insert(pid.to_string(), rest.trim_end_matches("<unfinished ...>").to_string());
            continue;
        }
        if rest.starts_with("<...") {
            // "<... write resumed>) = 4096"
            let Some(prefix) = pending.remove(pid) else { continue };
            let tail = rest.split_once("resumed>").map(|x| x.1).unwrap_or("");
            full = format!("{prefix}{tail}");
        }
        let Some((call, result)) = full.rsplit_once(" = ") else { continue };
        let ok = !result.trim_start().starts_with('-');
        let name = call.split('(').next().unwrap_or("");
        match name {
            "statx" | "newfstatat" | "stat" | "lstat" => {
                let args = quoted_args(call);
                if let Some(p) = args.iter().find(|a| a.starts_with(MARKER_ROOT)) {
                    let parts: Vec<&str> = p[MARKER_ROOT.len()..].trim_start_matches('/').splitn(2, '/').collect();
                    out.push(Sys::Marker {
                        what: parts.first().copied().unwrap_or("").to_string(),
                        note: parts.get(1).copied().unwrap_or("").to_string(),
                    });
                }
            }
            "openat" | "open" | "creat" => {
                if !ok {
                    continue;
                }
                let args = quoted_args(call);
                let Some(p) = args.first() else { continue };
                let Some(r) = rel(p) else { continue };
                if call.contains("O_CREAT") && call.contains("O_EXCL") {
                    out.push(Sys::Create { path: r });
                }
            }
            "write" | "pwrite64" | "writev" => {
                if !ok {
                    continue;
                }
                let Some(p) = between(call, "<", ">") else { continue };
                let Some(r) = rel(p) else { continue };
                let n: usize = result.trim().split_whitespace().next().and_then(|x| x.parse().ok()).unwrap_or(0);
                out.push(Sys::Write { path: r, n });
            }
            "fdatasync" | "fsync" => {
                if !ok {
                    continue;
                }
                let Some(p) = between(call, "<", ">") else { continue };
                if p == root {
                    out.push(Sys::SyncDir);
                } else if let Some(r) = rel(p) {
                    out.push(Sys::SyncFile { path: r });
                }
            }
            "rename" | "renameat" | "renameat2" => {
                if !ok {
                    continue;
                }
                let args = quoted_args(call);
                if args.len() >= 2 {
                    if let (Some(a), Some(b)) = (rel(&args[0]), rel(&args[1])) {
                        out.push(Sys::Rename { from: a, to: b });
                    }
                }
            }
            "unlink" | "unlinkat" => {
                if !ok {
                    continue;
                }
                let args = quoted_args(call);
                if let Some(p) = args.first() {
                    if let Some(r) = rel(p) {
                        out.push(Sys::Unlink { path: r });
                    }
                }
            }
            _ => {}
        }
    }
    out
}

// ---------------------------------------------------------------------------------------------
// durability model driven by syscalls

#[derive(Clone, Debug)]
enum DOp {
    Link(String, u64),
    Unlink(String),
    Rename(String, String, u64),
}

#[derive(Clone, Debug)]
struct SInode {
    /// full final content of the file (bytes beyond `len` are not written yet)
    content: Arc<Vec<u8>>,
    len: usize,
    synced_len: usize,
}

#[derive(Clone, Default)]
pub struct SysState {
    inodes: HashMap<u64, SInode>,
    next: u64,
    visible: BTreeMap<String, u64>,
    durable: BTreeMap<String, u64>,
    pending: Vec<DOp>,
    atomic_seq: HashMap<String, usize>,
}

pub struct Contents {
    /// final content per regular file path (from disk or the graveyard)
    pub files: BTreeMap<String, Arc<Vec<u8>>>,
    /// payloads of atomic writes per target path, in order
    pub atomics: BTreeMap<String, Vec<Arc<Vec<u8>>>>,
}

#[derive(Clone, Copy, Debug, PartialEq)]
pub enum SContent {
    Synced,
    Full,
    Random,
}

impl SysState {
    pub fn new() -> SysState {
        SysState { next: 1, ..Default::default() }
    }
    pub fn pending_len(&self) -> usize {
        self.pending.len()
    }
    pub fn unsynced_files(&self) -> usize {
        self.visible
            .values()
            .filter(|i| self.inodes.get(i).map(|n| n.synced_len < n.len).unwrap_or(false))
            .count()
    }
    /// returns Err(description) when the trace cannot be interpreted (=> inconclusive)
    pub fn apply(&mut self, ev: &Sys, c: &Contents) -> Result<(), String> {
        match ev {
            Sys::Create { path } => {
                let id = self.next;
                self.next += 1;
                let content = if path.starts_with(".tmp") {
                    Arc::new(vec![])
                } else {
                    c.files.get(path).cloned().unwrap_or_else(|| Arc::new(vec![]))
                };
                self.inodes.insert(id, SInode { content, len: 0, synced_len: 0 });
                self.visible.insert(path.clone(), id);
                self.pending.push(DOp::Link(path.clone(), id));
            }
            Sys::Write { path, n } => {
                if let Some(id) = self.visible.get(path) {
                    if let Some(ino) = self.inodes.get_mut(id) {
                        ino.len += n;
                        if !path.starts_with(".tmp") && !path.starts_with(".tantivy-") && ino.len > ino.content.len() {
                            return Err(format!(
                                "{path}: {} bytes written but only {} bytes of content known",
                                ino.len,
                                ino.content.len()
                            ));
                        }
                    }
                }
            }
            Sys::SyncFile { path } => {
                if let Some(id) = self.visible.get(path) {
                    if let Some(ino) = self.inodes.get_mut(id) {
                        ino.synced_len = ino.len;
                    }
                }
            }
            Sys::SyncDir => {
                for op in self.pending.drain(..) {
                    match op {
                        DOp::Link(p, i) => {
                            self.durable.insert(p, i);
                        }
                        DOp::Unlink(p) => {
                            self.durable.remove(&p);
                        }
                        DOp::Rename(from, to, i) => {
                            self.durable.remove(&from);
                            self.durable.insert(to, i);
                        }
                    }
                }
            }
            Sys::Rename { from, to } => {
                let Some(id) = self.visible.remove(from) else {
                    return Err(format!("rename of unknown file {from}"));
                };
                // the temp file's content is the next atomic payload of the target
                let k = self.atomic_seq.entry(to.clone()).or_insert(0);
                let payload = c
                    .atomics
                    .get(to)
                    .and_then(|v| v.get(*k))
                    .cloned()
                    .ok_or_else(|| format!("no recorded payload #{k} for {to}"))?;
                *k += 1;
                if let Some(ino) = self.inodes.get_mut(&id) {
                    if ino.len != payload.len() {
                        return Err(format!("{to}: temp file has {} bytes, payload {}", ino.len, payload.len()));
                    }
                    ino.content = payload;
                }
                self.visible.insert(to.clone(), id);
                self.pending.push(DOp::Rename(from.clone(), to.clone(), id));
            }
            Sys::Unlink { path } => {
                if self.visible.remove(path).is_some() {
                    self.pending.push(DOp::Unlink(path.clone()));
                }
            }
            Sys::Marker { .. } => {}
        }
        Ok(())
    }

    /// image with the pending dir-ops selected by `mask` applied, content per `mode`
    pub fn image(&self, mask: &[bool], mode: SContent, rng: &mut Rng) -> BTreeMap<String, Vec<u8>> {
        let mut entries = self.durable.clone();
        for (i, op) in self.pending.iter().enumerate() {
            if !mask.get(i).copied().unwrap_or(false) {
                continue;
            }
            match op {
                DOp::Link(p, ino) => {
                    entries.insert(p.clone(), *ino);
                }
                DOp::Unlink(p) => {
                    entries.remove(p);
                }
                DOp::Rename(from, to, ino) => {
                    entries.remove(from);
                    entries.insert(to.clone(), *ino);
                }
            }
        }
        let mut img = BTreeMap::new();
        for (p, id) in entries {
            if p.starts_with(".tantivy-") {
                continue; // lock files carry no state across a crash
            }
            let Some(ino) = self.inodes.get(&id) else { continue };
            let len = match mode {
                SContent::Synced => ino.synced_len,
                SContent::Full => ino.len,
                SContent::Random => ino.synced_len + rng.usize_below(ino.len - ino.synced_len + 1),
            };
            let len = len.min(ino.content.len());
            img.insert(p, ino.content[..len].to_vec());
        }
        img
    }
}

pub fn sidecar_json(log: &TeeLog, commits: &[Vec<u64>]) -> Value {
    json!({
        "graveyard": log.graveyard.iter().map(|(k, v)| (k.clone(), json!(hex(v)))).collect::<serde_json::Map<_, _>>(),
        "atomics": log.atomics.iter().map(|(p, v)| json!([p, hex(v)])).collect::<Vec<_>>(),
        "commits": commits,
    })
}
