//! Miri-sized workloads for the `unsafe` code behind C05-C08. Each binary runs a few hundred
//! operations against a naive oracle; Miri watches for UB while the oracle checks behaviour.
pub struct Rng(pub u64);
impl Rng {
    pub fn next(&mut self) -> u64 {
        self.0 = self.0.wrapping_add(0x9E3779B97F4A7C15);
        let mut z = self.0;
        z = (z ^ (z >> 30)).wrapping_mul(0xBF58476D1CE4E5B9);
        z = (z ^ (z >> 27)).wrapping_mul(0x94D049BB133111EB);
        z ^ (z >> 31)
    }
    pub fn below(&mut self, n: u64) -> u64 {
        self.next() % n
    }
}
pub fn seed() -> u64 {
    std::env::args().nth(1).and_then(|s| s.parse().ok()).unwrap_or(1)
}
pub fn mismatch(what: &str) -> ! {
    println!("MIRI-WORKLOAD-MISMATCH {what}");
    std::process::exit(1);
}
