#!/usr/bin/env python3
"""Regenerates the tables between <!-- FINDINGS-BEGIN --> and <!-- FINDINGS-END --> in DESIGN.md
from known_findings.txt (the file the checks read), so the two cannot drift apart."""
import re, subprocess
root = '/verif'
fixed, known = [], []
for line in open(f'{root}/known_findings.txt'):
    line = line.rstrip('\n')
    m = re.match(r'fixed: property=(\S+) (\S+) (.*)', line)
    if m:
        fixed.append(m.groups()); continue
    m = re.match(r'known: property=(\S+) sig=(.*?) :: (.*)', line)
    if m:
        known.append(m.groups())
def esc(s): return s.replace('|', '\\|')
out = ['**Repaired (`fix:` commits in /repo, in the order they were made)**', '',
       '| commit | property | what failed on the unchanged tree |', '|---|---|---|']
for p, c, what in fixed:
    out.append(f'| `{c}` | {p} | {esc(what)} |')
out += ['', '**Recorded as known findings (not repaired)** - signature prefix / glob as matched by the checks', '',
        '| property | signature | what fails |', '|---|---|---|']
for p, sig, what in known:
    out.append(f'| {p} | `{esc(sig)}` | {esc(what)} |')
s = open(f'{root}/DESIGN.md').read()
b, e = '<!-- FINDINGS-BEGIN -->', '<!-- FINDINGS-END -->'
i, j = s.index(b), s.index(e)
s = s[:i + len(b)] + '\n' + '\n'.join(out) + '\n' + s[j:]
open(f'{root}/DESIGN.md', 'w').write(s)
print(f'{len(fixed)} fixed, {len(known)} known')
