//! C04 — merging never changes the logical content of the index (translation validation).
use std::collections::{BTreeMap, BTreeSet};
use std::time::Duration;

use serde_json::{json, Value};
use tantivy::directory::RamDirectory;
use tantivy::indexer::merge_indices;
use tantivy::index::SegmentId;
use tantivy::Order;
use tvmon::dump::*;
use tvmon::hist::*;
use tvmon::mondir::{FaultMode, MonCfg, MonDir, OpKind, OpPred};
use tvmon::report::*;
use tvmon::rng::Rng;

/// Validates one merge: `sources` are the dumps of the source segments' live docs (as of the
/// publication), `out` the dump of the merged segment.
fn validate_merge(
    sources: &[SegDump],
    out: &SegDump,
    sort: &Option<(String, Order)>,
) -> Vec<(String, Value)> {
    let mut errs = vec![];
    let mut all_ids: Vec<u64> = vec![];
    for s in sources {
        all_ids.extend(&s.order);
    }
    let want: BTreeSet<u64> = all_ids.iter().copied().collect();
    let got: BTreeSet<u64> = out.order.iter().copied().collect();
    if out.order.len() != got.len() {
        errs.push(("merge:duplicate-docs-in-output".into(), json!({"n": out.order.len(), "distinct": got.len()})));
    }
    if want != got {
        let missing: Vec<&u64> = want.difference(&got).take(10).collect();
        let extra: Vec<&u64> = got.difference(&want).take(10).collect();
        errs.push((
            if extra.is_empty() { "merge:docs-lost" } else if missing.is_empty() { "merge:docs-resurrected" } else { "merge:docs-lost-and-extra" }.into(),
            json!({"missing": missing, "extra": extra}),
        ));
        return errs;
    }
    if out.num_deleted != 0 {
        // a merged segment may carry deletes only through end_merge reconciliation; its live
        // docs are what we compare, so this is informational
    }
    for s in sources {
        for (id, d) in &s.docs {
            if let Some(o) = out.docs.get(id) {
                if let Some(diff) = diff_doc(d, o) {
                    let what = diff.split(':').next().unwrap_or("?").split(' ').next().unwrap_or("?").to_string();
                    errs.push((format!("merge:doc-differs:{what}"), json!({"id": id, "diff": diff})));
                    if errs.len() > 5 {
                        return errs;
                    }
                }
            }
        }
    }
    // order
    match sort {
        None => {
            // each source's live docs form one contiguous block in source-internal order
            let mut pos: BTreeMap<u64, usize> = BTreeMap::new();
            for (i, id) in out.order.iter().enumerate() {
                pos.insert(*id, i);
            }
            for s in sources {
                if s.order.is_empty() {
                    continue;
                }
                let start = pos[&s.order[0]];
                for (k, id) in s.order.iter().enumerate() {
                    if pos[id] != start + k {
                        errs.push((
                            "merge:source-order-not-preserved".into(),
                            json!({"source_order": s.order.iter().take(20).collect::<Vec<_>>(),
                                   "output_order": out.order.iter().take(40).collect::<Vec<_>>()}),
                        ));
                        return errs;
                    }
                }
            }
        }
        Some((_, order)) => {
            if let Some(e) = check_sorted(&out.vals_in_order, *order) {
                errs.push(("merge:output-not-in-sort-order".into(), json!({"order": format!("{order:?}"), "detail": e})));
            }
        }
    }
    errs
}

/// missing values first in ascending, last in descending
pub fn check_sorted(vals: &[Option<i64>], order: Order) -> Option<String> {
    for w in vals.windows(2) {
        let ok = match order {
            Order::Asc => match (w[0], w[1]) {
                (None, _) => true,
                (Some(_), None) => false,
                (Some(a), Some(b)) => a <= b,
            },
            Order::Desc => match (w[0], w[1]) {
                (_, None) => true,
                (None, Some(_)) => false,
                (Some(a), Some(b)) => a >= b,
            },
        };
        if !ok {
            return Some(format!("{:?} then {:?} in {:?}", w[0], w[1], vals.iter().take(30).collect::<Vec<_>>()));
        }
    }
    None
}

fn explicit_case(case: u64, rng: &mut Rng, rep: &mut Report) {
    let sort = match rng.below(4) {
        0 => Some(("val".to_string(), Order::Asc)),
        1 => Some(("val".to_string(), Order::Desc)),
        _ => None,
    };
    let cfg = ExecCfg { threads: 1, merge_policy: false, sort: sort.clone(), budget_per_thread: 15_000_000 };
    // a third of the cases write multi-block doc stores (block size 24..400 bytes): unsorted
    // merges of segments without deletes then stack compressed blocks instead of copying
    // documents, merges with deletes or sorting re-read across block borders
    let mut r2 = Rng::new(case ^ 0x0b10_c5b1_0c4b);
    let blocksize = if r2.chance(1, 3) { *r2.pick(&[24usize, 64, 160, 400]) } else { 0 };
    set_docstore_blocksize(blocksize);
    rep.observe("docstore_blocksize", if blocksize == 0 { "default".to_string() } else { blocksize.to_string() });
    // doc store written on the indexing thread (no compressor thread) in a quarter of the cases;
    // compressor none / zstd instead of lz4 in a third
    let variant = set_docstore_variant(r2.chance(1, 4), if r2.chance(1, 3) { 1 + r2.below(2) as u8 } else { 0 });
    rep.observe("docstore_variant", variant);
    let mut ex = match Exec::create(Box::new(RamDirectory::create()), cfg.clone(), None) {
        Ok(e) => e,
        Err(e) => {
            rep.violation("api-error:create", json!(e));
            return;
        }
    };
    let mut g = HistGen::new();
    let nseg = rng.urange(1, 6);
    let big_store = rng.chance(1, 4);
    let disjoint_vals = rng.bool();
    let mut has_deletes = false;
    for s in 0..nseg {
        let ndocs = if rng.chance(1, 8) { 1 } else { rng.urange(1, 40) };
        for _ in 0..ndocs {
            let mut d = g.doc(rng, 4);
            if big_store {
                d.pad = rng.urange(2000, 6000);
            }
            if disjoint_vals {
                d.val = d.val.map(|_| (s as i64) * 100 + rng.irange(0, 50));
            }
            ex.step(&Op::Add(d));
        }
        ex.step(&Op::Commit);
    }
    // deletes: none / some / a whole segment
    match rng.below(4) {
        0 => {}
        1 => {
            ex.step(&Op::DeleteTerm(Pred::Grp(rng.below(4))));
            has_deletes = true;
        }
        2 => {
            ex.step(&Op::DeleteQuery(Pred::ValRange(-20, 60)));
            ex.step(&Op::DeleteTerm(Pred::Word(rng.below(8) as u8)));
            has_deletes = true;
        }
        _ => {
            ex.step(&Op::DeleteQuery(Pred::All));
            has_deletes = true;
            ex.step(&Op::Add(g.doc(rng, 4)));
        }
    }
    ex.step(&Op::Commit);
    for (sig, d) in ex.check_committed(false) {
        rep.violation(format!("pre-merge:{sig}"), json!({"case": case, "detail": d}));
        return;
    }
    rep.eval();
    // source dumps
    let searcher = ex.reader.searcher();
    let mut src: BTreeMap<SegmentId, SegDump> = BTreeMap::new();
    for sr in searcher.segment_readers() {
        match dump_segment(sr, &ex.hs) {
            Ok(d) => {
                src.insert(sr.segment_id(), d);
            }
            Err((sig, d)) => {
                rep.violation(format!("source-{sig}"), json!({"case": case, "detail": d}));
                return;
            }
        }
    }
    let mut ids: Vec<SegmentId> = src.keys().copied().collect();
    if ids.is_empty() {
        return; // merge() requires a non-empty list (documented)
    }
    rng.shuffle(&mut ids);
    let take = rng.urange(1, ids.len().max(1));
    ids.truncate(take);
    let before: BTreeSet<SegmentId> = src.keys().copied().collect();
    let fut = ex.writer.as_mut().unwrap().merge(&ids);
    let merged_meta = match fut.wait() {
        Ok(m) => m,
        Err(e) => {
            rep.violation("api-error:merge", json!({"case": case, "err": e.to_string()}));
            return;
        }
    };
    if let Err(e) = ex.reader.reload() {
        rep.violation("api-error:reload", json!(e.to_string()));
        return;
    }
    let searcher = ex.reader.searcher();
    let sources: Vec<SegDump> = ids.iter().map(|i| src[i].clone()).collect();
    let live_in: usize = sources.iter().map(|s| s.order.len()).sum();
    let new_segs: Vec<_> = searcher
        .segment_readers()
        .iter()
        .filter(|sr| !before.contains(&sr.segment_id()))
        .collect();
    rep.count("merges_validated", 1);
    rep.count("source_segments", ids.len() as u64);
    let mut disagreements = 0u64;
    if live_in == 0 {
        if !new_segs.is_empty() || merged_meta.is_some() {
            rep.violation("merge:empty-result-produced-a-segment", json!({"case": case}));
        }
        rep.observe("merge_shape", "all-sources-empty");
    } else if new_segs.len() != 1 {
        rep.violation(
            "merge:expected-exactly-one-new-segment",
            json!({"case": case, "new": new_segs.len(), "sources": ids.len()}),
        );
    } else {
        match dump_segment(new_segs[0], &ex.hs) {
            Err((sig, d)) => rep.violation(format!("output-{sig}"), json!({"case": case, "detail": d})),
            Ok(out) => {
                for (sig, d) in validate_merge(&sources, &out, &sort) {
                    disagreements += 1;
                    rep.violation(
                        sig,
                        json!({"case": case, "sort": format!("{sort:?}"), "sources": ids.len(), "detail": d}),
                    );
                }
                let removed = sources.iter().map(|s| s.num_deleted as u64).sum::<u64>();
                if ids.len() >= 2 || removed > 0 {
                    rep.nontrivial(format!(
                        "explicit:src{}:del{}:{}:{}:{}",
                        ids.len(),
                        if removed > 0 { 1 } else { 0 },
                        match &sort { None => "unsorted".into(), Some((_, o)) => format!("{o:?}") },
                        if big_store { "bigstore" } else { "smallstore" },
                        if disjoint_vals { "disjoint" } else { "overlap" },
                    ));
                }
                rep.observe("merge_shape", format!("src{}|deletes={}|bigstore={}|sort={}", ids.len().min(4), removed > 0, big_store, sort.is_some()));
            }
        }
    }
    rep.count("disagreements", disagreements);
    // whole-index content is unchanged
    for (sig, d) in ex.check_committed(true) {
        rep.violation(format!("post-merge:{sig}"), json!({"case": case, "detail": d}));
    }
    let _ = has_deletes;
    if case < 3 {
        rep.sample(json!({"sort": format!("{sort:?}"), "segments": nseg, "merged": ids.len(), "live_docs_in": live_in,
            "source_orders": sources.iter().map(|s| s.order.clone()).collect::<Vec<_>>()}));
    }
}

/// merge_filtered_segments: segments of one or two indexes merged into a fresh directory under a
/// caller-supplied alive set per segment (intersected with the segment's own deletes). The
/// merged segment must hold exactly the documents alive under both, each with the stored fields,
/// fast fields, norms and postings it had in its source segment.
fn filtered_case(case: u64, rng: &mut Rng, rep: &mut Report) {
    let n = rng.urange(1, 2);
    let mut g = HistGen::new();
    let hs = hschema();
    // multi-block doc stores in two thirds of the cases: a source without deletes of its own is
    // a candidate for block stacking, which a custom alive set must prevent
    let blocksize = if rng.chance(2, 3) { *rng.pick(&[24usize, 64, 160, 400]) } else { 0 };
    set_docstore_blocksize(blocksize);
    let mut segments = vec![];
    let mut settings = None;
    for _ in 0..n {
        let cfg = ExecCfg { threads: 1, merge_policy: false, sort: None, budget_per_thread: 15_000_000 };
        let Ok(mut ex) = Exec::create(Box::new(RamDirectory::create()), cfg, None) else {
            rep.violation("api-error:create", json!(null));
            return;
        };
        for _ in 0..rng.urange(1, 3) {
            for _ in 0..rng.urange(1, 25) {
                ex.step(&Op::Add(g.doc(rng, 4)));
            }
            ex.step(&Op::Commit);
        }
        if rng.chance(1, 3) {
            ex.step(&Op::DeleteTerm(Pred::Grp(rng.below(4))));
            ex.step(&Op::Commit);
        }
        if let Some(w) = ex.writer.take() {
            let _ = w.wait_merging_threads();
        }
        settings = Some(ex.index.settings().clone());
        match ex.index.searchable_segments() {
            Ok(segs) => segments.extend(segs),
            Err(e) => {
                rep.violation("api-error:searchable_segments", json!(e.to_string()));
                return;
            }
        }
    }
    set_docstore_blocksize(0);
    let mut sources = vec![];
    let mut filters: Vec<Option<tantivy::fastfield::AliveBitSet>> = vec![];
    let mut shape = vec![];
    for seg in &segments {
        let sr = match tantivy::SegmentReader::open(seg) {
            Ok(sr) => sr,
            Err(e) => {
                rep.violation("api-error:SegmentReader::open", json!(e.to_string()));
                return;
            }
        };
        let mut dump = match dump_segment(&sr, &hs) {
            Ok(d) => d,
            Err((sig, d)) => {
                rep.violation(format!("source-{sig}"), json!({"detail": d}));
                return;
            }
        };
        let max_doc = sr.max_doc();
        let mode = rng.below(5);
        if mode == 0 {
            filters.push(None);
            shape.push(if sr.has_deletes() { "nofilter+deletes" } else { "nofilter" });
        } else {
            // 1 = keep all, 2 = drop one document, 3 = random half, 4 = keep one
            let mut bits = tantivy_common::BitSet::with_max_value(max_doc);
            let victim = rng.below(max_doc as u64) as u32;
            for doc in 0..max_doc {
                let keep = match mode {
                    1 => true,
                    2 => doc != victim,
                    3 => rng.bool(),
                    _ => doc == victim,
                };
                if keep {
                    bits.insert(doc);
                }
            }
            let Ok(idc) = sr.fast_fields().u64("id") else {
                rep.harness_error("no id column".to_string());
                return;
            };
            let mut keep_ids: BTreeSet<u64> = BTreeSet::new();
            for doc in 0..max_doc {
                if bits.contains(doc) {
                    keep_ids.extend(idc.values_for_doc(doc));
                }
            }
            let mut i = 0;
            let order = std::mem::take(&mut dump.order);
            let vals = std::mem::take(&mut dump.vals_in_order);
            for (k, id) in order.iter().enumerate() {
                if keep_ids.contains(id) {
                    dump.order.push(*id);
                    if let Some(v) = vals.get(k) {
                        dump.vals_in_order.push(*v);
                    }
                    i += 1;
                }
            }
            let _ = i;
            dump.docs.retain(|id, _| keep_ids.contains(id));
            let mut buf: Vec<u8> = vec![];
            if tantivy::fastfield::write_alive_bitset(&bits, &mut buf).is_err() {
                rep.harness_error("write_alive_bitset failed".to_string());
                return;
            }
            filters.push(Some(tantivy::fastfield::AliveBitSet::open(tantivy::directory::OwnedBytes::new(buf))));
            shape.push(match (mode, sr.has_deletes()) {
                (1, false) => "keep-all",
                (1, true) => "keep-all+deletes",
                (2, false) => "drop-one",
                (2, true) => "drop-one+deletes",
                (3, false) => "half",
                (3, true) => "half+deletes",
                (_, false) => "keep-one",
                (_, true) => "keep-one+deletes",
            });
        }
        sources.push(dump);
    }
    rep.eval();
    let live: usize = sources.iter().map(|s| s.order.len()).sum();
    let Some(settings) = settings else { return };
    let merged = match guarded(|| tantivy::indexer::merge_filtered_segments(&segments, settings, filters, RamDirectory::create())) {
        Ok(Ok(i)) => i,
        Ok(Err(e)) => {
            if live == 0 {
                return;
            }
            rep.violation("api-error:merge_filtered_segments", json!({"case": case, "err": e.to_string()}));
            return;
        }
        Err(p) => {
            if p.in_harness() {
                rep.harness_error(p.message);
            } else {
                rep.violation(p.sig(), json!({"case": case, "panic": p.message, "live_docs": live, "shape": shape}));
            }
            return;
        }
    };
    let reader = match merged.reader() {
        Ok(r) => r,
        Err(e) => {
            rep.violation("api-error:filtered-merged-reader", json!(e.to_string()));
            return;
        }
    };
    let s = reader.searcher();
    rep.count("merge_filtered_validated", 1);
    rep.count("merge_filtered_docs_compared", live as u64);
    if live == 0 {
        return;
    }
    if s.segment_readers().len() != 1 {
        rep.violation("merge_filtered:not-one-segment", json!({"n": s.segment_readers().len()}));
        return;
    }
    match dump_segment(&s.segment_readers()[0], &hs) {
        Err((sig, d)) => rep.violation(format!("merge_filtered:output-{sig}"), json!({"case": case, "shape": shape, "detail": d})),
        Ok(out) => {
            for (sig, d) in validate_merge(&sources, &out, &None) {
                rep.violation(format!("merge_filtered:{sig}"), json!({"case": case, "shape": shape, "blocksize": blocksize, "detail": d}));
            }
            shape.sort();
            shape.dedup();
            rep.nontrivial(format!("merge_filtered:bs={blocksize}:{}", shape.join(",")));
        }
    }
}

/// merge_indices: several indexes merged into a fresh directory.
fn merge_indices_case(case: u64, rng: &mut Rng, rep: &mut Report) {
    let n = rng.urange(1, 3);
    let mut g = HistGen::new();
    let mut indices = vec![];
    let mut sources = vec![];
    let hs = hschema();
    for _ in 0..n {
        let cfg = ExecCfg { threads: 1, merge_policy: false, sort: None, budget_per_thread: 15_000_000 };
        let Ok(mut ex) = Exec::create(Box::new(RamDirectory::create()), cfg, None) else {
            rep.violation("api-error:create", json!(null));
            return;
        };
        for _ in 0..rng.urange(1, 3) {
            for _ in 0..rng.urange(1, 15) {
                ex.step(&Op::Add(g.doc(rng, 4)));
            }
            ex.step(&Op::Commit);
        }
        if rng.bool() {
            ex.step(&Op::DeleteTerm(Pred::Grp(rng.below(4))));
            ex.step(&Op::Commit);
        }
        let _ = ex.reader.reload();
        for sr in ex.reader.searcher().segment_readers() {
            match dump_segment(sr, &hs) {
                Ok(d) => sources.push(d),
                Err((sig, d)) => {
                    rep.violation(format!("source-{sig}"), json!({"detail": d}));
                    return;
                }
            }
        }
        if let Some(w) = ex.writer.take() {
            let _ = w.wait_merging_threads();
        }
        indices.push(ex.index.clone());
    }
    rep.eval();
    let live: usize = sources.iter().map(|s| s.order.len()).sum();
    let merged = match guarded(|| merge_indices(&indices, RamDirectory::create())) {
        Ok(Ok(i)) => i,
        Ok(Err(e)) => {
            if live == 0 {
                return;
            }
            rep.violation("api-error:merge_indices", json!({"case": case, "err": e.to_string()}));
            return;
        }
        Err(p) => {
            if p.in_harness() {
                rep.harness_error(p.message);
            } else {
                rep.violation(p.sig(), json!({"case": case, "panic": p.message, "live_docs": live}));
            }
            return;
        }
    };
    let reader = match merged.reader() {
        Ok(r) => r,
        Err(e) => {
            rep.violation("api-error:merged-reader", json!(e.to_string()));
            return;
        }
    };
    let s = reader.searcher();
    rep.count("merge_indices_validated", 1);
    if live == 0 {
        return;
    }
    if s.segment_readers().len() != 1 {
        rep.violation("merge_indices:not-one-segment", json!({"n": s.segment_readers().len()}));
        return;
    }
    match dump_segment(&s.segment_readers()[0], &hs) {
        Err((sig, d)) => rep.violation(format!("output-{sig}"), json!({"detail": d})),
        Ok(out) => {
            for (sig, d) in validate_merge(&sources, &out, &None) {
                rep.violation(format!("merge_indices:{sig}"), json!({"case": case, "detail": d}));
            }
            if sources.len() >= 2 {
                rep.nontrivial(format!("merge_indices:idx{n}:src{}", sources.len().min(5)));
            }
        }
    }
}

/// Forced schedules: the merge thread is parked at its k-th storage operation while the main
/// thread deletes+commits / rolls back / merges other segments / GCs / drops the writer.
fn forced_case(case: u64, rng: &mut Rng, rep: &mut Report) {
    let cfg = ExecCfg { threads: 1, merge_policy: false, sort: None, budget_per_thread: 15_000_000 };
    let mon = MonDir::new(MonCfg { monitors: true, ..Default::default() });
    let mut ex = match Exec::create(Box::new(mon.clone()), cfg, Some(mon.clone())) {
        Ok(e) => e,
        Err(e) => {
            rep.violation("api-error:create", json!(e));
            return;
        }
    };
    rep.eval();
    let mut g = HistGen::new();
    let committed_sources = rng.chance(3, 4);
    let nseg = rng.urange(2, 4);
    for _ in 0..nseg {
        for _ in 0..rng.urange(2, 10) {
            ex.step(&Op::Add(g.doc(rng, 3)));
        }
        ex.step(&Op::Commit);
    }
    let action = rng.below(7);
    let ids = ex.index.searchable_segment_ids().unwrap_or_default();
    if ids.len() < 2 {
        return;
    }
    let _ = committed_sources;
    let kind = *rng.pick(&[OpKind::OpenWrite, OpKind::Write, OpKind::Terminate, OpKind::OpenRead]);
    let nth = rng.below(match kind {
        OpKind::OpenWrite => 6,
        OpKind::Terminate => 6,
        OpKind::OpenRead => 10,
        _ => 25,
    });
    let gate = mon.add_gate(OpPred::kind(kind).role("merge"), nth);
    let merge_ids: Vec<SegmentId> = if action == 3 { ids[..2].to_vec() } else { ids.clone() };
    let fut = ex.writer.as_mut().unwrap().merge(&merge_ids);
    let parked = mon.wait_parked(gate, Duration::from_secs(5));
    let action_name = match action {
        0 => "delete+commit",
        1 => "rollback",
        2 => "delete+commit+delete+commit",
        3 => "second-merge+delete+commit",
        4 => "gc+add+commit",
        6 => "delete+commit+fault-on-reconciliation",
        _ => "drop-writer",
    };
    let mut fut_opt = Some(fut);
    if parked {
        match action {
            0 => {
                ex.step(&Op::DeleteTerm(Pred::Grp(rng.below(3))));
                ex.step(&Op::Add(g.doc(rng, 3)));
                ex.step(&Op::Commit);
            }
            1 => {
                ex.step(&Op::Add(g.doc(rng, 3)));
                ex.step(&Op::DeleteTerm(Pred::Grp(rng.below(3))));
                // rollback kills the updater; the parked merge will be discarded
                mon.release_gate(gate);
                ex.step(&Op::Rollback);
            }
            2 => {
                ex.step(&Op::DeleteTerm(Pred::Grp(rng.below(3))));
                ex.step(&Op::Commit);
                ex.step(&Op::DeleteQuery(Pred::Word(rng.below(8) as u8)));
                ex.step(&Op::Add(g.doc(rng, 3)));
                ex.step(&Op::Commit);
            }
            3 => {
                if ids.len() >= 4 {
                    let f2 = ex.writer.as_mut().unwrap().merge(&ids[2..]);
                    ex.pending_merges.push(f2);
                }
                ex.step(&Op::DeleteTerm(Pred::Grp(rng.below(3))));
                ex.step(&Op::Commit);
            }
            4 => {
                ex.step(&Op::Gc);
                ex.step(&Op::Add(g.doc(rng, 3)));
                ex.step(&Op::Commit);
                ex.step(&Op::Gc);
            }
            6 => {
                // the deletes committed during the merge cannot be re-applied to the merged
                // segment (its .del cannot be written): the merge must be discarded, not published
                for grp in 0..rng.urange(1, 3) {
                    ex.step(&Op::DeleteTerm(Pred::Grp(grp as u64)));
                }
                ex.step(&Op::Add(g.doc(rng, 3)));
                ex.step(&Op::Commit);
                mon.add_fault(
                    OpPred::kind(OpKind::OpenWrite).role("updater").fkind("del"),
                    0,
                    FaultMode::Once,
                    std::io::ErrorKind::Other,
                );
            }
            _ => {
                mon.release_gate(gate);
                fut_opt = None;
                ex.step(&Op::Reopen { wait_merges: rng.bool() });
            }
        }
    }
    mon.release_gate(gate);
    let mut merge_outcome = "not-waited";
    if let Some(f) = fut_opt {
        merge_outcome = match f.wait() {
            Ok(Some(_)) => "published",
            Ok(None) => "empty",
            Err(_) => "discarded",
        };
    }
    mon.release_all_gates();
    ex.drain_merges();
    rep.count(if parked { "forced_merge_parked" } else { "forced_merge_gate_not_reached" }, 1);
    rep.count(&format!("forced_merge_outcome:{merge_outcome}"), 1);
    if action == 6 && parked {
        rep.count(if mon.faults_fired() > 0 { "reconciliation_fault_fired" } else { "reconciliation_fault_not_reached" }, 1);
    }
    // reconciliation evidence: a .del created by the updater for a segment that did not exist
    // before the merge
    let log = mon.log();
    let recon = log
        .iter()
        .filter(|e| e.kind == OpKind::OpenWrite && e.ok && e.role == "updater" && e.path.ends_with(".del"))
        .count();
    rep.count("del_files_written_by_updater", recon as u64);
    // content must equal the model now and after one more commit
    let mut errs = ex.check_committed(true);
    ex.step(&Op::Add(g.doc(rng, 3)));
    ex.step(&Op::Commit);
    errs.extend(ex.check_committed(true));
    for (sig, d) in ex.problems.drain(..) {
        if !is_known("C02", &sig) {
            errs.push((format!("live:{sig}"), d));
        }
    }
    for v in mon.take_violations() {
        errs.push((v.sig, v.detail));
    }
    for (sig, d) in errs {
        rep.violation(
            format!("forced:{sig}"),
            json!({"case": case, "action": action_name, "gate": format!("{}#{}", kind.name(), nth), "parked": parked,
                   "merge_outcome": merge_outcome, "detail": d}),
        );
    }
    if parked {
        rep.nontrivial(format!("forced:{action_name}:{}#{}:{merge_outcome}", kind.name(), nth.min(12)));
    }
}


/// Policy-driven merges (of uncommitted and of committed segments) while adds, deletes, commits
/// and rollbacks proceed: the searcher must equal the sequential model at every commit-like
/// point and at random points in between (a merge never changes what is published).
fn policy_case(case: u64, rng: &mut Rng, rep: &mut Report) {
    let cfg = ExecCfg {
        threads: *rng.pick(&[1usize, 1, 2]),
        merge_policy: rng.chance(3, 4),
        sort: None,
        budget_per_thread: 15_000_000,
    };
    let mon = MonDir::new(MonCfg { monitors: true, ..Default::default() });
    let mut ex = match Exec::create(Box::new(mon.clone()), cfg.clone(), Some(mon.clone())) {
        Ok(e) => e,
        Err(e) => {
            rep.violation("api-error:create", json!(e));
            return;
        }
    };
    rep.eval();
    let mut gcfg = GenCfg::standard(rng.urange(15, 60)).no_delete_all();
    gcfg.groups = 3; // few keys: deletes and re-adds of the same key are frequent
    gcfg.w[1] = 14; // delete_term
    gcfg.w[5] = 8; // commit
    gcfg.w[7] = 4; // rollback
    gcfg.w[8] = 2; // explicit merge
    gcfg.w[11] = if rng.chance(1, 4) { 1 } else { 0 }; // cutter
    gcfg.w[12] = 5; // policy switches
    gcfg.w[13] = 8; // prepare+drop: cuts uncommitted segments
    let mut g = HistGen::new();
    let ops = g.history(rng, &gcfg);
    let mut failed_at = None;
    for (i, op) in ops.iter().enumerate() {
        ex.step(op);
        rep.count(&format!("policy-op:{}", op.kind()), 1);
        let observe = matches!(op, Op::Commit | Op::PrepCommit { .. } | Op::Rollback | Op::Reopen { .. })
            || i + 1 == ops.len()
            || rng.chance(1, 4);
        if observe {
            for (sig, d) in ex.check_committed(true) {
                ex.problems.push((sig, json!({"after_op_index": i, "after": op.kind(), "detail": d})));
            }
        }
        let mut keep = vec![];
        for (sig, d) in ex.problems.drain(..) {
            if !is_known("C02", &sig) {
                keep.push((sig, d));
            }
        }
        if !keep.is_empty() {
            ex.problems = keep;
            failed_at = Some(i);
            break;
        }
    }
    ex.drain_merges();
    let merge_ops = mon.log().iter().filter(|e| e.role == "merge" && e.kind == OpKind::Terminate).count();
    rep.count("policy_merge_files_terminated", merge_ops as u64);
    for (sig, d) in ex.problems.drain(..) {
        rep.violation(
            format!("policy:{sig}"),
            json!({"case": case, "cfg": cfg.describe(), "detail": d,
                   "history": ops.iter().take(failed_at.map(|i| i + 1).unwrap_or(ops.len())).map(|o| o.brief()).collect::<Vec<_>>()}),
        );
    }
    for v in mon.take_violations() {
        rep.violation(format!("policy:{}", v.sig), json!({"case": case, "detail": v.detail}));
    }
    if merge_ops > 0 {
        let kinds: BTreeSet<&str> = ops.iter().map(|o| o.kind()).collect();
        rep.nontrivial(format!("policy:t{}:{}", cfg.threads, kinds.into_iter().collect::<Vec<_>>().join(",")));
    }
}

/// Forced schedule (shared, `tvmon::sched`): a merge of the previous writer generation ends after
/// the successor has committed - nothing it still does may change what is published.
fn stale_merge_case(case: u64, rng: &mut Rng, rep: &mut Report) {
    rep.eval();
    let mode = rng.below(3) as u8;
    let out = tvmon::sched::stale_merge_schedule_mode(rng, mode);
    for c in &out.counters {
        rep.count(c, 1);
    }
    for (sig, d) in out.problems {
        rep.violation(format!("stale-merge:{sig}"), json!({"case": case, "shape": out.shape, "detail": d}));
    }
    if out.forced {
        rep.nontrivial(format!("stale-merge:{}", out.shape));
    }
}

/// Forced schedule: the merge reaches `end_merge` while a commit (carrying a delete that hits the
/// merged documents) is executing on the segment-updater thread; the end of the merge is queued
/// behind it and has to reconcile the merged segment with THAT commit.
fn merge_ends_during_commit_case(case: u64, rng: &mut Rng, rep: &mut Report) {
    let cfg = ExecCfg { threads: 1, merge_policy: false, sort: None, budget_per_thread: 15_000_000 };
    let mon = MonDir::new(MonCfg { monitors: true, ..Default::default() });
    let mut ex = match Exec::create(Box::new(mon.clone()), cfg, Some(mon.clone())) {
        Ok(e) => e,
        Err(e) => {
            rep.violation("api-error:create", json!(e));
            return;
        }
    };
    rep.eval();
    let mut g = HistGen::new();
    let nseg = rng.urange(2, 4);
    for _ in 0..nseg {
        for _ in 0..rng.urange(2, 10) {
            ex.step(&Op::Add(g.doc(rng, 2)));
        }
        ex.step(&Op::Commit);
    }
    let ids = ex.index.searchable_segment_ids().unwrap_or_default();
    if ids.len() < 2 {
        return;
    }
    let gate_merge = mon.add_gate(OpPred::kind(OpKind::OpenWrite).role("merge"), rng.below(5));
    let fut = ex.writer.as_mut().unwrap().merge(&ids);
    if !mon.wait_parked(gate_merge, Duration::from_secs(5)) {
        mon.release_all_gates();
        let _ = fut.wait();
        rep.count("merge_during_commit:merge_gate_not_reached", 1);
        return;
    }
    // the commit will be parked right before it replaces meta.json
    let gate_commit = mon.add_gate(OpPred::kind(OpKind::AtomicWrite).role("updater").path("meta.json"), 0);
    let mon2 = mon.clone();
    let releaser = std::thread::Builder::new()
        .name("tvmon-releaser".into())
        .spawn(move || {
            let parked = mon2.wait_parked(gate_commit, Duration::from_secs(10));
            // the commit holds the updater thread: let the merge finish and queue its end behind it
            mon2.release_gate(gate_merge);
            let _ = mon2.wait_no_merge_in_flight(Duration::from_secs(10));
            std::thread::sleep(Duration::from_millis(30));
            mon2.release_gate(gate_commit);
            parked
        })
        .expect("spawn");
    ex.step(&Op::DeleteTerm(Pred::Grp(0)));
    if rng.bool() {
        ex.step(&Op::DeleteTerm(Pred::Grp(1)));
    }
    ex.step(&Op::Add(g.doc(rng, 2)));
    ex.step(&Op::Commit);
    let parked = releaser.join().unwrap_or(false);
    mon.release_all_gates();
    let outcome = match fut.wait() {
        Ok(_) => "published",
        Err(_) => "discarded",
    };
    rep.count(if parked { "merge_during_commit:commit_parked_at_its_meta_write" } else { "merge_during_commit:commit_gate_not_reached" }, 1);
    rep.count(&format!("merge_during_commit:merge_{outcome}"), 1);
    let mut errs = ex.check_committed(true);
    ex.step(&Op::Add(g.doc(rng, 2)));
    ex.step(&Op::Commit);
    errs.extend(ex.check_committed(true));
    for (sig, d) in ex.problems.drain(..) {
        if !is_known("C02", &sig) {
            errs.push((format!("live:{sig}"), d));
        }
    }
    for v in mon.take_violations() {
        errs.push((v.sig, v.detail));
    }
    for (sig, d) in errs {
        rep.violation(format!("merge-during-commit:{sig}"), json!({"case": case, "merge": outcome, "detail": d}));
    }
    if parked {
        rep.nontrivial(format!("merge-during-commit:nseg={nseg}:{outcome}"));
    }
}

/// Forced schedule: two explicit merges over overlapping sets of segments ([a, b] and [c, b]) are
/// in flight; the one that ends second finds one of its sources gone and has to be discarded -
/// every document stays exactly once.
fn overlapping_merges_case(case: u64, rng: &mut Rng, rep: &mut Report) {
    let cfg = ExecCfg { threads: 1, merge_policy: false, sort: None, budget_per_thread: 15_000_000 };
    let mon = MonDir::new(MonCfg { monitors: true, ..Default::default() });
    let mut ex = match Exec::create(Box::new(mon.clone()), cfg, Some(mon.clone())) {
        Ok(e) => e,
        Err(e) => {
            rep.violation("api-error:create", json!(e));
            return;
        }
    };
    rep.eval();
    let mut g = HistGen::new();
    let nseg = rng.urange(3, 5);
    for _ in 0..nseg {
        for _ in 0..rng.urange(2, 8) {
            ex.step(&Op::Add(g.doc(rng, 3)));
        }
        ex.step(&Op::Commit);
    }
    let mut ids = ex.index.searchable_segment_ids().unwrap_or_default();
    if ids.len() < 3 {
        return;
    }
    rng.shuffle(&mut ids);
    let (a, b, c) = (ids[0], ids[1], ids[2]);
    // the first merge is parked; the shared segment is NOT the first of its list in half the cases
    let first: Vec<SegmentId> = if rng.bool() { vec![a, b] } else { vec![b, a] };
    let second: Vec<SegmentId> = if rng.bool() { vec![c, b] } else { vec![b, c] };
    let gate = mon.add_gate(OpPred::kind(OpKind::OpenWrite).role("merge"), rng.below(5));
    let fut1 = ex.writer.as_mut().unwrap().merge(&first);
    if !mon.wait_parked(gate, Duration::from_secs(5)) {
        mon.release_all_gates();
        let _ = fut1.wait();
        rep.count("overlapping_merges:gate_not_reached", 1);
        return;
    }
    let r2 = ex.writer.as_mut().unwrap().merge(&second).wait();
    mon.release_gate(gate);
    mon.release_all_gates();
    let r1 = fut1.wait();
    rep.count(
        &format!("overlapping_merges:second={}:first={}", if r2.is_ok() { "published" } else { "refused" }, if r1.is_ok() { "published" } else { "discarded" }),
        1,
    );
    let mut errs = ex.check_committed(true);
    ex.step(&Op::Add(g.doc(rng, 3)));
    ex.step(&Op::Commit);
    errs.extend(ex.check_committed(true));
    for (sig, d) in ex.problems.drain(..) {
        if !is_known("C02", &sig) {
            errs.push((format!("live:{sig}"), d));
        }
    }
    for (sig, d) in errs {
        rep.violation(
            format!("overlapping-merges:{sig}"),
            json!({"case": case, "first_merge_ok": r1.is_ok(), "second_merge_ok": r2.is_ok(), "detail": d}),
        );
    }
    rep.nontrivial(format!("overlapping-merges:nseg={nseg}:{}:{}", r1.is_ok(), r2.is_ok()));
}

fn main() {
    let ctx = Ctx::from_env("C04", "translation_validation");
    let mut rep = run_cases(&ctx, "explicit", ctx.scale(300, 20000) as u64, explicit_case);
    rep.merge(run_cases(&ctx, "merge_indices", ctx.scale(60, 3000) as u64, merge_indices_case));
    rep.merge(run_cases(&ctx, "filtered", ctx.scale(120, 6000) as u64, filtered_case));
    rep.merge(run_cases(&ctx, "forced", ctx.scale(150, 8000) as u64, forced_case));
    rep.merge(run_cases(&ctx, "policy", ctx.scale(200, 10000) as u64, policy_case));
    rep.merge(run_cases(&ctx, "stale-merge", ctx.scale(40, 2000) as u64, stale_merge_case));
    rep.merge(run_cases(&ctx, "merge-during-commit", ctx.scale(40, 2000) as u64, merge_ends_during_commit_case));
    rep.merge(run_cases(&ctx, "overlapping-merges", ctx.scale(40, 2000) as u64, overlapping_merges_case));
    let programs = rep.counters.get("merges_validated").copied().unwrap_or(0)
        + rep.counters.get("merge_indices_validated").copied().unwrap_or(0);
    let dis = rep.counters.get("disagreements").copied().unwrap_or(0);
    let mut extra = serde_json::Map::new();
    extra.insert("programs".into(), json!(programs));
    extra.insert("disagreements_checked".into(), json!(dis));
    finish(
        &ctx,
        rep,
        Finish {
            rule: "program = one merge actually performed (IndexWriter::merge on 1-6 committed segments with/without deletes, fully deleted sources, big and small stores, sorted asc/desc or unsorted, disjoint or overlapping sort ranges; merge_indices over 1-3 indexes), validated as a translation: canonical dump (stored doc, field norm, fast fields, every (term, tf, positions)) of the output == dumps of the sources' live documents, each source contiguous and in source order (or output in sort order). Plus forced schedules: merge thread parked at its k-th storage op while the main thread deletes+commits / rolls back / starts another merge / GCs / drops the writer, checked against the sequential model. Non-trivial = >=2 sources or >=1 deleted doc removed / the merge thread was actually parked.",
            floor: ctx.scale(40, 300),
            assumptions: vec![
                "source dumps are taken at a quiescent committed state, so the live set at publication is known".into(),
                "unsorted merges: only contiguity and internal order of each source are demanded, not the order of the sources".into(),
            ],
            extra,
        },
    );
}
