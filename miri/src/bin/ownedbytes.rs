use ownedbytes::OwnedBytes;
use tvmiri::*;
fn main() {
    let mut r = Rng(seed());
    let data: Vec<u8> = (0..500).map(|_| r.next() as u8).collect();
    let ob = OwnedBytes::new(data.clone());
    let mut held = vec![];
    for _ in 0..200 {
        let a = r.below(501) as usize; let b = a + r.below((501 - a) as u64) as usize;
        let s = ob.slice(a..b);
        if s.as_slice() != &data[a..b] { mismatch("slice"); }
        let (l, rr) = s.clone().split(s.len() / 2);
        if [l.as_slice(), rr.as_slice()].concat() != data[a..b] { mismatch("split"); }
        if s.len() >= 8 { let mut c = s.clone(); let v = c.read_u64(); if v != u64::from_le_bytes(data[a..a+8].try_into().unwrap()) { mismatch("read_u64"); } }
        held.push(s);
    }
    drop(ob);
    // slices outlive the handle they were cut from
    let total: usize = held.iter().map(|s| s.as_slice().iter().map(|b| *b as usize).sum::<usize>()).sum();
    // cross-thread use
    let h = held.clone();
    let t = std::thread::spawn(move || h.iter().map(|s| s.as_slice().iter().map(|b| *b as usize).sum::<usize>()).sum::<usize>());
    if t.join().unwrap() != total { mismatch("thread"); }
    println!("ownedbytes ok slices={}", held.len());
}
